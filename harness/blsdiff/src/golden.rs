//! C18 golden corpus: values produced by the PINNED release of blsful (commit 4bdca94, written by
//! /verif/harness/goldengen into /verif/golden/corpus.json) are consumed by the CURRENT tree.
//! For every item the consuming operation is redone (decode, verify, decrypt, combine) and the
//! outcome compared with the item's `expected` field, which is the pinned release's own outcome;
//! deterministic producers (sign, combine, finalize, decryption shares) are also redone and
//! compared byte for byte. No verification hooks are used.
//!
//! Output conventions are those of `search.rs`: one `FAIL {json}` line per failing item and a
//! final `SUMMARY {json}` line.
use blsful::inner_types::*;
use blsful::*;
use serde_json::{json, Value};
use std::collections::{BTreeMap, HashSet};

type R<T> = Result<T, String>;

macro_rules! need {
    ($c:expr, $($fmt:tt)+) => {
        if !($c) {
            return Err(format!($($fmt)+));
        }
    };
}

fn field<'a>(it: &'a Value, k: &str) -> R<&'a Value> {
    it.get(k).ok_or_else(|| format!("corpus item lacks `{k}`"))
}
fn text<'a>(it: &'a Value, k: &str) -> R<&'a str> {
    field(it, k)?.as_str().ok_or_else(|| format!("`{k}` is not a string"))
}
fn num(it: &Value, k: &str) -> R<u64> {
    field(it, k)?.as_u64().ok_or_else(|| format!("`{k}` is not a number"))
}
fn unhex(s: &str, k: &str) -> R<Vec<u8>> {
    hex::decode(s).map_err(|_| format!("`{k}` is not hex"))
}
fn bytes(it: &Value, k: &str) -> R<Vec<u8>> {
    unhex(text(it, k)?, k)
}
fn list<'a>(it: &'a Value, k: &str) -> R<&'a Vec<Value>> {
    field(it, k)?.as_array().ok_or_else(|| format!("`{k}` is not a list"))
}
fn bytes_list(it: &Value, k: &str) -> R<Vec<Vec<u8>>> {
    list(it, k)?.iter().map(|v| unhex(v.as_str().ok_or_else(|| format!("`{k}` entry is not a string"))?, k)).collect()
}
fn index_lists(it: &Value, k: &str) -> R<Vec<Vec<usize>>> {
    list(it, k)?.iter().map(|v| index_list(v, k)).collect()
}
fn index_list(v: &Value, k: &str) -> R<Vec<usize>> {
    v.as_array().ok_or_else(|| format!("`{k}` entry is not a list"))?.iter()
        .map(|i| i.as_u64().map(|i| i as usize).ok_or_else(|| format!("`{k}` index is not a number"))).collect()
}
fn pick<T: Clone>(v: &[T], idx: &[usize]) -> R<Vec<T>> {
    idx.iter().map(|&i| v.get(i).cloned().ok_or_else(|| format!("index {i} out of range"))).collect()
}
fn scheme_of(it: &Value) -> R<SignatureSchemes> {
    match text(it, "scheme")? {
        "basic" => Ok(SignatureSchemes::Basic),
        "aug" => Ok(SignatureSchemes::MessageAugmentation),
        "pop" => Ok(SignatureSchemes::ProofOfPossession),
        s => Err(format!("unknown scheme {s}")),
    }
}
fn verdict<T>(r: &BlsResult<T>) -> &'static str {
    if r.is_ok() {
        "ok"
    } else {
        "err"
    }
}
fn opt_hex(o: subtle::CtOption<Vec<u8>>) -> String {
    match Option::<Vec<u8>>::from(o) {
        Some(v) => hex::encode(v),
        None => "none".into(),
    }
}
fn hexpt<G: GroupEncoding>(p: &G) -> String {
    hex::encode(p.to_bytes().as_ref())
}
/// compare an outcome with the recorded one
fn same(what: &str, got: &str, want: &str) -> R<()> {
    need!(got == want, "{what}: got {got}, the pinned release gave {want}");
    Ok(())
}
fn same_bytes(what: &str, got: &[u8], want: &[u8]) -> R<()> {
    need!(got == want, "{what}: got {}, the pinned release gave {}", hex::encode(got), hex::encode(want));
    Ok(())
}

/// decode one recorded form, encode it again in the same form, and compare both the encoding and
/// the decoded value (through its `bare` encoding) with the record
macro_rules! golden_form {
    ($T:ty, $form:expr, $data:expr, $canon:expr) => {{
        let data: &[u8] = $data;
        let (v, again): ($T, Vec<u8>) = match $form {
            "bytes" => {
                let v = <$T>::try_from(data).map_err(|e| format!("byte form rejected: {e}"))?;
                let again = Vec::<u8>::from(&v);
                (v, again)
            }
            "bare" => {
                let v: $T = serde_bare::from_slice(data).map_err(|e| format!("bare form rejected: {e}"))?;
                let again = serde_bare::to_vec(&v).map_err(|e| format!("bare encoding failed: {e}"))?;
                (v, again)
            }
            "json" => {
                let s = std::str::from_utf8(data).map_err(|_| "json form is not UTF-8".to_string())?;
                let v: $T = serde_json::from_str(s).map_err(|e| format!("json form rejected: {e}"))?;
                let again = serde_json::to_string(&v).map_err(|e| format!("json encoding failed: {e}"))?.into_bytes();
                (v, again)
            }
            f => return Err(format!("unknown form {f}")),
        };
        need!(again == data, "decoded, but encodes again as {}", hex::encode(&again));
        let canon = serde_bare::to_vec(&v).map_err(|e| format!("bare encoding failed: {e}"))?;
        need!(canon == $canon, "decodes to a different value (bare {})", hex::encode(&canon));
        Ok(())
    }};
}

/// the same for types that only have the serde forms
macro_rules! golden_serde_form {
    ($T:ty, $form:expr, $data:expr, $canon:expr) => {{
        let data: &[u8] = $data;
        let (v, again): ($T, Vec<u8>) = match $form {
            "bare" => {
                let v: $T = serde_bare::from_slice(data).map_err(|e| format!("bare form rejected: {e}"))?;
                let again = serde_bare::to_vec(&v).map_err(|e| format!("bare encoding failed: {e}"))?;
                (v, again)
            }
            "json" => {
                let s = std::str::from_utf8(data).map_err(|_| "json form is not UTF-8".to_string())?;
                let v: $T = serde_json::from_str(s).map_err(|e| format!("json form rejected: {e}"))?;
                let again = serde_json::to_string(&v).map_err(|e| format!("json encoding failed: {e}"))?.into_bytes();
                (v, again)
            }
            f => return Err(format!("unknown form {f}")),
        };
        need!(again == data, "decoded, but encodes again as {}", hex::encode(&again));
        let canon = serde_bare::to_vec(&v).map_err(|e| format!("bare encoding failed: {e}"))?;
        need!(canon == $canon, "decodes to a different value (bare {})", hex::encode(&canon));
        Ok(())
    }};
}

/// the types that do not depend on the implementation
fn plain_encoding(ty: &str, form: &str, data: &[u8], canon: &[u8]) -> Option<R<()>> {
    if !matches!(ty, "InnerPointShareG1" | "InnerPointShareG2" | "SecretKeyEnum" | "SignatureSchemes" | "Bls12381") {
        return None;
    }
    let run = || -> R<()> {
        match ty {
            "InnerPointShareG1" => golden_form!(InnerPointShareG1, form, data, canon),
            "InnerPointShareG2" => golden_form!(InnerPointShareG2, form, data, canon),
            "SecretKeyEnum" => golden_form!(SecretKeyEnum, form, data, canon),
            "SignatureSchemes" if form == "bytes" => {
                need!(data.len() == 1, "one byte expected");
                let v = SignatureSchemes::from(data[0]);
                need!(v as u8 == data[0], "decoded, but encodes again as {:02x}", v as u8);
                need!(serde_bare::to_vec(&v).map_err(|e| e.to_string())? == canon, "decodes to a different value");
                Ok(())
            }
            "SignatureSchemes" => golden_serde_form!(SignatureSchemes, form, data, canon),
            "Bls12381" if form == "bytes" => {
                need!(data.len() == 1, "one byte expected");
                let v = Bls12381::try_from(data[0]).map_err(|e| format!("byte form rejected: {e}"))?;
                need!(u8::from(v) == data[0], "decoded, but encodes again as {:02x}", u8::from(v));
                need!(serde_bare::to_vec(&v).map_err(|e| e.to_string())? == canon, "decodes to a different value");
                Ok(())
            }
            _ => golden_serde_form!(Bls12381, form, data, canon),
        }
    };
    Some(run())
}

macro_rules! per_impl_golden {
    ($m:ident, $C:ty) => {
        pub mod $m {
            use super::*;
            pub type C = $C;

            fn pk_of(it: &Value, k: &str) -> R<PublicKey<C>> {
                PublicKey::<C>::try_from(bytes(it, k)?.as_slice()).map_err(|e| format!("`{k}` rejected: {e}"))
            }
            fn sk_of(it: &Value, k: &str) -> R<SecretKey<C>> {
                SecretKey::<C>::try_from(bytes(it, k)?.as_slice()).map_err(|e| format!("`{k}` rejected: {e}"))
            }
            fn sig_of(it: &Value, k: &str) -> R<Signature<C>> {
                Signature::<C>::try_from(bytes(it, k)?.as_slice()).map_err(|e| format!("`{k}` rejected: {e}"))
            }
            fn many<T>(it: &Value, k: &str, f: impl Fn(&[u8]) -> BlsResult<T>) -> R<Vec<T>> {
                bytes_list(it, k)?.iter().enumerate().map(|(i, b)| f(b).map_err(|e| format!("`{k}`[{i}] rejected: {e}"))).collect()
            }
            fn sig_scheme(s: &Signature<C>) -> SignatureSchemes {
                match s {
                    Signature::Basic(_) => SignatureSchemes::Basic,
                    Signature::MessageAugmentation(_) => SignatureSchemes::MessageAugmentation,
                    Signature::ProofOfPossession(_) => SignatureSchemes::ProofOfPossession,
                }
            }

            fn encoding(it: &Value) -> R<()> {
                let (ty, form) = (text(it, "type")?, text(it, "form")?);
                need!(text(it, "expected")? == "ok", "an encoding item is expected to decode");
                let (data, canon) = (bytes(it, "data")?, bytes(it, "canon")?);
                let (data, canon) = (data.as_slice(), canon.as_slice());
                if let Some(r) = plain_encoding(ty, form, data, canon) {
                    return r;
                }
                match ty {
                    "SecretKey" => golden_form!(SecretKey<C>, form, data, canon),
                    "PublicKey" => golden_form!(PublicKey<C>, form, data, canon),
                    "Signature" => golden_form!(Signature<C>, form, data, canon),
                    "AggregateSignature" => golden_form!(AggregateSignature<C>, form, data, canon),
                    "MultiSignature" => golden_form!(MultiSignature<C>, form, data, canon),
                    "MultiPublicKey" => golden_form!(MultiPublicKey<C>, form, data, canon),
                    "ProofOfPossession" => golden_form!(ProofOfPossession<C>, form, data, canon),
                    "ProofCommitment" => golden_form!(ProofCommitment<C>, form, data, canon),
                    "ProofCommitmentSecret" => golden_form!(ProofCommitmentSecret<C>, form, data, canon),
                    "ProofCommitmentChallenge" => golden_form!(ProofCommitmentChallenge<C>, form, data, canon),
                    "ProofOfKnowledge" => golden_form!(ProofOfKnowledge<C>, form, data, canon),
                    "ProofOfKnowledgeTimestamp" => golden_form!(ProofOfKnowledgeTimestamp<C>, form, data, canon),
                    "SecretKeyShare" => golden_form!(SecretKeyShare<C>, form, data, canon),
                    "PublicKeyShare" => golden_form!(PublicKeyShare<C>, form, data, canon),
                    "SignatureShare" => golden_form!(SignatureShare<C>, form, data, canon),
                    "SignCryptCiphertext" => golden_form!(SignCryptCiphertext<C>, form, data, canon),
                    "SignCryptDecryptionKey" => golden_form!(SignCryptDecryptionKey<C>, form, data, canon),
                    "SignDecryptionShare" => golden_form!(SignDecryptionShare<C>, form, data, canon),
                    "TimeCryptCiphertext" => golden_form!(TimeCryptCiphertext<C>, form, data, canon),
                    "ElGamalCiphertext" => golden_form!(ElGamalCiphertext<C>, form, data, canon),
                    "ElGamalProof" => golden_form!(ElGamalProof<C>, form, data, canon),
                    "ElGamalDecryptionShare" => golden_form!(ElGamalDecryptionShare<C>, form, data, canon),
                    "ElGamalDecryptionKey" => golden_form!(ElGamalDecryptionKey<C>, form, data, canon),
                    t => Err(format!("unknown type {t}")),
                }
            }

            fn signature(it: &Value) -> R<()> {
                let (pk, sig, msg) = (pk_of(it, "pk")?, sig_of(it, "sig")?, bytes(it, "msg")?);
                same("verify", verdict(&sig.verify(&pk, &msg)), text(it, "expected")?)?;
                if it.get("sk").is_some() {
                    // honest tuple: the current tree produces the same key and signature
                    let sk = sk_of(it, "sk")?;
                    let scheme = scheme_of(it)?;
                    need!(sig_scheme(&sig) == scheme, "signature decodes under another scheme");
                    same_bytes("public key of sk", &Vec::<u8>::from(&sk.public_key()), &bytes(it, "pk")?)?;
                    let again = sk.sign(scheme, &msg).map_err(|e| format!("sign failed: {e}"))?;
                    same_bytes("signature by sk", &Vec::<u8>::from(&again), &bytes(it, "sig")?)?;
                }
                Ok(())
            }

            fn pop(it: &Value) -> R<()> {
                let pk = pk_of(it, "pk")?;
                let pop = ProofOfPossession::<C>::try_from(bytes(it, "pop")?.as_slice()).map_err(|e| format!("`pop` rejected: {e}"))?;
                same("verify", verdict(&pop.verify(pk)), text(it, "expected")?)?;
                if it.get("sk").is_some() {
                    let again = sk_of(it, "sk")?.proof_of_possession().map_err(|e| format!("proof_of_possession failed: {e}"))?;
                    same_bytes("proof of possession by sk", &Vec::<u8>::from(&again), &bytes(it, "pop")?)?;
                }
                Ok(())
            }

            fn aggregate(it: &Value) -> R<()> {
                let mut data: Vec<(PublicKey<C>, Vec<u8>)> = vec![];
                for p in list(it, "pairs")? {
                    data.push((pk_of(p, "pk")?, bytes(p, "msg")?));
                }
                let agg = AggregateSignature::<C>::try_from(bytes(it, "sig")?.as_slice()).map_err(|e| format!("`sig` rejected: {e}"))?;
                same("verify", verdict(&agg.verify(&data)), text(it, "expected")?)?;
                let sigs = many(it, "sigs", |b| Signature::<C>::try_from(b))?;
                let again = AggregateSignature::<C>::from_signatures(&sigs).map_err(|e| format!("from_signatures failed: {e}"))?;
                same_bytes("aggregate of the signatures", &Vec::<u8>::from(&again), &bytes(it, "sig")?)
            }

            fn multisig(it: &Value) -> R<()> {
                let pks = many(it, "pks", |b| PublicKey::<C>::try_from(b))?;
                let msg = bytes(it, "msg")?;
                same_bytes("multi public key of the keys", &Vec::<u8>::from(&MultiPublicKey::<C>::from_public_keys(&pks)), &bytes(it, "mpk")?)?;
                let mpk = MultiPublicKey::<C>::try_from(bytes(it, "mpk")?.as_slice()).map_err(|e| format!("`mpk` rejected: {e}"))?;
                let built = match it.get("sigs") {
                    Some(_) => Some(MultiSignature::<C>::from_signatures(many(it, "sigs", |b| Signature::<C>::try_from(b))?)),
                    None => None,
                };
                if field(it, "sig")?.is_null() {
                    // the pinned release refused to build this multi-signature
                    return same("from_signatures", verdict(&built.ok_or("`sigs` missing")?), text(it, "expected")?);
                }
                if let Some(built) = built {
                    let built = built.map_err(|e| format!("from_signatures failed: {e}"))?;
                    same_bytes("multi-signature of the signatures", &Vec::<u8>::from(&built), &bytes(it, "sig")?)?;
                }
                let ms = MultiSignature::<C>::try_from(bytes(it, "sig")?.as_slice()).map_err(|e| format!("`sig` rejected: {e}"))?;
                same("verify", verdict(&ms.verify(mpk, &msg)), text(it, "expected")?)
            }

            fn threshold(it: &Value) -> R<()> {
                let scheme = scheme_of(it)?;
                let (sk, pk, msg) = (sk_of(it, "sk")?, pk_of(it, "pk")?, bytes(it, "msg")?);
                let shares = many(it, "shares", |b| SecretKeyShare::<C>::try_from(b))?;
                let pk_shares = many(it, "pk_shares", |b| PublicKeyShare::<C>::try_from(b))?;
                let pk_share_bytes = bytes_list(it, "pk_shares")?;
                need!(shares.len() == num(it, "n")? as usize && pk_shares.len() == shares.len(), "share count");
                for (i, s) in shares.iter().enumerate() {
                    let p = s.public_key().map_err(|e| format!("public key of share {i} failed: {e}"))?;
                    same_bytes(&format!("public key of share {i}"), &Vec::<u8>::from(&p), &pk_share_bytes[i])?;
                }
                let subsets = index_lists(it, "subsets")?;
                for sub in &subsets {
                    let back = SecretKey::<C>::combine(&pick(&shares, sub)?).map_err(|e| format!("combine {sub:?} failed: {e}"))?;
                    need!(back == sk, "shares {sub:?} combine to another key");
                    let back = PublicKey::<C>::from_shares(&pick(&pk_shares, sub)?).map_err(|e| format!("public key from shares {sub:?} failed: {e}"))?;
                    need!(back == pk, "public key shares {sub:?} combine to another key");
                }
                let partial: Vec<BlsResult<SignatureShare<C>>> = shares.iter().map(|s| s.sign(scheme, &msg)).collect();
                if text(it, "expected")? == "err" {
                    need!(partial.iter().all(|p| p.is_err()), "partial signing succeeded, the pinned release refused it");
                    return Ok(());
                }
                let sig_share_bytes = bytes_list(it, "sig_shares")?;
                let sig_shares = many(it, "sig_shares", |b| SignatureShare::<C>::try_from(b))?;
                for (i, p) in partial.iter().enumerate() {
                    let p = p.as_ref().map_err(|e| format!("partial signature {i} failed: {e}"))?;
                    same_bytes(&format!("partial signature {i}"), &Vec::<u8>::from(p), &sig_share_bytes[i])?;
                    same(&format!("partial signature {i} verify"), verdict(&sig_shares[i].verify(&pk_shares[i], &msg)), "ok")?;
                }
                let whole = bytes(it, "sig")?;
                for sub in &subsets {
                    let sig = Signature::<C>::from_shares(&pick(&sig_shares, sub)?).map_err(|e| format!("from_shares {sub:?} failed: {e}"))?;
                    same_bytes(&format!("signature from shares {sub:?}"), &Vec::<u8>::from(&sig), &whole)?;
                }
                let sig = sig_of(it, "sig")?;
                same("combined signature verify", verdict(&sig.verify(&pk, &msg)), "ok")?;
                same_bytes("signature by the whole key", &Vec::<u8>::from(&sk.sign(scheme, &msg).map_err(|e| e.to_string())?), &whole)?;
                if let Some(short) = it.get("short") {
                    let sub = index_list(field(short, "subset")?, "subset")?;
                    let got = match Signature::<C>::from_shares(&pick(&sig_shares, &sub)?) {
                        Ok(s) => hex::encode(Vec::<u8>::from(&s)),
                        Err(_) => "err".to_string(),
                    };
                    same(&format!("signature from too few shares {sub:?}"), &got, text(short, "expected")?)?;
                }
                Ok(())
            }

            fn ct_of(it: &Value) -> R<SignCryptCiphertext<C>> {
                SignCryptCiphertext::<C>::try_from(bytes(it, "ct")?.as_slice()).map_err(|e| format!("`ct` rejected: {e}"))
            }

            fn signcrypt(it: &Value) -> R<()> {
                let (ct, sk, want) = (ct_of(it)?, sk_of(it, "sk")?, text(it, "expected")?);
                need!(ct.scheme == scheme_of(it)?, "ciphertext decodes under another scheme");
                let valid = field(it, "valid")?.as_bool().ok_or("`valid` is not a boolean")?;
                need!(bool::from(ct.is_valid()) == valid, "is_valid: got {}, the pinned release gave {valid}", !valid);
                if it.get("case").is_none() {
                    same_bytes("public key of sk", &Vec::<u8>::from(&sk.public_key()), &bytes(it, "pk")?)?;
                }
                same("decrypt", &opt_hex(ct.decrypt(&sk)), want)?;
                let dk = SignCryptDecryptionKey::<C>::try_from(bytes(it, "dk")?.as_slice()).map_err(|e| format!("`dk` rejected: {e}"))?;
                same("decrypt with the decryption key", &opt_hex(dk.decrypt(&ct)), want)?;
                same_bytes("decryption key of sk", &Vec::<u8>::from(&sk.sign_decryption_key::<&[u8]>(&ct)), &bytes(it, "dk")?)
            }

            fn signcrypt_shares(it: &Value) -> R<()> {
                let (ct, want) = (ct_of(it)?, text(it, "expected")?);
                let shares = many(it, "shares", |b| SecretKeyShare::<C>::try_from(b))?;
                let pk_shares = many(it, "pk_shares", |b| PublicKeyShare::<C>::try_from(b))?;
                let ds = many(it, "dec_shares", |b| SignDecryptionShare::<C>::try_from(b))?;
                let ds_bytes = bytes_list(it, "dec_shares")?;
                need!(shares.len() == ds.len() && pk_shares.len() == ds.len(), "share count");
                for (i, s) in shares.iter().enumerate() {
                    let d = ct.create_decryption_share(s).map_err(|e| format!("decryption share {i} failed: {e}"))?;
                    same_bytes(&format!("decryption share {i}"), &Vec::<u8>::from(&d), &ds_bytes[i])?;
                    same(&format!("decryption share {i} verify"), verdict(&ds[i].verify(&pk_shares[i], &ct)), text(it, "share_verify")?)?;
                }
                let pk = pk_of(it, "pk")?;
                for sub in index_lists(it, "subsets")? {
                    let back = PublicKey::<C>::from_shares(&pick(&pk_shares, &sub)?).map_err(|e| format!("public key from shares {sub:?} failed: {e}"))?;
                    need!(back == pk, "public key shares {sub:?} combine to another key");
                    let d = pick(&ds, &sub)?;
                    same(&format!("decrypt with shares {sub:?}"), &opt_hex(ct.decrypt_with_shares(&d)), want)?;
                    let dk = SignCryptDecryptionKey::<C>::from_shares(&d).map_err(|e| format!("decryption key from shares {sub:?} failed: {e}"))?;
                    same_bytes(&format!("decryption key from shares {sub:?}"), &Vec::<u8>::from(&dk), &bytes(it, "dk")?)?;
                    same(&format!("decrypt with the key from shares {sub:?}"), &opt_hex(dk.decrypt(&ct)), want)?;
                }
                if let Some(short) = it.get("short") {
                    let sub = index_list(field(short, "subset")?, "subset")?;
                    same(&format!("decrypt with too few shares {sub:?}"), &opt_hex(ct.decrypt_with_shares(pick(&ds, &sub)?)), text(short, "expected")?)?;
                }
                Ok(())
            }

            fn timelock(it: &Value) -> R<()> {
                let ct = TimeCryptCiphertext::<C>::try_from(bytes(it, "ct")?.as_slice()).map_err(|e| format!("`ct` rejected: {e}"))?;
                let scheme = scheme_of(it)?;
                need!(ct.scheme == scheme, "ciphertext decodes under another scheme");
                let sig = sig_of(it, "opening_sig")?;
                same("decrypt", &opt_hex(ct.decrypt(&sig)), text(it, "expected")?)?;
                let id = bytes(it, "id")?;
                if it.get("sk").is_some() {
                    same_bytes("public key of sk", &Vec::<u8>::from(&sk_of(it, "sk")?.public_key()), &bytes(it, "pk")?)?;
                }
                // the opening key is what the current tree computes, too
                let again = match text(it, "opening")? {
                    "sign" => Some(sk_of(it, "sk")?.sign(scheme, &id).map_err(|e| format!("sign failed: {e}"))?),
                    "core_sign_bare_id" => Some(Signature::<C>::MessageAugmentation(
                        <C as BlsSignatureCore>::core_sign(&sk_of(it, "sk")?.0, &id, <C as BlsSignatureMessageAugmentation>::DST).map_err(|e| format!("core_sign failed: {e}"))?,
                    )),
                    _ => None,
                };
                if let Some(again) = again {
                    same_bytes("opening signature by sk", &Vec::<u8>::from(&again), &bytes(it, "opening_sig")?)?;
                }
                Ok(())
            }

            fn elgamal_want(it: &Value, got: &<C as Pairing>::PublicKey, k: &str) -> R<()> {
                same("decrypt", &hexpt(got), text(it, k)?)?;
                if it.get("message_key").is_some() {
                    let key = sk_of(it, "message_key")?;
                    need!(*got == <C as BlsElGamal>::message_generator() * key.0, "plaintext is not message_generator * key");
                }
                Ok(())
            }

            fn elgamal(it: &Value) -> R<()> {
                let ct = ElGamalCiphertext::<C>::try_from(bytes(it, "ct")?.as_slice()).map_err(|e| format!("`ct` rejected: {e}"))?;
                let sk = sk_of(it, "sk")?;
                same_bytes("public key of sk", &Vec::<u8>::from(&sk.public_key()), &bytes(it, "pk")?)?;
                elgamal_want(it, &ct.decrypt(&sk), "expected")
            }

            fn elgamal_proof(it: &Value) -> R<()> {
                let proof = ElGamalProof::<C>::try_from(bytes(it, "proof")?.as_slice()).map_err(|e| format!("`proof` rejected: {e}"))?;
                same("verify", verdict(&proof.verify(pk_of(it, "pk")?)), text(it, "expected")?)?;
                if it.get("sk").is_some() {
                    let sk = sk_of(it, "sk")?;
                    let d = proof.verify_and_decrypt(&sk).map_err(|e| format!("verify_and_decrypt failed: {e}"))?;
                    elgamal_want(it, &d, "decrypted")?;
                    elgamal_want(it, &proof.ciphertext.decrypt(&sk), "decrypted")?;
                }
                Ok(())
            }

            fn elgamal_shares(it: &Value) -> R<()> {
                let ct = ElGamalCiphertext::<C>::try_from(bytes(it, "ct")?.as_slice()).map_err(|e| format!("`ct` rejected: {e}"))?;
                let shares = many(it, "shares", |b| SecretKeyShare::<C>::try_from(b))?;
                let ds = many(it, "dec_shares", |b| ElGamalDecryptionShare::<C>::try_from(b))?;
                let ds_bytes = bytes_list(it, "dec_shares")?;
                need!(shares.len() == ds.len(), "share count");
                for (i, s) in shares.iter().enumerate() {
                    let d = ElGamalDecryptionShare::<C>(
                        <C as BlsSignatureCore>::public_key_share_with_generator(&s.0, ct.c1).map_err(|e| format!("decryption share {i} failed: {e}"))?,
                    );
                    same_bytes(&format!("decryption share {i}"), &Vec::<u8>::from(&d), &ds_bytes[i])?;
                }
                let pk = pk_of(it, "pk")?;
                for sub in index_lists(it, "subsets")? {
                    let back = SecretKey::<C>::combine(&pick(&shares, &sub)?).map_err(|e| format!("combine {sub:?} failed: {e}"))?;
                    need!(back.public_key() == pk, "shares {sub:?} combine to another key");
                    let dk = ElGamalDecryptionKey::<C>::from_shares(&pick(&ds, &sub)?).map_err(|e| format!("decryption key from shares {sub:?} failed: {e}"))?;
                    same_bytes(&format!("decryption key from shares {sub:?}"), &Vec::<u8>::from(&dk), &bytes(it, "dk")?)?;
                    elgamal_want(it, &dk.decrypt(&ct), "expected")?;
                }
                let dk = ElGamalDecryptionKey::<C>::try_from(bytes(it, "dk")?.as_slice()).map_err(|e| format!("`dk` rejected: {e}"))?;
                elgamal_want(it, &dk.decrypt(&ct), "expected")
            }

            fn pok(it: &Value) -> R<()> {
                let (pk, msg) = (pk_of(it, "pk")?, bytes(it, "msg")?);
                let y = ProofCommitmentChallenge::<C>::try_from(bytes(it, "challenge")?.as_slice()).map_err(|e| format!("`challenge` rejected: {e}"))?;
                let proof = ProofOfKnowledge::<C>::try_from(bytes(it, "proof")?.as_slice()).map_err(|e| format!("`proof` rejected: {e}"))?;
                same("verify", verdict(&proof.verify(pk, &msg, y)), text(it, "expected")?)?;
                if it.get("commitment").is_some() {
                    // the prover's last step is deterministic
                    let c = ProofCommitment::<C>::try_from(bytes(it, "commitment")?.as_slice()).map_err(|e| format!("`commitment` rejected: {e}"))?;
                    let x = ProofCommitmentSecret::<C>::try_from(bytes(it, "secret")?.as_slice()).map_err(|e| format!("`secret` rejected: {e}"))?;
                    let again = c.finalize(x, y, sig_of(it, "sig")?).map_err(|e| format!("finalize failed: {e}"))?;
                    same_bytes("proof from commitment, secret, challenge and signature", &Vec::<u8>::from(&again), &bytes(it, "proof")?)?;
                }
                Ok(())
            }

            fn pok_timestamp(it: &Value) -> R<()> {
                let (pk, msg) = (pk_of(it, "pk")?, bytes(it, "msg")?);
                let proof = ProofOfKnowledgeTimestamp::<C>::try_from(bytes(it, "proof")?.as_slice()).map_err(|e| format!("`proof` rejected: {e}"))?;
                need!(proof.timestamp == num(it, "timestamp")?, "timestamp decodes as {}", proof.timestamp);
                if it.get("sig").is_some() && it.get("case").is_none() {
                    // the signature the proof is about
                    same("signature verify", verdict(&sig_of(it, "sig")?.verify(&pk, &msg)), "ok")?;
                }
                same("verify", verdict(&proof.verify(pk, &msg, None)), text(it, "expected")?)
            }

            pub fn check(it: &Value) -> R<()> {
                match text(it, "kind")? {
                    "encoding" => encoding(it),
                    "signature" => signature(it),
                    "pop" => pop(it),
                    "aggregate" => aggregate(it),
                    "multisig" => multisig(it),
                    "threshold" => threshold(it),
                    "signcrypt" => signcrypt(it),
                    "signcrypt_shares" => signcrypt_shares(it),
                    "timelock" => timelock(it),
                    "elgamal" => elgamal(it),
                    "elgamal_proof" => elgamal_proof(it),
                    "elgamal_shares" => elgamal_shares(it),
                    "pok" => pok(it),
                    "pok_timestamp" => pok_timestamp(it),
                    k => Err(format!("unknown kind {k}")),
                }
            }
        }
    };
}
per_impl_golden!(g1, Bls12381G1Impl);
per_impl_golden!(g2, Bls12381G2Impl);

/// what identifies an item in reports: no bulky fields
fn descriptor(i: usize, it: &Value) -> Value {
    let mut d = serde_json::Map::new();
    d.insert("item".into(), json!(i));
    for k in ["kind", "impl", "scheme", "type", "form", "value", "case", "key", "msg_len", "t", "n", "expected"] {
        if let Some(v) = it.get(k) {
            if !v.is_null() {
                let long = v.as_str().map(|s| s.len() > 96).unwrap_or(false);
                d.insert(k.into(), if long { json!(format!("{}...", &v.as_str().unwrap()[..96])) } else { v.clone() });
            }
        }
    }
    Value::Object(d)
}

pub fn check(path: &str) {
    std::panic::set_hook(Box::new(|_| {}));
    let raw = match std::fs::read_to_string(path) {
        Ok(s) => s,
        Err(e) => {
            eprintln!("golden-check: cannot read {path}: {e}");
            std::process::exit(2);
        }
    };
    let items: Vec<Value> = match serde_json::from_str(&raw) {
        Ok(v) => v,
        Err(e) => {
            eprintln!("golden-check: {path} is not a JSON array: {e}");
            std::process::exit(2);
        }
    };
    let (mut evals, mut nfails) = (0u64, 0u64);
    let mut distinct: HashSet<String> = HashSet::new();
    let mut classes: BTreeMap<String, u64> = BTreeMap::new();
    let mut samples: Vec<Value> = vec![];
    let mut fails: Vec<Value> = vec![];
    for (i, it) in items.iter().enumerate() {
        let kind = it.get("kind").and_then(|k| k.as_str()).unwrap_or("?").to_string();
        if kind == "meta" || kind == "skipped" {
            continue;
        }
        evals += 1;
        *classes.entry(kind.clone()).or_insert(0) += 1;
        let desc = descriptor(i, it);
        if distinct.insert(it.to_string()) && samples.len() < 5 && evals % 293 == 1 {
            samples.push(desc.clone());
        }
        let r = std::panic::catch_unwind(|| match it.get("impl").and_then(|v| v.as_str()) {
            Some("g1") => g1::check(it),
            Some("g2") => g2::check(it),
            _ => Err("item lacks `impl` g1|g2".to_string()),
        });
        let outcome = match r {
            Ok(Ok(())) => continue,
            Ok(Err(why)) => why,
            Err(_) => "panicked".to_string(),
        };
        nfails += 1;
        if fails.len() < 50 {
            let mut d = desc;
            d["outcome"] = json!(outcome);
            fails.push(json!({"property": "C18", "class": format!("golden_{kind}"), "input": d}));
        }
    }
    for f in &fails {
        println!("FAIL {}", f);
    }
    println!(
        "SUMMARY {}",
        json!({"evaluations": evals, "distinct": distinct.len(), "failures": nfails, "classes": classes, "samples": samples})
    );
}
