//! Oracle server: answers the model's queries about dependency primitives.
use crate::refs::*;
use std::collections::HashMap;
use std::io::{BufRead, Write};

fn hx(s: &str) -> Vec<u8> {
    if s == "-" {
        vec![]
    } else {
        hex::decode(s).expect("hex")
    }
}
fn xh(b: &[u8]) -> String {
    if b.is_empty() {
        "-".into()
    } else {
        hex::encode(b)
    }
}
fn sc(s: &str) -> RScalar {
    sc_from_be(&crate::tok::be32(s))
}
fn arr32(v: &[u8]) -> [u8; 32] {
    let mut a = [0u8; 32];
    a.copy_from_slice(v);
    a
}

pub struct OracleState {
    dec_g1: HashMap<Vec<u8>, RScalar>,
    dec_g2: HashMap<Vec<u8>, RScalar>,
    pub queries: u64,
}

impl OracleState {
    pub fn new() -> Self {
        OracleState { dec_g1: HashMap::new(), dec_g2: HashMap::new(), queries: 0 }
    }

    pub fn answer(&mut self, line: &str) -> String {
        self.queries += 1;
        let w: Vec<&str> = line.split_whitespace().collect();
        match w[0] {
            "eta" => hex::encode(sc_be(&eta(&hx(w[1]), &hx(w[2])))),
            "hkdfx" => xh(&hkdf_extract(&hx(w[1]), &hx(w[2]))),
            "hkdfe" => xh(&hkdf_expand(&hx(w[1]), &hx(w[2]), w[3].parse().unwrap())),
            "okm" => hex::encode(sc_be(&reduce_be(&hx(w[1])))),
            "enc" => {
                let a = sc(w[2]);
                match w[1] {
                    "g1" => {
                        let b = enc_g1(&a);
                        self.dec_g1.insert(b.clone(), a);
                        xh(&b)
                    }
                    "g2" => {
                        let b = enc_g2(&a);
                        self.dec_g2.insert(b.clone(), a);
                        xh(&b)
                    }
                    "gt" => xh(&enc_gt(&a)),
                    _ => panic!("enc group"),
                }
            }
            "dec" => {
                let b = hx(w[2]);
                match w[1] {
                    "g1" => {
                        if let Some(a) = self.dec_g1.get(&b) {
                            return hex::encode(sc_be(a));
                        }
                        if b.len() != 48 {
                            return "none".into();
                        }
                        let mut arr = [0u8; 48];
                        arr.copy_from_slice(&b);
                        let p: Option<bls12_381_plus::G1Affine> =
                            bls12_381_plus::G1Affine::from_compressed(&arr).into();
                        match p {
                            None => "none".into(),
                            Some(p) if bool::from(p.is_identity()) => hex::encode([0u8; 32]),
                            Some(_) => "unknown".into(),
                        }
                    }
                    "g2" => {
                        if let Some(a) = self.dec_g2.get(&b) {
                            return hex::encode(sc_be(a));
                        }
                        if b.len() != 96 {
                            return "none".into();
                        }
                        let mut arr = [0u8; 96];
                        arr.copy_from_slice(&b);
                        let p: Option<bls12_381_plus::G2Affine> =
                            bls12_381_plus::G2Affine::from_compressed(&arr).into();
                        match p {
                            None => "none".into(),
                            Some(p) if bool::from(p.is_identity()) => hex::encode([0u8; 32]),
                            Some(_) => "unknown".into(),
                        }
                    }
                    _ => panic!("dec group"),
                }
            }
            "xof" => xh(&xof(&hx(w[1]), w[2].parse().unwrap())),
            "sha" => xh(&sha256(&hx(w[1]))),
            "fs" => {
                let proto = hx(w[1]);
                let k: usize = w[2].parse().unwrap();
                let mut items = vec![];
                for i in 0..k {
                    items.push((hx(w[3 + 2 * i]), hx(w[4 + 2 * i])));
                }
                let chl = hx(w[3 + 2 * k]);
                hex::encode(sc_be(&fs(&proto, &items, &chl)))
            }
            "rngb" => xh(&rng_bytes32(&arr32(&hx(w[1])))),
            "rngs" => {
                let s = crate::bl::rng_scalar(&arr32(&hx(w[1])), w[2].parse().unwrap());
                hex::encode(crate::bl::bsc_be(&s))
            }
            _ => panic!("unknown oracle query {line}"),
        }
    }
}

pub fn serve() {
    let stdin = std::io::stdin();
    let stdout = std::io::stdout();
    let mut out = stdout.lock();
    let mut st = OracleState::new();
    for line in stdin.lock().lines() {
        let line = line.unwrap();
        if line.trim().is_empty() {
            continue;
        }
        let a = st.answer(&line);
        writeln!(out, "{a}").unwrap();
        out.flush().unwrap();
    }
}
