//! Signature-family searches: C02 C04 C05 C06 C07 C09
//!
//! Plain functions at the top are the reference side (pure-Rust backend `bls12_381_plus`):
//! CoreAggregateVerify as a product of pairings and plain group sums of compressed points.
use bls12_381_plus as rr;
use bls12_381_plus::group::Curve as _;
use std::collections::{HashMap, HashSet};

/// Memo of hash-to-curve outputs / decoded keys for the reference aggregate verifier.
pub struct SigsRefCache {
    h1: HashMap<Vec<u8>, rr::G1Affine>,
    h2: HashMap<Vec<u8>, rr::G2Prepared>,
    p1: HashMap<Vec<u8>, Option<rr::G1Affine>>,
    p2: HashMap<Vec<u8>, Option<(rr::G2Affine, rr::G2Prepared)>>,
    neg_g2: rr::G2Prepared,
    neg_g1: rr::G1Affine,
}

impl SigsRefCache {
    pub fn new() -> Self {
        SigsRefCache {
            h1: HashMap::new(),
            h2: HashMap::new(),
            p1: HashMap::new(),
            p2: HashMap::new(),
            neg_g2: rr::G2Prepared::from(-rr::G2Affine::generator()),
            neg_g1: -rr::G1Affine::generator(),
        }
    }
}

fn sigs_hkey(dst: &[u8], msg: &[u8]) -> Vec<u8> {
    let mut k = Vec::with_capacity(1 + dst.len() + msg.len());
    k.push(dst.len() as u8);
    k.extend_from_slice(dst);
    k.extend_from_slice(msg);
    k
}

/// Reference CoreAggregateVerify (draft-irtf-cfrg-bls-signature 2.9 + the per-scheme wrappers):
/// `pairs` = (compressed public key, message); Basic additionally demands pairwise distinct
/// messages (`enforce_distinct`), Aug prefixes the key bytes; identity keys / signature,
/// undecodable points and the empty list are INVALID.
pub fn sigs_ref_core_aggregate_verify(
    sig_in_g1: bool,
    scheme: u8,
    pairs: &[(Vec<u8>, Vec<u8>)],
    sig: &[u8],
    enforce_distinct: bool,
    cache: &mut SigsRefCache,
) -> bool {
    if pairs.is_empty() {
        return false;
    }
    if scheme == 0 && enforce_distinct {
        let mut seen: HashSet<&[u8]> = HashSet::new();
        for (_, m) in pairs {
            if !seen.insert(m.as_slice()) {
                return false;
            }
        }
    }
    let dst = crate::gen::dst(sig_in_g1, scheme);
    let keys: Vec<Vec<u8>> = pairs
        .iter()
        .map(|(pk, m)| {
            if scheme == 1 {
                let mut a = pk.clone();
                a.extend_from_slice(m);
                sigs_hkey(&dst, &a)
            } else {
                sigs_hkey(&dst, m)
            }
        })
        .collect();
    let off = 1 + dst.len();
    if sig_in_g1 {
        let Some(sg) = crate::refs::dec_g1(sig) else { return false };
        if bool::from(sg.is_identity()) {
            return false;
        }
        for (pk, _) in pairs {
            let e = cache
                .p2
                .entry(pk.clone())
                .or_insert_with(|| crate::refs::dec_g2(pk).map(|a| (a, rr::G2Prepared::from(a))));
            match e {
                None => return false,
                Some((a, _)) => {
                    if bool::from(a.is_identity()) {
                        return false;
                    }
                }
            }
        }
        for k in &keys {
            if !cache.h1.contains_key(k) {
                let h = crate::refs::ref_hash_g1(&k[off..], &dst).to_affine();
                cache.h1.insert(k.clone(), h);
            }
        }
        let mut terms: Vec<(&rr::G1Affine, &rr::G2Prepared)> = Vec::with_capacity(pairs.len() + 1);
        for ((pk, _), k) in pairs.iter().zip(&keys) {
            terms.push((&cache.h1[k], &cache.p2[pk].as_ref().unwrap().1));
        }
        terms.push((&sg, &cache.neg_g2));
        rr::multi_miller_loop(&terms).final_exponentiation() == rr::Gt::IDENTITY
    } else {
        let Some(sg) = crate::refs::dec_g2(sig) else { return false };
        if bool::from(sg.is_identity()) {
            return false;
        }
        for (pk, _) in pairs {
            let e = cache.p1.entry(pk.clone()).or_insert_with(|| crate::refs::dec_g1(pk));
            match e {
                None => return false,
                Some(a) => {
                    if bool::from(a.is_identity()) {
                        return false;
                    }
                }
            }
        }
        for k in &keys {
            if !cache.h2.contains_key(k) {
                let h = crate::refs::ref_hash_g2(&k[off..], &dst).to_affine();
                cache.h2.insert(k.clone(), rr::G2Prepared::from(h));
            }
        }
        let sgp = rr::G2Prepared::from(sg);
        let mut terms: Vec<(&rr::G1Affine, &rr::G2Prepared)> = Vec::with_capacity(pairs.len() + 1);
        for ((pk, _), k) in pairs.iter().zip(&keys) {
            terms.push((cache.p1[pk].as_ref().unwrap(), &cache.h2[k]));
        }
        terms.push((&cache.neg_g1, &sgp));
        rr::multi_miller_loop(&terms).final_exponentiation() == rr::Gt::IDENTITY
    }
}

/// Plain group sum of compressed points (G1 if `in_g1`, else G2); None if one does not decode.
pub fn sigs_ref_sum(in_g1: bool, parts: &[Vec<u8>]) -> Option<Vec<u8>> {
    if in_g1 {
        let mut acc = rr::G1Projective::IDENTITY;
        for p in parts {
            acc += rr::G1Projective::from(crate::refs::dec_g1(p)?);
        }
        Some(acc.to_affine().to_compressed().to_vec())
    } else {
        let mut acc = rr::G2Projective::IDENTITY;
        for p in parts {
            acc += rr::G2Projective::from(crate::refs::dec_g2(p)?);
        }
        Some(acc.to_affine().to_compressed().to_vec())
    }
}

macro_rules! search_sigs {
    () => {
        pub type SigsS = <C as Pairing>::Signature;
        pub type SigsP = <C as Pairing>::PublicKey;

        fn sigs_imp() -> &'static str {
            if G1 { "g1" } else { "g2" }
        }
        fn sigs_try<T>(f: impl FnOnce() -> T) -> Result<T, ()> {
            catch(std::panic::AssertUnwindSafe(f))
        }
        fn sigs_sc(x: &RScalar) -> Scalar {
            bsc(&sc_be(x))
        }
        fn sigs_sb(p: &SigsS) -> Vec<u8> {
            p.to_bytes().as_ref().to_vec()
        }
        fn sigs_pb(p: &SigsP) -> Vec<u8> {
            p.to_bytes().as_ref().to_vec()
        }
        fn sigs_mh(m: &[u8]) -> String {
            if m.len() <= 64 { gen::hx(m) } else { format!("sha256:{}", gen::hx(&sha256(m))) }
        }
        fn sigs_mk(scheme: u8, p: SigsS) -> Signature<C> {
            match scheme {
                0 => Signature::Basic(p),
                1 => Signature::MessageAugmentation(p),
                _ => Signature::ProofOfPossession(p),
            }
        }
        fn sigs_mk_agg(scheme: u8, p: SigsS) -> AggregateSignature<C> {
            match scheme {
                0 => AggregateSignature::Basic(p),
                1 => AggregateSignature::MessageAugmentation(p),
                _ => AggregateSignature::ProofOfPossession(p),
            }
        }
        fn sigs_mk_multi(scheme: u8, p: SigsS) -> MultiSignature<C> {
            match scheme {
                0 => MultiSignature::Basic(p),
                1 => MultiSignature::MessageAugmentation(p),
                _ => MultiSignature::ProofOfPossession(p),
            }
        }
        fn sigs_mk_pok(scheme: u8, u: SigsS, v: SigsS) -> ProofOfKnowledge<C> {
            match scheme {
                0 => ProofOfKnowledge::Basic { u, v },
                1 => ProofOfKnowledge::MessageAugmentation { u, v },
                _ => ProofOfKnowledge::ProofOfPossession { u, v },
            }
        }
        fn sigs_with(mut det: serde_json::Value, extra: serde_json::Value) -> serde_json::Value {
            if let (Some(o), Some(e)) = (det.as_object_mut(), extra.as_object()) {
                for (k, v) in e {
                    o.insert(k.clone(), v.clone());
                }
            }
            det
        }
        /// one expectation: `got` = Ok(accepted?) or Err(()) if the library panicked
        fn sigs_decide(s: &mut Search, class: &str, key: String, expect: bool, got: Result<bool, ()>, det: serde_json::Value) {
            match got {
                Err(()) => s.case(&format!("{class}_panicked"), key, false, det),
                Ok(d) => s.case(class, key, d == expect, sigs_with(det, json!({"library_accepts": d, "expected_accept": expect}))),
            }
        }
        fn sigs_vs_ref(s: &mut Search, key: String, got: Result<bool, ()>, refd: bool, det: serde_json::Value) {
            if let Ok(d) = got {
                s.case("decision_matches_reference", key, d == refd, sigs_with(det, json!({"library_accepts": d, "reference_accepts": refd})));
            }
        }
        /// honest signing through the public API; None (and a failing case) if it errs or panics
        fn sigs_sign(s: &mut Search, k: &RScalar, scheme: u8, m: &[u8]) -> Option<SigsS> {
            let sk = sk_of(k);
            match sigs_try(|| sk.sign(scheme_of(scheme), m)) {
                Ok(Ok(sg)) => Some(*sg.as_raw_value()),
                r => {
                    let class = if r.is_err() { "honest_sign_panicked" } else { "honest_sign_succeeds" };
                    s.case(class, format!("{}|{}|{}|{}", G1, gen::hs(k), scheme, gen::hx(&sha256(m))), false,
                        json!({"impl": sigs_imp(), "sk": gen::hs(k), "scheme": gen::SCH[scheme as usize], "msg": sigs_mh(m)}));
                    None
                }
            }
        }
        fn sigs_other_msg(rng: &mut Prng, m: &[u8]) -> Vec<u8> {
            loop {
                let o = rng.bytes(if m.is_empty() { 1 } else { m.len() });
                if o != m {
                    return o;
                }
            }
        }
        fn sigs_shuffle<T>(rng: &mut Prng, v: &mut Vec<T>) {
            for i in (1..v.len()).rev() {
                let j = rng.below(i as u64 + 1) as usize;
                v.swap(i, j);
            }
        }
        fn sigs_positions(rng: &mut Prng, n: usize, all: bool, thorough: bool) -> Vec<usize> {
            if all || n <= 3 {
                return (0..n).collect();
            }
            let mid = 1 + rng.below(n as u64 - 2) as usize;
            if thorough && n > 32 {
                // long lists: one position, anywhere (ends included)
                return vec![rng.below(n as u64) as usize];
            }
            if rng.below(2) == 0 { vec![0, mid] } else { vec![mid, n - 1] }
        }

        // ------------------------------------------------------------------ C09
        pub fn c09(s: &mut Search, rng: &mut Prng, thorough: bool) {
            let mut pool = gen::edge_scalars();
            for _ in 0..(if thorough { 25 } else { 8 }) {
                pool.push(rng.scalar());
            }
            let mut proofs: Vec<Option<SigsS>> = vec![];
            for k in &pool {
                let sk = sk_of(k);
                let det = json!({"impl": sigs_imp(), "sk": gen::hs(k)});
                let key = format!("{}|{}", G1, gen::hs(k));
                let p1 = sigs_try(|| sk.proof_of_possession());
                let p2 = sigs_try(|| sk.proof_of_possession());
                let (Ok(Ok(p1)), Ok(Ok(p2))) = (p1, p2) else {
                    s.case("pop_prove_succeeds", key, false, det);
                    proofs.push(None);
                    continue;
                };
                s.case("pop_prove_succeeds", key.clone(), true, det.clone());
                s.case("pop_deterministic", key.clone(), p1 == p2 && sigs_sb(&p1.0) == sigs_sb(&p2.0), det.clone());
                let pk = sk.public_key();
                sigs_decide(s, "pop_verifies_for_own_key", key.clone(), true, sigs_try(|| p1.verify(pk).is_ok()),
                    sigs_with(det.clone(), json!({"proof": hexpt(&p1.0)})));
                // perturbations of the proof point
                let g = SigsS::generator();
                let kr = sigs_sc(&rng.scalar());
                let perts: Vec<(&str, String, SigsS)> = vec![
                    ("pop_plus_g_rejects", "proof+G".into(), p1.0 + g),
                    ("pop_plus_g_rejects", "proof-G".into(), p1.0 - g),
                    ("pop_plus_g_rejects", format!("proof+k*G k={}", hex::encode(bsc_be(&kr))), p1.0 + g * kr),
                    ("pop_negated_rejects", "-proof".into(), -p1.0),
                    ("pop_doubled_rejects", "2*proof".into(), p1.0.double()),
                    ("pop_scaled_rejects", format!("k*proof k={}", hex::encode(bsc_be(&(kr + Scalar::ONE)))), p1.0 * (kr + Scalar::ONE)),
                    ("pop_identity_rejects", "identity".into(), SigsS::identity()),
                ];
                for (class, what, q) in perts {
                    if q == p1.0 {
                        continue;
                    }
                    let pp = ProofOfPossession::<C>(q);
                    sigs_decide(s, class, format!("{}|{}", key, hexpt(&q)), false, sigs_try(|| pp.verify(pk).is_ok()),
                        sigs_with(det.clone(), json!({"perturbation": what, "proof": hexpt(&q)})));
                }
                // derived keys: -pk, pk+G with the honest proof
                for (what, q) in [("-pk", -pk.0), ("pk+G", pk.0 + SigsP::generator()), ("2*pk", pk.0.double())] {
                    sigs_decide(s, "pop_rejected_for_derived_key", format!("{}|{}", key, hexpt(&q)), false,
                        sigs_try(|| p1.verify(PublicKey::<C>(q)).is_ok()),
                        sigs_with(det.clone(), json!({"perturbation": what, "pk": hexpt(&q), "proof": hexpt(&p1.0)})));
                }
                proofs.push(Some(p1.0));
            }
            // all ordered pairs of distinct keys
            for (i, ki) in pool.iter().enumerate() {
                let Some(pi) = proofs[i] else { continue };
                for (j, kj) in pool.iter().enumerate() {
                    if i == j || ki == kj {
                        continue;
                    }
                    let pkj = sk_of(kj).public_key();
                    let pp = ProofOfPossession::<C>(pi);
                    sigs_decide(s, "pop_rejected_for_other_key", format!("{}|{}|{}", G1, gen::hs(ki), gen::hs(kj)), false,
                        sigs_try(|| pp.verify(pkj).is_ok()),
                        json!({"impl": sigs_imp(), "proof_of_sk": gen::hs(ki), "verified_against_sk": gen::hs(kj), "proof": hexpt(&pi)}));
                }
            }
            // the zero key cannot produce one
            let z = SecretKey::<C>(Scalar::ZERO);
            let r = sigs_try(|| z.proof_of_possession().is_ok());
            sigs_decide(s, "pop_zero_key_refused", format!("{}|zero", G1), false, r, json!({"impl": sigs_imp(), "sk": "00"}));
        }

        // ------------------------------------------------------------------ C07
        fn sigs_c07_verify(s: &mut Search, class: &str, expect: bool, scheme: u8, msp: SigsS, mpk: SigsP, msg: &[u8], det: serde_json::Value) {
            let ms = sigs_mk_multi(scheme, msp);
            let got = sigs_try(|| ms.verify(MultiPublicKey::<C>(mpk), msg).is_ok());
            let (pkb, sgb) = (sigs_pb(&mpk), sigs_sb(&msp));
            // Basic / PoP only here: no augmentation
            let refd = ref_core_verify(G1, &pkb, &sgb, msg, &gen::dst(G1, scheme));
            let det = sigs_with(det, json!({"multi_pk": gen::hx(&pkb), "multi_sig": gen::hx(&sgb), "verify_msg": sigs_mh(msg)}));
            let key = format!("{}|{}|{}|{}|{}", G1, scheme, gen::hx(&pkb), gen::hx(&sgb), gen::hx(&sha256(msg)));
            sigs_decide(s, class, key.clone(), expect, got, det.clone());
            sigs_vs_ref(s, key, got, refd, det);
        }

        pub fn c07(s: &mut Search, rng: &mut Prng, thorough: bool) {
            let ns: Vec<usize> = if thorough { (2..=64).collect() } else { vec![2, 3, 4, 5, 7, 8, 16, 33, 64] };
            for &n in &ns {
                for scheme in [0u8, 2u8] {
                    let mut ks: Vec<RScalar> = (0..n + 1).map(|_| rng.scalar()).collect();
                    if n == 2 && scheme == 0 {
                        ks[0] = RScalar::ONE;
                        ks[1] = -RScalar::from(2u64);
                    }
                    let extra = ks.pop().unwrap();
                    if ks.iter().fold(RScalar::ZERO, |a, b| a + b) == RScalar::ZERO {
                        continue; // accumulated key would be the identity (C04), not an honest C07 tuple
                    }
                    let lens = gen::msg_lengths(false);
                    let m = gen::message(rng, lens[(n + scheme as usize) % lens.len()]);
                    let m2 = sigs_other_msg(rng, &m);
                    let base = json!({"impl": sigs_imp(), "scheme": gen::SCH[scheme as usize], "n": n,
                        "signers": ks.iter().map(gen::hs).collect::<Vec<_>>(), "msg": sigs_mh(&m), "msg_len": m.len()});
                    let bkey = format!("{}|{}|{}|{}", G1, scheme, n, gen::hs(&ks[0]));
                    let mut pts = vec![];
                    for k in &ks {
                        match sigs_sign(s, k, scheme, &m) {
                            Some(p) => pts.push(p),
                            None => break,
                        }
                    }
                    if pts.len() != n {
                        continue;
                    }
                    let sigs: Vec<Signature<C>> = pts.iter().map(|p| sigs_mk(scheme, *p)).collect();
                    let pks: Vec<PublicKey<C>> = ks.iter().map(|k| sk_of(k).public_key()).collect();
                    let ms = match sigs_try(|| MultiSignature::<C>::from_signatures(&sigs)) {
                        Ok(Ok(ms)) => {
                            s.case("multisig_accumulates", bkey.clone(), true, base.clone());
                            ms
                        }
                        Ok(Err(_)) => {
                            s.case("multisig_accumulates", bkey.clone(), false, base.clone());
                            continue;
                        }
                        Err(()) => {
                            s.case("multisig_accumulates_panicked", bkey.clone(), false, base.clone());
                            continue;
                        }
                    };
                    let msp = *ms.as_raw_value();
                    let same_variant = matches!((&ms, scheme), (MultiSignature::Basic(_), 0) | (MultiSignature::ProofOfPossession(_), 2));
                    s.case("multisig_keeps_scheme", bkey.clone(), same_variant, base.clone());
                    // equals the plain group sum (reference backend)
                    let parts: Vec<Vec<u8>> = pts.iter().map(sigs_sb).collect();
                    let sum = crate::search_sigs::sigs_ref_sum(G1, &parts);
                    s.case("multisig_equals_group_sum", bkey.clone(), sum.as_deref() == Some(sigs_sb(&msp).as_slice()),
                        sigs_with(base.clone(), json!({"multi_sig": hexpt(&msp), "reference_sum": sum.as_ref().map(|b| gen::hx(b))})));
                    let mpk = match sigs_try(|| MultiPublicKey::<C>::from_public_keys(&pks)) {
                        Ok(k) => k.0,
                        Err(()) => {
                            s.case("multi_public_key_panicked", bkey.clone(), false, base.clone());
                            continue;
                        }
                    };
                    sigs_c07_verify(s, "multisig_verifies_for_exact_signers", true, scheme, msp, mpk, &m, sigs_with(base.clone(), json!({"perturbation": "none"})));
                    // a permutation of the signer list gives the same key
                    let mut perm = pks.clone();
                    sigs_shuffle(rng, &mut perm);
                    if let Ok(k) = sigs_try(|| MultiPublicKey::<C>::from_public_keys(&perm)) {
                        sigs_c07_verify(s, "multisig_verifies_for_permuted_signers", true, scheme, msp, k.0, &m, sigs_with(base.clone(), json!({"perturbation": "signer list permuted"})));
                    }
                    sigs_c07_verify(s, "multisig_other_message_rejects", false, scheme, msp, mpk, &m2, sigs_with(base.clone(), json!({"perturbation": "other message"})));
                    if !m.is_empty() {
                        let mut m3 = m.clone();
                        let (bi, bt) = (rng.below(m.len() as u64) as usize, rng.below(8) as u8);
                        m3[bi] ^= 1 << bt;
                        sigs_c07_verify(s, "multisig_other_message_rejects", false, scheme, msp, mpk, &m3, sigs_with(base.clone(), json!({"perturbation": "message bit flip", "byte": bi, "bit": bt})));
                    }
                    let epk = sk_of(&extra).public_key();
                    // signer added to the key
                    let mut added = pks.clone();
                    added.push(epk);
                    if let Ok(k) = sigs_try(|| MultiPublicKey::<C>::from_public_keys(&added)) {
                        sigs_c07_verify(s, "multisig_signer_added_rejects", false, scheme, msp, k.0, &m, sigs_with(base.clone(), json!({"perturbation": "key of an extra signer added", "extra_sk": gen::hs(&extra)})));
                    }
                    // a signer counted twice
                    let mut twice = pks.clone();
                    twice.push(pks[0]);
                    if let Ok(k) = sigs_try(|| MultiPublicKey::<C>::from_public_keys(&twice)) {
                        sigs_c07_verify(s, "multisig_signer_added_rejects", false, scheme, msp, k.0, &m, sigs_with(base.clone(), json!({"perturbation": "key of signer 0 added a second time"})));
                    }
                    for pos in sigs_positions(rng, n, thorough && n <= 8, thorough) {
                        // signer missing from the key
                        let mut less = pks.clone();
                        less.remove(pos);
                        if let Ok(k) = sigs_try(|| MultiPublicKey::<C>::from_public_keys(&less)) {
                            sigs_c07_verify(s, "multisig_signer_missing_rejects", false, scheme, msp, k.0, &m, sigs_with(base.clone(), json!({"perturbation": "key of signer omitted", "index": pos})));
                        }
                        // signer replaced in the key
                        let mut repl = pks.clone();
                        repl[pos] = epk;
                        if let Ok(k) = sigs_try(|| MultiPublicKey::<C>::from_public_keys(&repl)) {
                            sigs_c07_verify(s, "multisig_signer_replaced_rejects", false, scheme, msp, k.0, &m, sigs_with(base.clone(), json!({"perturbation": "key of signer replaced", "index": pos, "replacement_sk": gen::hs(&extra)})));
                        }
                        // a part missing from the multi-signature, verified against the full key
                        if n >= 3 {
                            let mut fewer = sigs.clone();
                            fewer.remove(pos);
                            if let Ok(Ok(ms2)) = sigs_try(|| MultiSignature::<C>::from_signatures(&fewer)) {
                                sigs_c07_verify(s, "multisig_part_missing_rejects", false, scheme, *ms2.as_raw_value(), mpk, &m, sigs_with(base.clone(), json!({"perturbation": "signature of signer omitted", "index": pos})));
                            }
                        }
                    }
                }
            }
            // accumulation input: every scheme combination for n = 2, 3 ; fewer than two
            let k = rng.scalar();
            let m = rng.bytes(20);
            let one: Vec<Option<SigsS>> = (0..3u8).map(|sc| sigs_sign(s, &k, sc, &m)).collect();
            if one.iter().all(|p| p.is_some()) {
                for n in 2..=3usize {
                    for combo in 0..3usize.pow(n as u32) {
                        let labels: Vec<u8> = (0..n).map(|i| ((combo / 3usize.pow(i as u32)) % 3) as u8).collect();
                        let list: Vec<Signature<C>> = labels.iter().map(|&l| sigs_mk(l, one[l as usize].unwrap())).collect();
                        let expect = labels.iter().all(|&l| l == labels[0]) && labels[0] != 1;
                        let class = if expect { "multisig_accumulates" } else if labels.iter().all(|&l| l == 1) { "multisig_refuses_aug" } else { "multisig_refuses_mixed_schemes" };
                        let got = sigs_try(|| MultiSignature::<C>::from_signatures(&list).is_ok());
                        sigs_decide(s, class, format!("{}|combo|{:?}", G1, labels), expect, got,
                            json!({"impl": sigs_imp(), "sk": gen::hs(&k), "msg": gen::hx(&m), "schemes": labels.iter().map(|&l| gen::SCH[l as usize]).collect::<Vec<_>>() }));
                    }
                }
                // longer lists with a single foreign / Aug element at each of first, middle, last
                for n in [5usize, 64] {
                    for (host, guest) in [(0u8, 1u8), (0, 2), (2, 0), (2, 1), (1, 0), (1, 2), (1, 1)] {
                        for pos in [0, n / 2, n - 1] {
                            let list: Vec<Signature<C>> = (0..n).map(|i| { let l = if i == pos { guest } else { host }; sigs_mk(l, one[l as usize].unwrap()) }).collect();
                            let class = if host == 1 && guest == 1 { "multisig_refuses_aug" } else { "multisig_refuses_mixed_schemes" };
                            let got = sigs_try(|| MultiSignature::<C>::from_signatures(&list).is_ok());
                            sigs_decide(s, class, format!("{}|long|{}|{}|{}|{}", G1, n, host, guest, pos), false, got,
                                json!({"impl": sigs_imp(), "sk": gen::hs(&k), "msg": gen::hx(&m), "n": n, "scheme_of_list": gen::SCH[host as usize], "scheme_at_index": gen::SCH[guest as usize], "index": pos}));
                        }
                    }
                }
                for sc in 0..3u8 {
                    let empty: Vec<Signature<C>> = vec![];
                    sigs_decide(s, "multisig_refuses_fewer_than_two", format!("{}|empty|{}", G1, sc), false,
                        sigs_try(|| MultiSignature::<C>::from_signatures(&empty).is_ok()), json!({"impl": sigs_imp(), "n": 0}));
                    let single = vec![sigs_mk(sc, one[sc as usize].unwrap())];
                    sigs_decide(s, "multisig_refuses_fewer_than_two", format!("{}|single|{}", G1, sc), false,
                        sigs_try(|| MultiSignature::<C>::from_signatures(&single).is_ok()),
                        json!({"impl": sigs_imp(), "n": 1, "scheme": gen::SCH[sc as usize], "sk": gen::hs(&k), "msg": gen::hx(&m)}));
                }
            }
        }

        // ------------------------------------------------------------------ C02
        /// one (pk, msg, label, sig) tuple: library decision vs expectation and vs the reference
        fn sigs_c02_eval(s: &mut Search, base: &serde_json::Value, class: &str, pert: String, label: u8,
                         pkp: SigsP, pk_dlog: &RScalar, sp: SigsS, msg: &[u8], expect: bool) {
            let sig = sigs_mk(label, sp);
            let pk = PublicKey::<C>(pkp);
            let got = sigs_try(|| sig.verify(&pk, msg).is_ok());
            let (pkb, sgb) = (sigs_pb(&pkp), sigs_sb(&sp));
            let am = gen::amsg(G1, label, pk_dlog, msg);
            let refd = ref_core_verify(G1, &pkb, &sgb, &am, &gen::dst(G1, label));
            let det = sigs_with(base.clone(), json!({"perturbation": pert, "verify_scheme": gen::SCH[label as usize],
                "verify_pk": gen::hx(&pkb), "verify_pk_dlog": gen::hs(pk_dlog), "verify_sig": gen::hx(&sgb),
                "verify_msg": sigs_mh(msg), "verify_msg_len": msg.len()}));
            let key = format!("{}|{}|{}|{}|{}", G1, label, gen::hx(&pkb), gen::hx(&sgb), gen::hx(&sha256(msg)));
            sigs_decide(s, class, key.clone(), expect, got, det.clone());
            sigs_vs_ref(s, key, got, refd, det);
        }

        fn sigs_c02_tuple(s: &mut Search, rng: &mut Prng, thorough: bool, k: &RScalar, k2: &RScalar, scheme: u8, m: &[u8]) {
            let Some(p) = sigs_sign(s, k, scheme, m) else { return };
            let pk = sk_of(k).public_key().0;
            let pk2 = sk_of(k2).public_key().0;
            let base = json!({"impl": sigs_imp(), "sk": gen::hs(k), "scheme": gen::SCH[scheme as usize], "msg": sigs_mh(m), "msg_len": m.len()});
            let gs = SigsS::generator();
            let gp = SigsP::generator();
            let len = m.len();
            let kr = rng.scalar();
            let krl = sigs_sc(&kr);
            sigs_c02_eval(s, &base, "honest_accepts", "none".into(), scheme, pk, k, p, m, true);
            // --- signature replaced
            sigs_c02_eval(s, &base, "sig_plus_kg_rejects", "sig+G".into(), scheme, pk, k, p + gs, m, false);
            sigs_c02_eval(s, &base, "sig_plus_kg_rejects", "sig-G".into(), scheme, pk, k, p - gs, m, false);
            sigs_c02_eval(s, &base, "sig_plus_kg_rejects", format!("sig+k*G k={}", gen::hs(&kr)), scheme, pk, k, p + gs * krl, m, false);
            sigs_c02_eval(s, &base, "sig_negated_rejects", "-sig".into(), scheme, pk, k, -p, m, false);
            sigs_c02_eval(s, &base, "sig_scaled_rejects", "2*sig".into(), scheme, pk, k, p.double(), m, false);
            sigs_c02_eval(s, &base, "sig_scaled_rejects", "0*sig".into(), scheme, pk, k, p * Scalar::ZERO, m, false);
            if kr != RScalar::ONE {
                sigs_c02_eval(s, &base, "sig_scaled_rejects", format!("k*sig k={}", gen::hs(&kr)), scheme, pk, k, p * krl, m, false);
            }
            let om = sigs_other_msg(rng, m);
            if let Some(po) = sigs_sign(s, k, scheme, &om) {
                sigs_c02_eval(s, &base, "sig_of_other_msg_rejects", format!("signature of the same key over {}", sigs_mh(&om)), scheme, pk, k, po, m, false);
            }
            let p2 = if k2 != k { sigs_sign(s, k2, scheme, m) } else { None };
            if let Some(p2) = p2 {
                sigs_c02_eval(s, &base, "sig_of_other_key_rejects", format!("signature by sk {}", gen::hs(k2)), scheme, pk, k, p2, m, false);
                sigs_c02_eval(s, &base, "pk_of_other_key_rejects", format!("public key of sk {}", gen::hs(k2)), scheme, pk2, k2, p, m, false);
            }
            // --- message changed
            if len > 0 {
                let mut flips = vec![(0usize, 0u8), (len - 1, 7u8), (rng.below(len as u64) as usize, rng.below(8) as u8)];
                if thorough {
                    flips.push((rng.below(len as u64) as usize, rng.below(8) as u8));
                    flips.push((len / 2, 3));
                }
                flips.sort();
                flips.dedup();
                for (bi, bt) in flips {
                    let mut mm = m.to_vec();
                    mm[bi] ^= 1 << bt;
                    sigs_c02_eval(s, &base, "msg_bitflip_rejects", format!("bit flip byte {} bit {}", bi, bt), scheme, pk, k, p, &mm, false);
                }
                sigs_c02_eval(s, &base, "msg_truncated_rejects", "last byte dropped".into(), scheme, pk, k, p, &m[..len - 1], false);
                if len > 1 {
                    sigs_c02_eval(s, &base, "msg_truncated_rejects", "first byte dropped".into(), scheme, pk, k, p, &m[1..], false);
                    sigs_c02_eval(s, &base, "msg_empty_vs_nonempty_rejects", "message replaced by the empty message".into(), scheme, pk, k, p, b"", false);
                }
            } else {
                sigs_c02_eval(s, &base, "msg_empty_vs_nonempty_rejects", "empty message replaced by 32 random bytes".into(), scheme, pk, k, p, &rng.bytes(32), false);
            }
            let mut ext = m.to_vec();
            ext.push(0);
            sigs_c02_eval(s, &base, "msg_extended_rejects", "0x00 appended".into(), scheme, pk, k, p, &ext, false);
            let mut ext = vec![0u8];
            ext.extend_from_slice(m);
            sigs_c02_eval(s, &base, "msg_extended_rejects", "0x00 prepended".into(), scheme, pk, k, p, &ext, false);
            let mut ext = m.to_vec();
            let tl = 1 + rng.below(40) as usize;
            let tail = rng.bytes(tl);
            ext.extend_from_slice(&tail);
            sigs_c02_eval(s, &base, "msg_extended_rejects", format!("{} appended", gen::hx(&tail)), scheme, pk, k, p, &ext, false);
            // --- public key replaced
            sigs_c02_eval(s, &base, "pk_plus_g_rejects", "pk+G".into(), scheme, pk + gp, &(k + RScalar::ONE), p, m, false);
            sigs_c02_eval(s, &base, "pk_negated_rejects", "-pk".into(), scheme, -pk, &(-k), p, m, false);
            // --- a key outside the prime-order subgroup (pk + T, T of cofactor order: pairs exactly like pk), as bytes
            if let Some(shifted) = crate::search_codec::codec_torsion_shift(rng, !G1, &sigs_pb(&pk)) {
                let sg = sigs_mk(scheme, p);
                let got = sigs_try(|| match PublicKey::<C>::try_from(shifted.as_slice()) {
                    Ok(other) => sg.verify(&other, m).is_ok(),
                    Err(_) => false,
                });
                let key = format!("{}|{}|{}|torsion|{}", G1, scheme, gen::hx(&shifted), gen::hx(&sha256(m)));
                let det = sigs_with(base.clone(), json!({"perturbation": "public key + cofactor-torsion point, imported from bytes", "verify_pk": gen::hx(&shifted)}));
                sigs_decide(s, "pk_outside_subgroup_rejects", key, false, got, det);
            }
            // --- scheme label replaced
            for l in 0..3u8 {
                if l != scheme {
                    sigs_c02_eval(s, &base, "scheme_relabel_rejects", format!("signature relabelled {}", gen::SCH[l as usize]), l, pk, k, p, m, false);
                }
            }
            // --- algebraically related tuples
            let aug = scheme == 1;
            if let Some(p2) = p2 {
                let ksum = k + k2;
                let (class, expect) = if ksum == RScalar::ZERO { ("related_key_sum_identity_rejects", false) }
                    else if aug { ("related_key_sum_aug_rejects", false) } else { ("related_key_sum_accepts", true) };
                sigs_c02_eval(s, &base, class, format!("pk+pk2, sig+sig2 with sk2 {}", gen::hs(k2)), scheme, pk + pk2, &ksum, p + p2, m, expect);
            }
            let (class, expect) = if aug { ("related_scaled_pair_aug_rejects", false) } else { ("related_scaled_pair_accepts", true) };
            sigs_c02_eval(s, &base, class, format!("t*pk, t*sig t={}", gen::hs(&kr)), scheme, pk * krl, &(k * kr), p * krl, m, expect && kr != RScalar::ZERO);
            let (class, expect) = if aug { ("related_negated_pair_aug_rejects", false) } else { ("related_negated_pair_accepts", true) };
            sigs_c02_eval(s, &base, class, "-pk, -sig".into(), scheme, -pk, &(-k), -p, m, expect);
            // --- same points, other projective representatives
            let q = gs * krl;
            let kinv = krl.invert().unwrap();
            sigs_c02_eval(s, &base, "reprojected_accepts", "sig:=(sig+Q)-Q, pk:=(t*pk)*t^-1".into(), scheme, (pk * krl) * kinv, k, (p + q) - q, m, true);
            sigs_c02_eval(s, &base, "reprojected_accepts", "sig:=(t*sig)*t^-1, pk:=(pk+G)-G".into(), scheme, (pk + gp) - gp, k, (p * krl) * kinv, m, true);
        }

        pub fn c02(s: &mut Search, rng: &mut Prng, thorough: bool) {
            let mut keys = gen::edge_scalars();
            for _ in 0..(if thorough { 17 } else { 2 }) {
                keys.push(rng.scalar());
            }
            let lens = gen::msg_lengths(thorough);
            let per = if thorough { 3 } else { 1 };
            for (ki, k) in keys.iter().enumerate() {
                // partner key: 1 <-> r-1 and 2 <-> r-2 (sums to the identity), otherwise the next one
                let k2 = if ki < 4 { -*k } else { keys[(ki + 1) % keys.len()] };
                for scheme in 0..3u8 {
                    for j in 0..per {
                        let len = lens[(ki * 3 + scheme as usize + j * 5) % lens.len()];
                        let m = gen::message(rng, len);
                        sigs_c02_tuple(s, rng, thorough, k, &k2, scheme, &m);
                        if ki < 4 && j == 0 {
                            // the same edge key also with an ordinary partner
                            let k3 = keys[keys.len() - 1 - ki % 2];
                            let m = gen::message(rng, lens[(ki + 7 * scheme as usize) % lens.len()]);
                            if thorough || scheme as usize == ki % 3 {
                                sigs_c02_tuple(s, rng, thorough, k, &k3, scheme, &m);
                            }
                        }
                    }
                }
            }
        }
        // ------------------------------------------------------------------ C04
        /// every entry of `rows` must be refused: (class, what was substituted, closure result = "succeeded?")
        fn sigs_refused(s: &mut Search, class: &str, key: String, got: Result<bool, ()>, det: serde_json::Value) {
            sigs_decide(s, class, key, false, got, det);
        }

        fn sigs_c04_signature(s: &mut Search, rng: &mut Prng, k: &RScalar, m: &[u8]) {
            let pk = sk_of(k).public_key();
            let (idp, ids) = (SigsP::identity(), SigsS::identity());
            for sc in 0..3u8 {
                let Some(p) = sigs_sign(s, k, sc, m) else { continue };
                let det = json!({"impl": sigs_imp(), "sk": gen::hs(k), "scheme": gen::SCH[sc as usize], "msg": sigs_mh(m)});
                let key = format!("{}|{}|{}|{}", G1, gen::hs(k), sc, gen::hx(&sha256(m)));
                // Signature::verify
                for (what, pkp, sp) in [("identity public key, honest signature", idp, p), ("honest public key, identity signature", pk.0, ids), ("identity public key and identity signature (equation holds trivially)", idp, ids)] {
                    let sg = sigs_mk(sc, sp);
                    sigs_refused(s, "signature_verify_identity_refused", format!("{}|{}", key, what), sigs_try(|| sg.verify(&PublicKey::<C>(pkp), m).is_ok()),
                        sigs_with(det.clone(), json!({"substituted": what})));
                    // MultiSignature::verify with the same raw substitution
                    let ms = sigs_mk_multi(sc, sp);
                    sigs_refused(s, "multisig_verify_identity_refused", format!("{}|{}", key, what), sigs_try(|| ms.verify(MultiPublicKey::<C>(pkp), m).is_ok()),
                        sigs_with(det.clone(), json!({"substituted": what})));
                }
                // accumulated multi-key that is the identity: signers k and -k (and a triple a, b, -(a+b))
                if sc != 1 {
                    let a = rng.scalar();
                    for set in [vec![*k, -*k], vec![*k, a, -(*k + a)]] {
                        let pks: Vec<PublicKey<C>> = set.iter().map(|x| sk_of(x).public_key()).collect();
                        let parts: Vec<Signature<C>> = set.iter().filter_map(|x| sigs_sign(s, x, sc, m)).map(|q| sigs_mk(sc, q)).collect();
                        if parts.len() != set.len() {
                            continue;
                        }
                        let d = sigs_with(det.clone(), json!({"substituted": "signer keys sum to zero: accumulated key and multi-signature are the identity", "signers": set.iter().map(gen::hs).collect::<Vec<_>>()}));
                        let r = sigs_try(|| {
                            let mpk = MultiPublicKey::<C>::from_public_keys(&pks);
                            match MultiSignature::<C>::from_signatures(&parts) {
                                Ok(ms) => ms.verify(mpk, m).is_ok(),
                                Err(_) => false,
                            }
                        });
                        sigs_refused(s, "multisig_accumulated_identity_refused", format!("{}|acc{}", key, set.len()), r, d.clone());
                        // identity accumulated key with an otherwise honest multi-signature of other signers
                        let r = sigs_try(|| sigs_mk_multi(sc, p).verify(MultiPublicKey::<C>::from_public_keys(&pks), m).is_ok());
                        sigs_refused(s, "multisig_accumulated_identity_refused", format!("{}|acc{}honest", key, set.len()), r, d);
                    }
                }
            }
            // ProofOfPossession::verify
            if let Ok(Ok(pop)) = sigs_try(|| sk_of(k).proof_of_possession()) {
                let det = json!({"impl": sigs_imp(), "sk": gen::hs(k)});
                for (what, pkp, sp) in [("identity public key, honest proof", idp, pop.0), ("honest public key, identity proof", pk.0, ids), ("identity public key and identity proof", idp, ids)] {
                    let pp = ProofOfPossession::<C>(sp);
                    sigs_refused(s, "pop_verify_identity_refused", format!("{}|{}|{}", G1, gen::hs(k), what), sigs_try(|| pp.verify(PublicKey::<C>(pkp)).is_ok()),
                        sigs_with(det.clone(), json!({"substituted": what})));
                }
            }
        }

        fn sigs_c04_aggregate(s: &mut Search, rng: &mut Prng, n: usize, sc: u8) {
            let ks: Vec<RScalar> = (0..n).map(|_| rng.scalar()).collect();
            let msgs = sigs_c06_msgs(rng, n);
            let mut pts = vec![];
            for (k, m) in ks.iter().zip(&msgs) {
                match sigs_sign(s, k, sc, m) {
                    Some(p) => pts.push(p),
                    None => return,
                }
            }
            let full = pts.iter().fold(SigsS::identity(), |a, b| a + b);
            let honest: Vec<(PublicKey<C>, Vec<u8>)> = ks.iter().zip(&msgs).map(|(k, m)| (sk_of(k).public_key(), m.clone())).collect();
            let det = json!({"impl": sigs_imp(), "scheme": gen::SCH[sc as usize], "n": n,
                "pairs": ks.iter().zip(&msgs).map(|(k, m)| json!({"sk": gen::hs(k), "msg": sigs_mh(m)})).collect::<Vec<_>>()});
            let key = format!("{}|{}|{}|{}", G1, sc, n, gen::hs(&ks[0]));
            let idk = PublicKey::<C>(SigsP::identity());
            for pos in 0..n {
                let mut data = honest.clone();
                data[pos].0 = idk;
                let rest = full - pts[pos];
                for (what, ag) in [("honest full aggregate", full), ("aggregate of the other signers (equation holds trivially)", rest)] {
                    let a = sigs_mk_agg(sc, ag);
                    sigs_refused(s, "aggregate_verify_identity_key_refused", format!("{}|{}|{}", key, pos, what), sigs_try(|| a.verify(&data).is_ok()),
                        sigs_with(det.clone(), json!({"substituted": "identity public key", "index": pos, "aggregate": hexpt(&ag), "aggregate_is": what})));
                }
                // identity key inserted as an additional pair (honest aggregate stays algebraically valid)
                let mut data = honest.clone();
                data.insert(pos, (idk, rng.bytes(9)));
                let a = sigs_mk_agg(sc, full);
                sigs_refused(s, "aggregate_verify_identity_key_refused", format!("{}|{}|inserted", key, pos), sigs_try(|| a.verify(&data).is_ok()),
                    sigs_with(det.clone(), json!({"substituted": "identity public key inserted as an extra pair (equation holds trivially)", "index": pos, "aggregate": hexpt(&full)})));
            }
            let a = sigs_mk_agg(sc, SigsS::identity());
            sigs_refused(s, "aggregate_verify_identity_signature_refused", format!("{}|idsig", key), sigs_try(|| a.verify(&honest).is_ok()),
                sigs_with(det.clone(), json!({"substituted": "identity aggregate signature, honest pairs"})));
            let allid: Vec<(PublicKey<C>, Vec<u8>)> = msgs.iter().map(|m| (idk, m.clone())).collect();
            sigs_refused(s, "aggregate_verify_identity_signature_refused", format!("{}|allid", key), sigs_try(|| a.verify(&allid).is_ok()),
                sigs_with(det.clone(), json!({"substituted": "identity aggregate signature and identity at every key (equation holds trivially)"})));
            let none: Vec<(PublicKey<C>, Vec<u8>)> = vec![];
            sigs_refused(s, "aggregate_verify_identity_signature_refused", format!("{}|{}|empty", G1, sc), sigs_try(|| a.verify(&none).is_ok()),
                json!({"impl": sigs_imp(), "scheme": gen::SCH[sc as usize], "substituted": "identity aggregate signature, empty pair list (equation holds trivially)"}));
        }

        fn sigs_c04_pok(s: &mut Search, rng: &mut Prng, k: &RScalar, m: &[u8]) {
            let pk = sk_of(k).public_key();
            let skl = sigs_sc(k);
            let (idp, ids) = (SigsP::identity(), SigsS::identity());
            for sc in 0..3u8 {
                let a = sigs_hash(m, sc);
                let sig = a * skl; // what the proof equation is about (for Aug this is not `sign`, see C10)
                let x = sigs_sc(&rng.scalar());
                let y = sigs_sc(&rng.scalar());
                let det = json!({"impl": sigs_imp(), "sk": gen::hs(k), "scheme": gen::SCH[sc as usize], "msg": sigs_mh(m), "x": hex::encode(bsc_be(&x)), "y": hex::encode(bsc_be(&y))});
                let key = format!("{}|{}|{}|{}", G1, gen::hs(k), sc, gen::hx(&sha256(m)));
                let (u, v) = (a * x, -(sig * (x + y)));
                let rows: Vec<(&str, SigsS, SigsS, SigsP, Scalar)> = vec![
                    ("identity commitment, rest honest", ids, v, pk.0, y),
                    ("identity proof, rest honest", u, ids, pk.0, y),
                    ("identity public key, rest honest", u, v, idp, y),
                    ("zero challenge, rest honest", u, v, pk.0, Scalar::ZERO),
                    ("identity commitment with v = -y*sig (equation holds)", ids, -(sig * y), pk.0, y),
                    ("identity proof with u = -y*H(m) (equation holds)", -(a * y), ids, pk.0, y),
                    ("identity public key with identity proof (equation holds)", u, ids, idp, y),
                    ("zero challenge with v = -x*sig (equation holds)", u, -(sig * x), pk.0, Scalar::ZERO),
                    ("everything identity / zero", ids, ids, idp, Scalar::ZERO),
                ];
                for (what, uu, vv, pkp, yy) in rows {
                    let pok = sigs_mk_pok(sc, uu, vv);
                    sigs_refused(s, "proof_of_knowledge_identity_or_zero_refused", format!("{}|{}", key, what),
                        sigs_try(|| pok.verify(PublicKey::<C>(pkp), m, ProofCommitmentChallenge::<C>(yy)).is_ok()),
                        sigs_with(det.clone(), json!({"substituted": what, "u": hexpt(&uu), "v": hexpt(&vv), "pk": hexpt(&pkp)})));
                }
                // timestamp variant (challenge derived from u and t)
                let t = 1_000_000_000_000u64 + rng.below(100000);
                let yt = <C as BlsSignatureProof>::compute_y(u, t);
                let y0 = <C as BlsSignatureProof>::compute_y(ids, t);
                let vt = -(sig * (x + yt));
                let rows: Vec<(&str, SigsS, SigsS, SigsP)> = vec![
                    ("identity commitment, rest honest", ids, vt, pk.0),
                    ("identity commitment with v = -y(identity,t)*sig (equation holds)", ids, -(sig * y0), pk.0),
                    ("identity proof, rest honest", u, ids, pk.0),
                    ("identity public key, rest honest", u, vt, idp),
                    ("identity public key with identity proof (equation holds)", u, ids, idp),
                ];
                for (what, uu, vv, pkp) in rows {
                    for timeout in [None, Some(u64::MAX)] {
                        let pok = ProofOfKnowledgeTimestamp::<C> { proof: sigs_mk_pok(sc, uu, vv), timestamp: t };
                        sigs_refused(s, "proof_of_knowledge_timestamp_identity_refused", format!("{}|{}|{:?}", key, what, timeout),
                            sigs_try(|| pok.verify(PublicKey::<C>(pkp), m, timeout).is_ok()),
                            sigs_with(det.clone(), json!({"substituted": what, "timestamp": t, "timeout_ms": timeout, "u": hexpt(&uu), "v": hexpt(&vv), "pk": hexpt(&pkp)})));
                    }
                }
            }
        }

        fn sigs_c04_shares(s: &mut Search, rng: &mut Prng, k: &RScalar, m: &[u8]) {
            use blsful::vsss_rs::Share as _;
            let idpk = <C as Pairing>::PublicKeyShare::with_identifier_and_value(1u8, &sigs_pb(&SigsP::identity()));
            let okpk = <C as Pairing>::PublicKeyShare::with_identifier_and_value(1u8, &sigs_pb(&sk_of(k).public_key().0));
            let idsg = <C as Pairing>::SignatureShare::with_identifier_and_value(1u8, &sigs_sb(&SigsS::identity()));
            for sc in 0..3u8 {
                let Some(p) = sigs_sign(s, k, sc, m) else { continue };
                let oksg = <C as Pairing>::SignatureShare::with_identifier_and_value(1u8, &sigs_sb(&p));
                let mk = |v: <C as Pairing>::SignatureShare| match sc { 0 => SignatureShare::<C>::Basic(v), 1 => SignatureShare::<C>::MessageAugmentation(v), _ => SignatureShare::<C>::ProofOfPossession(v) };
                let det = json!({"impl": sigs_imp(), "share_value_sk": gen::hs(k), "scheme": gen::SCH[sc as usize], "msg": sigs_mh(m), "identifier": 1});
                let key = format!("{}|{}|{}|{}", G1, gen::hs(k), sc, gen::hx(&sha256(m)));
                for (what, pks, sgs) in [("identity key share payload, honest signature share", idpk, oksg), ("honest key share, identity signature share payload", okpk, idsg), ("identity payloads in both", idpk, idsg)] {
                    let (pks, sgs) = (PublicKeyShare::<C>(pks), mk(sgs));
                    sigs_refused(s, "public_key_share_verify_identity_refused", format!("{}|{}", key, what), sigs_try(|| pks.verify(&sgs, m).is_ok()),
                        sigs_with(det.clone(), json!({"substituted": what, "entry": "PublicKeyShare::verify"})));
                    sigs_refused(s, "public_key_share_verify_identity_refused", format!("{}|{}|sv", key, what), sigs_try(|| sgs.verify(&pks, m).is_ok()),
                        sigs_with(det.clone(), json!({"substituted": what, "entry": "SignatureShare::verify"})));
                }
            }
            // a secret key share whose value is zero cannot sign
            for id in [1u8, 2, 255] {
                let mut raw = [0u8; 33];
                raw[0] = id;
                let sh = SecretKeyShare::<C>(raw);
                for sc in 0..3u8 {
                    sigs_refused(s, "zero_share_sign_refused", format!("{}|{}|{}|{}", G1, id, sc, gen::hx(&sha256(m))), sigs_try(|| sh.sign(scheme_of(sc), m).is_ok()),
                        json!({"impl": sigs_imp(), "share": gen::hx(&raw), "scheme": gen::SCH[sc as usize], "msg": sigs_mh(m)}));
                }
            }
        }

        fn sigs_c04_ciphertexts(s: &mut Search, rng: &mut Prng, k: &RScalar, m: &[u8]) {
            let sk = sk_of(k);
            let pk = sk.public_key();
            let (idp, ids) = (SigsP::identity(), SigsS::identity());
            for sc in 0..3u8 {
                let r = sigs_sc(&rng.scalar());
                let ct = sigs_signcrypt_seal(pk.0, m, sc, r);
                let key = format!("{}|{}|{}|{}", G1, gen::hs(k), sc, gen::hx(&sha256(m)));
                for (what, uu, ww) in [("u := identity", idp, ct.w), ("w := identity", ct.u, ids), ("u and w := identity (pairing equation holds trivially)", idp, ids)] {
                    let mut c2 = ct.clone();
                    c2.u = uu;
                    c2.w = ww;
                    let det = json!({"impl": sigs_imp(), "sk": gen::hs(k), "substituted": what, "ciphertext": sigs_sc_det(&c2), "blinding_r": hex::encode(bsc_be(&r)), "msg": sigs_mh(m)});
                    sigs_refused(s, "signcrypt_identity_is_invalid", format!("{}|{}", key, what), sigs_try(|| bool::from(c2.is_valid())), det.clone());
                    sigs_refused(s, "signcrypt_identity_does_not_decrypt", format!("{}|{}", key, what), sigs_try(|| sigs_opt(c2.decrypt(&sk)).is_some()), det.clone());
                    let dk = SignCryptDecryptionKey::<C>(c2.u * sigs_sc(k));
                    sigs_refused(s, "signcrypt_identity_does_not_decrypt", format!("{}|{}|dk", key, what), sigs_try(|| sigs_opt(dk.decrypt(&c2)).is_some()),
                        sigs_with(det, json!({"via": "SignCryptDecryptionKey"})));
                }
                // time lock
                let id = rng.bytes(12);
                let alpha = sigs_sc(&rng.scalar());
                let tc = sigs_timelock_seal(pk.0, m, &id, sc, alpha);
                let tkey = sigs_hash(&id, sc) * sigs_sc(k);
                let mut cid = tc.clone();
                cid.u = idp;
                for (what, c, kp) in [("ciphertext u := identity, right decryption key", &cid, tkey), ("honest ciphertext, identity signature as key", &tc, ids), ("u := identity and identity key", &cid, ids)] {
                    let sg = sigs_mk(sc, kp);
                    sigs_refused(s, "timelock_identity_does_not_decrypt", format!("{}|{}", key, what), sigs_try(|| sigs_opt(c.decrypt(&sg)).is_some()),
                        json!({"impl": sigs_imp(), "sk": gen::hs(k), "substituted": what, "ciphertext": sigs_tc_det(c), "id": gen::hx(&id), "alpha": hex::encode(bsc_be(&alpha)), "key_point": hexpt(&kp), "msg": sigs_mh(m)}));
                }
                // encryption to the identity public key
                let idk = PublicKey::<C>(idp);
                sigs_refused(s, "encrypt_to_identity_key_refused", format!("{}|tl|{}|{}", G1, sc, gen::hx(&sha256(m))), sigs_try(|| idk.encrypt_time_lock(scheme_of(sc), m, &id).is_ok()),
                    json!({"impl": sigs_imp(), "entry": "PublicKey::encrypt_time_lock", "scheme": gen::SCH[sc as usize], "msg": sigs_mh(m), "id": gen::hx(&id)}));
            }
            let idk = PublicKey::<C>(idp);
            sigs_refused(s, "encrypt_to_identity_key_refused", format!("{}|eg|{}", G1, gen::hs(k)), sigs_try(|| idk.encrypt_key_el_gamal(&sk).is_ok()),
                json!({"impl": sigs_imp(), "entry": "PublicKey::encrypt_key_el_gamal", "encrypted_sk": gen::hs(k)}));
            sigs_refused(s, "encrypt_to_identity_key_refused", format!("{}|egp|{}", G1, gen::hs(k)), sigs_try(|| idk.encrypt_key_el_gamal_with_proof(&sk).is_ok()),
                json!({"impl": sigs_imp(), "entry": "PublicKey::encrypt_key_el_gamal_with_proof", "encrypted_sk": gen::hs(k)}));
        }

        fn sigs_elgamal_challenge(pkp: &SigsP, h: &SigsP, c1: &SigsP, c2: &SigsP, r1: &SigsP, r2: &SigsP) -> Scalar {
            let items: Vec<(Vec<u8>, Vec<u8>)> = vec![
                (b"dst".to_vec(), SIGS_ELGAMAL_SALT.to_vec()),
                (b"base point".to_vec(), sigs_pb(&SigsP::generator())),
                (b"pk".to_vec(), sigs_pb(pkp)),
                (b"generator".to_vec(), sigs_pb(h)),
                (b"c1".to_vec(), sigs_pb(c1)),
                (b"c2".to_vec(), sigs_pb(c2)),
                (b"r1".to_vec(), sigs_pb(r1)),
                (b"r2".to_vec(), sigs_pb(r2)),
            ];
            sigs_sc(&fs(b"ElGamalProof", &items, b"challenge"))
        }

        fn sigs_c04_elgamal(s: &mut Search, rng: &mut Prng, k: &RScalar) {
            use rand_core::SeedableRng;
            let sk = sk_of(k);
            let pk = sk.public_key();
            let idp = SigsP::identity();
            let msg_key = rng.scalar(); // the scalar being encrypted
            let b = sigs_sc(&rng.scalar());
            let mut seed = [0u8; 32];
            seed.copy_from_slice(&rng.bytes(32));
            let det = json!({"impl": sigs_imp(), "recipient_sk": gen::hs(k), "encrypted_scalar": gen::hs(&msg_key), "blinder": hex::encode(bsc_be(&b)), "chacha20_seed": gen::hx(&seed)});
            let key = format!("{}|{}|{}", G1, gen::hs(k), gen::hs(&msg_key));
            let honest = sigs_try(|| <C as BlsElGamal>::seal_scalar_with_proof(pk.0, sigs_sc(&msg_key), None, Some(b), rand_chacha::ChaCha20Rng::from_seed(seed)));
            let mk = |c1: SigsP, c2: SigsP, mp: Scalar, bp: Scalar, ch: Scalar| ElGamalProof::<C> { ciphertext: ElGamalCiphertext::<C> { c1, c2 }, message_proof: mp, blinder_proof: bp, challenge: ch };
            let mut rows: Vec<(String, ElGamalProof<C>, SigsP)> = vec![];
            if let Ok(Ok((c1, c2, mp, bp, ch))) = honest {
                let hp = mk(c1, c2, mp, bp, ch);
                rows.push(("identity public key, honest proof".into(), hp, idp));
                rows.push(("c1 := identity".into(), mk(idp, c2, mp, bp, ch), pk.0));
                rows.push(("c2 := identity".into(), mk(c1, idp, mp, bp, ch), pk.0));
                rows.push(("c1 and c2 := identity".into(), mk(idp, idp, mp, bp, ch), pk.0));
                rows.push(("challenge := 0".into(), mk(c1, c2, mp, bp, Scalar::ZERO), pk.0));
                rows.push(("message_proof := 0".into(), mk(c1, c2, Scalar::ZERO, bp, ch), pk.0));
                rows.push(("blinder_proof := 0".into(), mk(c1, c2, mp, Scalar::ZERO, ch), pk.0));
            }
            // forged proofs on which the challenge equation holds and only the guards stand in the way
            let h = <C as BlsElGamal>::message_generator();
            let g = SigsP::generator();
            let (ml, rl) = (sigs_sc(&msg_key), sigs_sc(&rng.scalar()));
            {
                // blinder 0: c1 = identity, c2 = m*H ; r1 = r*G, r2 = r*pk
                let (c1, c2, r1, r2) = (idp, h * ml, g * rl, pk.0 * rl);
                let ch = sigs_elgamal_challenge(&pk.0, &h, &c1, &c2, &r1, &r2);
                rows.push(("forged with blinder 0: c1 = identity, challenge equation holds".into(), mk(c1, c2, ch * ml, rl, ch), pk.0));
            }
            {
                // identity recipient key: c1 = b*G, c2 = m*H ; r1 = r*G, r2 = b*H
                let (c1, c2, r1, r2) = (g * b, h * ml, g * rl, h * b);
                let ch = sigs_elgamal_challenge(&idp, &h, &c1, &c2, &r1, &r2);
                rows.push(("forged for the identity public key, challenge equation holds".into(), mk(c1, c2, b + ch * ml, rl + ch * b, ch), idp));
            }
            {
                // zero message and zero blinder: both ciphertext points are the identity
                let (c1, c2, r1, r2) = (idp, idp, g * rl, pk.0 * rl);
                let ch = sigs_elgamal_challenge(&pk.0, &h, &c1, &c2, &r1, &r2);
                rows.push(("forged with message 0 and blinder 0: c1 = c2 = identity, message_proof = 0, challenge equation holds".into(), mk(c1, c2, Scalar::ZERO, rl, ch), pk.0));
            }
            for (what, proof, pkp) in rows {
                let d = sigs_with(det.clone(), json!({"substituted": what, "c1": hexpt(&proof.ciphertext.c1), "c2": hexpt(&proof.ciphertext.c2),
                    "message_proof": hex::encode(bsc_be(&proof.message_proof)), "blinder_proof": hex::encode(bsc_be(&proof.blinder_proof)), "challenge": hex::encode(bsc_be(&proof.challenge)), "verify_pk": hexpt(&pkp)}));
                sigs_refused(s, "elgamal_proof_verify_identity_or_zero_refused", format!("{}|{}", key, what), sigs_try(|| proof.verify(PublicKey::<C>(pkp)).is_ok()), d.clone());
                if pkp != idp {
                    sigs_refused(s, "elgamal_verify_and_decrypt_identity_or_zero_refused", format!("{}|{}", key, what), sigs_try(|| proof.verify_and_decrypt(&sk).is_ok()), d);
                } else {
                    // identity key <=> zero secret key
                    sigs_refused(s, "elgamal_verify_and_decrypt_identity_or_zero_refused", format!("{}|{}|zero sk", key, what), sigs_try(|| proof.verify_and_decrypt(&SecretKey::<C>(Scalar::ZERO)).is_ok()),
                        sigs_with(d, json!({"decrypt_with_sk": "00"})));
                }
            }
        }

        fn sigs_c04_zero_key(s: &mut Search, rng: &mut Prng, thorough: bool) {
            let z32 = [0u8; 32];
            let imp = sigs_imp();
            sigs_refused(s, "zero_key_import_refused", format!("{}|try_from", G1), sigs_try(|| SecretKey::<C>::try_from(&z32[..]).is_ok()), json!({"impl": imp, "entry": "SecretKey::try_from(&[u8])", "bytes": gen::hx(&z32)}));
            sigs_refused(s, "zero_key_import_refused", format!("{}|try_from_vec", G1), sigs_try(|| SecretKey::<C>::try_from(z32.to_vec()).is_ok()), json!({"impl": imp, "entry": "SecretKey::try_from(Vec<u8>)", "bytes": gen::hx(&z32)}));
            sigs_refused(s, "zero_key_import_refused", format!("{}|be", G1), sigs_try(|| bool::from(SecretKey::<C>::from_be_bytes(&z32).is_some())), json!({"impl": imp, "entry": "SecretKey::from_be_bytes", "bytes": gen::hx(&z32)}));
            sigs_refused(s, "zero_key_import_refused", format!("{}|le", G1), sigs_try(|| bool::from(SecretKey::<C>::from_le_bytes(&z32).is_some())), json!({"impl": imp, "entry": "SecretKey::from_le_bytes", "bytes": gen::hx(&z32)}));
            // the modulus r is another spelling of zero
            let r_be = sc_be(&(-RScalar::ONE));
            let mut r_be = r_be;
            r_be[31] += 1; // r-1 ends in ...00000000, no carry
            let mut r_le = r_be;
            r_le.reverse();
            sigs_refused(s, "zero_key_import_refused", format!("{}|try_from_r", G1), sigs_try(|| SecretKey::<C>::try_from(&r_be[..]).is_ok()), json!({"impl": imp, "entry": "SecretKey::try_from(&[u8])", "bytes": gen::hx(&r_be), "note": "group order r, congruent to zero"}));
            sigs_refused(s, "zero_key_import_refused", format!("{}|be_r", G1), sigs_try(|| bool::from(SecretKey::<C>::from_be_bytes(&r_be).is_some())), json!({"impl": imp, "entry": "SecretKey::from_be_bytes", "bytes": gen::hx(&r_be), "note": "group order r"}));
            sigs_refused(s, "zero_key_import_refused", format!("{}|le_r", G1), sigs_try(|| bool::from(SecretKey::<C>::from_le_bytes(&r_le).is_some())), json!({"impl": imp, "entry": "SecretKey::from_le_bytes", "bytes": gen::hx(&r_le), "note": "group order r"}));
            // the enum wrapper, type byte as the parser expects it
            let tag = if G1 { 1u8 } else { 2u8 };
            let mut tz = vec![tag];
            tz.extend_from_slice(&z32);
            sigs_refused(s, "zero_key_import_refused", format!("{}|enum_be", G1), sigs_try(|| bool::from(SecretKeyEnum::from_be_bytes(&tz).is_some())), json!({"impl": imp, "entry": "SecretKeyEnum::from_be_bytes", "bytes": gen::hx(&tz)}));
            sigs_refused(s, "zero_key_import_refused", format!("{}|enum_le", G1), sigs_try(|| bool::from(SecretKeyEnum::from_le_bytes(&tz).is_some())), json!({"impl": imp, "entry": "SecretKeyEnum::from_le_bytes", "bytes": gen::hx(&tz)}));
            // use of the zero key
            let z = SecretKey::<C>(Scalar::ZERO);
            let mut lens = vec![0usize, 1, 32, 100];
            if thorough {
                lens.extend_from_slice(&[33, 64, 255, 4096]);
            }
            for len in lens {
                let m = gen::message(rng, len);
                for sc in 0..3u8 {
                    sigs_refused(s, "zero_key_sign_refused", format!("{}|{}|{}", G1, sc, gen::hx(&sha256(&m))), sigs_try(|| z.sign(scheme_of(sc), &m).is_ok()),
                        json!({"impl": imp, "sk": "00", "scheme": gen::SCH[sc as usize], "msg": sigs_mh(&m)}));
                }
            }
            sigs_refused(s, "zero_key_pop_refused", format!("{}|pop", G1), sigs_try(|| z.proof_of_possession().is_ok()), json!({"impl": imp, "sk": "00"}));
        }

        pub fn c04(s: &mut Search, rng: &mut Prng, thorough: bool) {
            let mut keys = vec![RScalar::ONE, -RScalar::ONE, gen::edge_scalars()[6]];
            for _ in 0..(if thorough { 10 } else { 1 }) {
                keys.push(rng.scalar());
            }
            let lens: Vec<usize> = if thorough { vec![0, 1, 32, 33, 64, 100, 127] } else { vec![0, 32, 100] };
            for (ki, k) in keys.iter().enumerate() {
                for (li, &len) in lens.iter().enumerate() {
                    if !thorough && (ki + li) % 2 == 1 {
                        continue;
                    }
                    let m = gen::message(rng, len);
                    sigs_c04_signature(s, rng, k, &m);
                    sigs_c04_pok(s, rng, k, &m);
                    sigs_c04_shares(s, rng, k, &m);
                    sigs_c04_ciphertexts(s, rng, k, &m);
                }
                for _ in 0..(if thorough { 3 } else { 1 }) {
                    sigs_c04_elgamal(s, rng, k);
                }
            }
            let ns: Vec<usize> = if thorough { vec![2, 3, 4, 5, 8, 16, 33, 64] } else { vec![2, 3, 5, 16] };
            for &n in &ns {
                for sc in 0..3u8 {
                    sigs_c04_aggregate(s, rng, n, sc);
                }
            }
            sigs_c04_zero_key(s, rng, thorough);
        }
        // ------------------------------------------------------------------ shared constructions (deterministic)
        const SIGS_TIMELOCK_SALT: &[u8] = b"TIMELOCK_BLS12381_XOF:HKDF-SHA2-256_";
        const SIGS_ELGAMAL_SALT: &[u8] = b"ELGAMAL_BLS12381_XOF:HKDF-SHA2-256_";

        fn sigs_hash(m: &[u8], scheme: u8) -> SigsS {
            <C as HashToPoint>::hash_to_point(m, gen::dst(G1, scheme))
        }
        /// length-prefixed (single varint byte, so < 128 bytes), zero padded to 32
        fn sigs_padded(msg: &[u8]) -> Vec<u8> {
            assert!(msg.len() < 128);
            let mut ob = vec![msg.len() as u8];
            ob.extend_from_slice(msg);
            while ob.len() < 32 {
                ob.push(0);
            }
            ob
        }
        /// signcryption `seal` with the blinding scalar supplied (the library draws it from the OS)
        fn sigs_signcrypt_seal(pkp: SigsP, msg: &[u8], scheme: u8, r: Scalar) -> SignCryptCiphertext<C> {
            let u = SigsP::generator() * r;
            let v = <C as BlsSignCrypt>::compute_v(pkp * r, &sigs_padded(msg));
            let w = <C as BlsSignCrypt>::compute_w(u, &v, &gen::dst(G1, scheme)) * r;
            SignCryptCiphertext::<C> { u, v, w, scheme: scheme_of(scheme) }
        }
        /// time-lock `seal` with alpha supplied
        fn sigs_timelock_seal(pkp: SigsP, msg: &[u8], id: &[u8], scheme: u8, alpha: Scalar) -> TimeCryptCiphertext<C> {
            let arepr = alpha.to_repr();
            let mut r_input = arepr.as_ref().to_vec();
            r_input.extend_from_slice(&sha256(msg));
            let r = <C as HashToScalar>::hash_to_scalar(&r_input, SIGS_TIMELOCK_SALT);
            let k = <C as Pairing>::pairing(&[(sigs_hash(id, scheme), pkp * r)]);
            let u = SigsP::generator() * r;
            let v = <C as BlsTimeCrypt>::compute_v(k, arepr.as_ref());
            let w = <C as BlsTimeCrypt>::compute_w(arepr.as_ref(), &sigs_padded(msg));
            TimeCryptCiphertext::<C> { u, v, w, scheme: scheme_of(scheme) }
        }
        fn sigs_sc_det(ct: &SignCryptCiphertext<C>) -> serde_json::Value {
            json!({"u": hexpt(&ct.u), "v": gen::hx(&ct.v), "w": hexpt(&ct.w), "scheme": scheme_name(ct.scheme)})
        }
        fn sigs_tc_det(ct: &TimeCryptCiphertext<C>) -> serde_json::Value {
            json!({"u": hexpt(&ct.u), "v": gen::hx(&ct.v), "w": gen::hx(&ct.w), "scheme": scheme_name(ct.scheme)})
        }
        fn sigs_opt(o: subtle::CtOption<Vec<u8>>) -> Option<Vec<u8>> {
            o.into()
        }

        // ------------------------------------------------------------------ C05
        pub fn c05(s: &mut Search, rng: &mut Prng, thorough: bool) {
            let mut keys = vec![RScalar::ONE, -RScalar::ONE, gen::edge_scalars()[6]];
            for _ in 0..(if thorough { 12 } else { 2 }) {
                keys.push(rng.scalar());
            }
            let lens: Vec<usize> = if thorough { vec![0, 1, 32, 48, 96, 100, 127] } else { vec![0, 32, 100] };
            for (ki, k) in keys.iter().enumerate() {
                let sk = sk_of(k);
                let pk = sk.public_key();
                let pkb = sigs_pb(&pk.0);
                // --- signature over the public-key bytes vs proof of possession
                let kd = json!({"impl": sigs_imp(), "sk": gen::hs(k)});
                for sc in 0..3u8 {
                    if let Some(p) = sigs_sign(s, k, sc, &pkb) {
                        let pp = ProofOfPossession::<C>(p);
                        sigs_decide(s, "signature_over_pk_is_not_a_pop", format!("{}|{}|{}", G1, gen::hs(k), sc), false, sigs_try(|| pp.verify(pk).is_ok()),
                            sigs_with(kd.clone(), json!({"signature_scheme": gen::SCH[sc as usize], "signed": "compressed public key bytes", "point": hexpt(&p)})));
                    }
                }
                if let Ok(Ok(pop)) = sigs_try(|| sk.proof_of_possession()) {
                    for sc in 0..3u8 {
                        let sg = sigs_mk(sc, pop.0);
                        sigs_decide(s, "pop_is_not_a_signature_over_pk", format!("{}|{}|{}", G1, gen::hs(k), sc), false, sigs_try(|| sg.verify(&pk, &pkb).is_ok()),
                            sigs_with(kd.clone(), json!({"presented_as": gen::SCH[sc as usize], "msg": "compressed public key bytes", "point": hexpt(&pop.0)})));
                    }
                }
                for (li, &len) in lens.iter().enumerate() {
                    if !thorough && ki >= 3 && (li + ki) % 2 == 0 {
                        continue;
                    }
                    let m = gen::message(rng, len);
                    let md = sigs_with(kd.clone(), json!({"msg": sigs_mh(&m), "msg_len": len}));
                    for a in 0..3u8 {
                        let Some(p) = sigs_sign(s, k, a, &m) else { continue };
                        let bkey = format!("{}|{}|{}|{}", G1, gen::hs(k), a, gen::hx(&sha256(&m)));
                        // deterministic prover state
                        let x = sigs_sc(&rng.scalar());
                        let y = sigs_sc(&rng.scalar());
                        let alpha = sigs_sc(&rng.scalar());
                        let rr_ = sigs_sc(&rng.scalar());
                        // proof of knowledge (three-step) made with the library's finalize
                        let com = match a { 0 => ProofCommitment::<C>::Basic(sigs_hash(&m, a) * x), 1 => ProofCommitment::<C>::MessageAugmentation(sigs_hash(&m, a) * x), _ => ProofCommitment::<C>::ProofOfPossession(sigs_hash(&m, a) * x) };
                        let pok = sigs_try(|| com.finalize(ProofCommitmentSecret::<C>(x), ProofCommitmentChallenge::<C>(y), sigs_mk(a, p)));
                        // timestamp proof of knowledge with fixed x and t
                        let t = 1_000_000_000_000u64 + rng.below(1000);
                        let u_t = sigs_hash(&m, a) * x;
                        let y_t = <C as BlsSignatureProof>::compute_y(u_t, t);
                        let v_t = -(p * (x + y_t));
                        let sc_ct = sigs_signcrypt_seal(pk.0, &m, a, rr_);
                        let id = rng.bytes(16);
                        let tl_ct = sigs_timelock_seal(pk.0, &m, &id, a, alpha);
                        let tl_key = sigs_hash(&id, a) * sigs_sc(k); // the decryption key the ciphertext is bound to
                        // honest behaviour, recorded in the detail only
                        let pok_honest = match &pok { Ok(Ok(pk_)) => sigs_try(|| pk_.verify(pk, &m, ProofCommitmentChallenge::<C>(y)).is_ok()).ok(), _ => None };
                        let sc_honest = sigs_try(|| bool::from(sc_ct.is_valid()) && sigs_opt(sc_ct.decrypt(&sk)).as_deref() == Some(m.as_slice())).ok();
                        let tl_honest = sigs_try(|| sigs_opt(tl_ct.decrypt(&sigs_mk(a, tl_key))).as_deref() == Some(m.as_slice())).ok();
                        for b in 0..3u8 {
                            if a == b {
                                continue;
                            }
                            let pd = sigs_with(md.clone(), json!({"made_under": gen::SCH[a as usize], "presented_under": gen::SCH[b as usize]}));
                            let key = format!("{}|{}", bkey, b);
                            // signature relabelled
                            let sg = sigs_mk(b, p);
                            sigs_decide(s, "signature_relabelled_rejects", key.clone(), false, sigs_try(|| sg.verify(&pk, &m).is_ok()),
                                sigs_with(pd.clone(), json!({"sig": hexpt(&p)})));
                            // proof of knowledge relabelled
                            if let Ok(Ok(pok)) = &pok {
                                let (u, v) = match pok {
                                    ProofOfKnowledge::Basic { u, v } | ProofOfKnowledge::MessageAugmentation { u, v } | ProofOfKnowledge::ProofOfPossession { u, v } => (*u, *v),
                                };
                                let rel = sigs_mk_pok(b, u, v);
                                sigs_decide(s, "proof_of_knowledge_relabelled_rejects", key.clone(), false,
                                    sigs_try(|| rel.verify(pk, &m, ProofCommitmentChallenge::<C>(y)).is_ok()),
                                    sigs_with(pd.clone(), json!({"x": hex::encode(bsc_be(&x)), "y": hex::encode(bsc_be(&y)), "u": hexpt(&u), "v": hexpt(&v), "honest_verifies": pok_honest})));
                            }
                            let relt = ProofOfKnowledgeTimestamp::<C> { proof: sigs_mk_pok(b, u_t, v_t), timestamp: t };
                            sigs_decide(s, "proof_of_knowledge_timestamp_relabelled_rejects", key.clone(), false,
                                sigs_try(|| relt.verify(pk, &m, None).is_ok()),
                                sigs_with(pd.clone(), json!({"x": hex::encode(bsc_be(&x)), "timestamp": t, "u": hexpt(&u_t), "v": hexpt(&v_t)})));
                            // signcryption ciphertext relabelled
                            let mut rct = sc_ct.clone();
                            rct.scheme = scheme_of(b);
                            let d = sigs_with(pd.clone(), json!({"ciphertext": sigs_sc_det(&rct), "blinding_r": hex::encode(bsc_be(&rr_)), "honest_decrypts": sc_honest}));
                            sigs_decide(s, "signcrypt_relabelled_is_invalid", key.clone(), false, sigs_try(|| bool::from(rct.is_valid())), d.clone());
                            sigs_decide(s, "signcrypt_relabelled_does_not_decrypt", key.clone(), false, sigs_try(|| sigs_opt(rct.decrypt(&sk)).is_some()), d.clone());
                            let dk = SignCryptDecryptionKey::<C>(rct.u * sigs_sc(k));
                            sigs_decide(s, "signcrypt_relabelled_does_not_decrypt", format!("{}|dk", key), false, sigs_try(|| sigs_opt(dk.decrypt(&rct)).is_some()),
                                sigs_with(d, json!({"via": "SignCryptDecryptionKey"})));
                            // time-lock ciphertext relabelled: with the key it was bound to (still labelled a), and with
                            // honest signatures / decryption keys of the new scheme over the identifier
                            let mut tct = tl_ct.clone();
                            tct.scheme = scheme_of(b);
                            let d = sigs_with(pd.clone(), json!({"ciphertext": sigs_tc_det(&tct), "id": gen::hx(&id), "alpha": hex::encode(bsc_be(&alpha)), "honest_decrypts": tl_honest}));
                            let mut opens: Vec<(&str, Signature<C>)> = vec![
                                ("decryption key of the original scheme, original label", sigs_mk(a, tl_key)),
                                ("decryption key H(id, tag of new scheme)*sk, new label", sigs_mk(b, sigs_hash(&id, b) * sigs_sc(k))),
                            ];
                            if let Some(q) = sigs_sign(s, k, b, &id) {
                                opens.push(("honest signature over id under the new scheme", sigs_mk(b, q)));
                            }
                            if let Some(q) = sigs_sign(s, k, a, &id) {
                                opens.push(("honest signature over id under the original scheme", sigs_mk(a, q)));
                            }
                            for (oi, (what, sg)) in opens.iter().enumerate() {
                                sigs_decide(s, "timelock_relabelled_does_not_decrypt", format!("{}|{}", key, oi), false,
                                    sigs_try(|| sigs_opt(tct.decrypt(sg)).is_some()),
                                    sigs_with(d.clone(), json!({"opened_with": what, "key_point": hexpt(sg.as_raw_value())})));
                            }
                            // the untouched ciphertext with keys of the other scheme
                            let d = sigs_with(pd.clone(), json!({"ciphertext": sigs_tc_det(&tl_ct), "id": gen::hx(&id), "alpha": hex::encode(bsc_be(&alpha)), "honest_decrypts": tl_honest}));
                            let mut opens: Vec<(&str, Signature<C>)> = vec![
                                ("right key point, labelled with the other scheme", sigs_mk(b, tl_key)),
                                ("decryption key H(id, tag of other scheme)*sk labelled with the ciphertext's scheme", sigs_mk(a, sigs_hash(&id, b) * sigs_sc(k))),
                            ];
                            if let Some(q) = sigs_sign(s, k, b, &id) {
                                opens.push(("honest signature over id under the other scheme", sigs_mk(b, q)));
                            }
                            for (oi, (what, sg)) in opens.iter().enumerate() {
                                sigs_decide(s, "timelock_key_of_other_scheme_does_not_decrypt", format!("{}|{}", key, oi), false,
                                    sigs_try(|| sigs_opt(tl_ct.decrypt(sg)).is_some()),
                                    sigs_with(d.clone(), json!({"opened_with": what, "key_point": hexpt(sg.as_raw_value())})));
                            }
                        }
                    }
                }
            }
            // --- the finite set of tag constants
            let mine: Vec<(&str, &[u8], Option<Vec<u8>>)> = vec![
                ("BlsSignatureBasic::DST", <C as BlsSignatureBasic>::DST, Some(gen::dst(G1, 0))),
                ("BlsSignatureMessageAugmentation::DST", <C as BlsSignatureMessageAugmentation>::DST, Some(gen::dst(G1, 1))),
                ("BlsSignaturePop::SIG_DST", <C as BlsSignaturePop>::SIG_DST, Some(gen::dst(G1, 2))),
                ("BlsSignaturePop::POP_DST", <C as BlsSignaturePop>::POP_DST, Some(gen::dst_pop(G1))),
                ("BlsElGamal::ENC_DST", <C as BlsElGamal>::ENC_DST, None),
            ];
            for (name, val, ietf) in &mine {
                if let Some(want) = ietf {
                    s.case("tag_equals_ietf_string", format!("{}|{}", G1, name), *val == want.as_slice(),
                        json!({"impl": sigs_imp(), "constant": name, "value": String::from_utf8_lossy(val), "ietf": String::from_utf8_lossy(want)}));
                }
            }
            if G1 {
                let all: Vec<(String, &[u8])> = vec![
                    ("g1 BlsSignatureBasic::DST".into(), <Bls12381G1Impl as BlsSignatureBasic>::DST),
                    ("g1 BlsSignatureMessageAugmentation::DST".into(), <Bls12381G1Impl as BlsSignatureMessageAugmentation>::DST),
                    ("g1 BlsSignaturePop::SIG_DST".into(), <Bls12381G1Impl as BlsSignaturePop>::SIG_DST),
                    ("g1 BlsSignaturePop::POP_DST".into(), <Bls12381G1Impl as BlsSignaturePop>::POP_DST),
                    ("g1 BlsElGamal::ENC_DST".into(), <Bls12381G1Impl as BlsElGamal>::ENC_DST),
                    ("g2 BlsSignatureBasic::DST".into(), <Bls12381G2Impl as BlsSignatureBasic>::DST),
                    ("g2 BlsSignatureMessageAugmentation::DST".into(), <Bls12381G2Impl as BlsSignatureMessageAugmentation>::DST),
                    ("g2 BlsSignaturePop::SIG_DST".into(), <Bls12381G2Impl as BlsSignaturePop>::SIG_DST),
                    ("g2 BlsSignaturePop::POP_DST".into(), <Bls12381G2Impl as BlsSignaturePop>::POP_DST),
                    ("g2 BlsElGamal::ENC_DST".into(), <Bls12381G2Impl as BlsElGamal>::ENC_DST),
                ];
                for i in 0..all.len() {
                    s.case("tag_nonempty", all[i].0.clone(), !all[i].1.is_empty(), json!({"constant": all[i].0}));
                    for j in i + 1..all.len() {
                        s.case("tags_pairwise_distinct", format!("{}|{}", all[i].0, all[j].0), all[i].1 != all[j].1,
                            json!({"a": all[i].0, "b": all[j].0, "value_a": String::from_utf8_lossy(all[i].1), "value_b": String::from_utf8_lossy(all[j].1)}));
                    }
                }
            }
        }
        // ------------------------------------------------------------------ C06
        /// key table entry: (dlog, library point, reference-encoded bytes)
        fn sigs_c06_eval(s: &mut Search, cache: &mut crate::search_sigs::SigsRefCache, base: &serde_json::Value,
                         keytab: &[(RScalar, SigsP, Vec<u8>)], class: &str, pert: serde_json::Value, scheme: u8,
                         list: &[(usize, Vec<u8>)], aggp: SigsS, expect: bool) {
            let data: Vec<(PublicKey<C>, Vec<u8>)> = list.iter().map(|(i, m)| (PublicKey::<C>(keytab[*i].1), m.clone())).collect();
            let agg = sigs_mk_agg(scheme, aggp);
            let got = sigs_try(|| agg.verify(&data).is_ok());
            let rp: Vec<(Vec<u8>, Vec<u8>)> = list.iter().map(|(i, m)| (keytab[*i].2.clone(), m.clone())).collect();
            let aggb = sigs_sb(&aggp);
            let refd = crate::search_sigs::sigs_ref_core_aggregate_verify(G1, scheme, &rp, &aggb, true, cache);
            let mut h = Vec::new();
            for (i, m) in list {
                h.extend_from_slice(&sc_be(&keytab[*i].0));
                h.extend_from_slice(&(m.len() as u64).to_be_bytes());
                h.extend_from_slice(m);
            }
            let key = format!("{}|{}|{}|{}", G1, scheme, gen::hx(&aggb), gen::hx(&sha256(&h)));
            let det = sigs_with(base.clone(), json!({"perturbation": pert, "aggregate": gen::hx(&aggb),
                "pairs": list.iter().map(|(i, m)| json!({"sk": gen::hs(&keytab[*i].0), "msg": sigs_mh(m)})).collect::<Vec<_>>()}));
            sigs_decide(s, class, key.clone(), expect, got, det.clone());
            sigs_vs_ref(s, key, got, refd, det);
        }

        fn sigs_c06_msgs(rng: &mut Prng, n: usize) -> Vec<Vec<u8>> {
            let mut seen = std::collections::HashSet::new();
            let mut v = vec![];
            while v.len() < n {
                let len = match rng.below(8) { 0 => 0, 1 => 1, 2 => 32, 3 => 64 + rng.below(3) as usize, _ => 1 + rng.below(48) as usize };
                let m = gen::message(rng, len);
                if seen.insert(m.clone()) {
                    v.push(m);
                }
            }
            v
        }

        /// sign every (key index, message) pair and aggregate through the library
        fn sigs_c06_aggregate(s: &mut Search, base: &serde_json::Value, bkey: &str, keytab: &[(RScalar, SigsP, Vec<u8>)], scheme: u8,
                              list: &[(usize, Vec<u8>)]) -> Option<(Vec<SigsS>, SigsS)> {
            let mut pts = vec![];
            for (i, m) in list {
                pts.push(sigs_sign(s, &keytab[*i].0, scheme, m)?);
            }
            let sigs: Vec<Signature<C>> = pts.iter().map(|p| sigs_mk(scheme, *p)).collect();
            match sigs_try(|| AggregateSignature::<C>::from_signatures(&sigs)) {
                Ok(Ok(a)) => {
                    let (p, same) = match (a, scheme) {
                        (AggregateSignature::Basic(p), 0) | (AggregateSignature::MessageAugmentation(p), 1) | (AggregateSignature::ProofOfPossession(p), 2) => (p, true),
                        (AggregateSignature::Basic(p), _) | (AggregateSignature::MessageAugmentation(p), _) | (AggregateSignature::ProofOfPossession(p), _) => (p, false),
                    };
                    s.case("aggregate_accumulates", bkey.to_string(), same, base.clone());
                    Some((pts, p))
                }
                Ok(Err(_)) => {
                    s.case("aggregate_accumulates", bkey.to_string(), false, base.clone());
                    None
                }
                Err(()) => {
                    s.case("aggregate_accumulates_panicked", bkey.to_string(), false, base.clone());
                    None
                }
            }
        }

        fn sigs_c06_trial(s: &mut Search, rng: &mut Prng, thorough: bool, n: usize, scheme: u8) {
            let mut cache = crate::search_sigs::SigsRefCache::new();
            let mut ks: Vec<RScalar> = (0..n + 1).map(|_| rng.scalar()).collect();
            if n == 2 {
                ks[0] = [RScalar::ONE, -RScalar::ONE, RScalar::from(2u64)][scheme as usize];
            }
            let keytab: Vec<(RScalar, SigsP, Vec<u8>)> = ks.iter().map(|k| (*k, sk_of(k).public_key().0, ref_sk_to_pk(G1, k))).collect();
            let extra = n; // index of the outsider key
            let mut msgs = sigs_c06_msgs(rng, n + 1);
            let extra_msg = msgs.pop().unwrap();
            let list: Vec<(usize, Vec<u8>)> = (0..n).map(|i| (i, msgs[i].clone())).collect();
            let base = json!({"impl": sigs_imp(), "scheme": gen::SCH[scheme as usize], "n": n});
            let bkey = format!("{}|{}|{}|{}", G1, scheme, n, gen::hs(&ks[0]));
            let Some((pts, agg)) = sigs_c06_aggregate(s, &base, &bkey, &keytab, scheme, &list) else { return };
            sigs_c06_eval(s, &mut cache, &base, &keytab, "aggregate_verifies_in_order", json!("none"), scheme, &list, agg, true);
            for t in 0..(if thorough { 3 } else { 2 }) {
                let mut pl = list.clone();
                if t == 0 { pl.reverse() } else { sigs_shuffle(rng, &mut pl) }
                sigs_c06_eval(s, &mut cache, &base, &keytab, "aggregate_verifies_permuted", json!({"kind": "pair list permuted", "order": pl.iter().map(|(i, _)| *i).collect::<Vec<_>>()}), scheme, &pl, agg, true);
            }
            for pos in sigs_positions(rng, n, (thorough && n <= 8) || n <= 4, thorough) {
                // altered message
                let mut l = list.clone();
                if l[pos].1.is_empty() || rng.below(4) == 0 {
                    l[pos].1.push(0);
                    sigs_c06_eval(s, &mut cache, &base, &keytab, "aggregate_altered_message_rejects", json!({"kind": "0x00 appended to message", "index": pos}), scheme, &l, agg, false);
                } else {
                    let (bi, bt) = (rng.below(l[pos].1.len() as u64) as usize, rng.below(8) as u8);
                    l[pos].1[bi] ^= 1 << bt;
                    sigs_c06_eval(s, &mut cache, &base, &keytab, "aggregate_altered_message_rejects", json!({"kind": "message bit flip", "index": pos, "byte": bi, "bit": bt}), scheme, &l, agg, false);
                }
                // altered key: an outsider, and the key of the neighbour
                let mut l = list.clone();
                l[pos].0 = extra;
                sigs_c06_eval(s, &mut cache, &base, &keytab, "aggregate_altered_key_rejects", json!({"kind": "key replaced by an outsider's", "index": pos}), scheme, &l, agg, false);
                let mut l = list.clone();
                l[pos].0 = (pos + 1) % n;
                sigs_c06_eval(s, &mut cache, &base, &keytab, "aggregate_altered_key_rejects", json!({"kind": "key replaced by the next signer's", "index": pos}), scheme, &l, agg, false);
                // dropped pair
                let mut l = list.clone();
                l.remove(pos);
                sigs_c06_eval(s, &mut cache, &base, &keytab, "aggregate_dropped_pair_rejects", json!({"kind": "pair dropped", "index": pos}), scheme, &l, agg, false);
                // added pair (inserted at pos): an outsider's pair (new message), and an outsider's key with a fresh message
                let mut l = list.clone();
                l.insert(pos, (extra, extra_msg.clone()));
                sigs_c06_eval(s, &mut cache, &base, &keytab, "aggregate_added_pair_rejects", json!({"kind": "pair (outsider key, new message) inserted", "index": pos}), scheme, &l, agg, false);
                let mut l = list.clone();
                l.insert(pos, (pos, extra_msg.clone()));
                sigs_c06_eval(s, &mut cache, &base, &keytab, "aggregate_added_pair_rejects", json!({"kind": "pair (key of this signer, new message) inserted", "index": pos}), scheme, &l, agg, false);
                // two messages swapped between different signers
                let other = (pos + 1 + rng.below(n as u64 - 1) as usize) % n;
                let mut l = list.clone();
                let t = l[pos].1.clone();
                l[pos].1 = l[other].1.clone();
                l[other].1 = t;
                sigs_c06_eval(s, &mut cache, &base, &keytab, "aggregate_swapped_messages_rejects", json!({"kind": "messages swapped", "index": pos, "with": other}), scheme, &l, agg, false);
                // aggregate with one part missing against the full list
                let mut a2 = SigsS::identity();
                for (i, p) in pts.iter().enumerate() {
                    if i != pos {
                        a2 += p;
                    }
                }
                sigs_c06_eval(s, &mut cache, &base, &keytab, "aggregate_missing_part_rejects", json!({"kind": "aggregate lacks the signature of", "index": pos}), scheme, &list, a2, false);
            }
            // relabelled aggregate
            let other_label = (scheme + 1 + rng.below(2) as u8) % 3;
            {
                // (the dispatch is by the label of the aggregate; reference evaluated under that label)
                let data: Vec<(PublicKey<C>, Vec<u8>)> = list.iter().map(|(i, m)| (PublicKey::<C>(keytab[*i].1), m.clone())).collect();
                let a = sigs_mk_agg(other_label, agg);
                let got = sigs_try(|| a.verify(&data).is_ok());
                let rp: Vec<(Vec<u8>, Vec<u8>)> = list.iter().map(|(i, m)| (keytab[*i].2.clone(), m.clone())).collect();
                let refd = crate::search_sigs::sigs_ref_core_aggregate_verify(G1, other_label, &rp, &sigs_sb(&agg), true, &mut cache);
                let det = sigs_with(base.clone(), json!({"perturbation": format!("aggregate relabelled {}", gen::SCH[other_label as usize]), "aggregate": hexpt(&agg),
                    "pairs": list.iter().map(|(i, m)| json!({"sk": gen::hs(&keytab[*i].0), "msg": sigs_mh(m)})).collect::<Vec<_>>()}));
                let key = format!("{}|relabel|{}|{}|{}", G1, scheme, other_label, hexpt(&agg));
                sigs_decide(s, "aggregate_relabelled_rejects", key.clone(), false, got, det.clone());
                sigs_vs_ref(s, key, got, refd, det);
            }
            // repeated messages: (A) two different signers sign the same message, (B) the same pair twice
            let (i, j) = (rng.below(n as u64) as usize, 0usize);
            let j = if i == j { n - 1 } else { j };
            let mut dl = list.clone();
            dl[j].1 = dl[i].1.clone();
            let (class, expect) = if scheme == 0 { ("aggregate_basic_repeated_message_rejects", false) } else { ("aggregate_repeated_message_accepts", true) };
            let bkey2 = format!("{}|dupA", bkey);
            if let Some((_, dagg)) = sigs_c06_aggregate(s, &base, &bkey2, &keytab, scheme, &dl) {
                let rp: Vec<(Vec<u8>, Vec<u8>)> = dl.iter().map(|(i, m)| (keytab[*i].2.clone(), m.clone())).collect();
                let alg = crate::search_sigs::sigs_ref_core_aggregate_verify(G1, scheme, &rp, &sigs_sb(&dagg), false, &mut cache);
                if alg {
                    sigs_c06_eval(s, &mut cache, &base, &keytab, class, json!({"kind": "two signers sign the same message; aggregate of their honest signatures", "index": j, "same_as": i, "algebraically_valid": alg}), scheme, &dl, dagg, expect);
                    let mut pl = dl.clone();
                    sigs_shuffle(rng, &mut pl);
                    sigs_c06_eval(s, &mut cache, &base, &keytab, class, json!({"kind": "two signers sign the same message; permuted", "algebraically_valid": alg}), scheme, &pl, dagg, expect);
                } else {
                    eprintln!("c06: reference finds honest duplicate-message aggregate algebraically invalid (construction bug?)");
                }
            }
            let mut dl = list.clone();
            dl.push(list[i].clone());
            let dagg = agg + pts[i];
            let rp: Vec<(Vec<u8>, Vec<u8>)> = dl.iter().map(|(i, m)| (keytab[*i].2.clone(), m.clone())).collect();
            let alg = crate::search_sigs::sigs_ref_core_aggregate_verify(G1, scheme, &rp, &sigs_sb(&dagg), false, &mut cache);
            if alg {
                sigs_c06_eval(s, &mut cache, &base, &keytab, class, json!({"kind": "one signer's pair listed twice, signature added twice", "index": i, "algebraically_valid": alg}), scheme, &dl, dagg, expect);
            } else {
                eprintln!("c06: reference finds doubled-pair aggregate algebraically invalid (construction bug?)");
            }
        }

        pub fn c06(s: &mut Search, rng: &mut Prng, thorough: bool) {
            let ns: Vec<usize> = if thorough { (2..=64).collect() } else { vec![2, 3, 4, 7, 16, 64] };
            for &n in &ns {
                for scheme in 0..3u8 {
                    sigs_c06_trial(s, rng, thorough, n, scheme);
                }
            }
            // refusals of from_signatures
            let k = rng.scalar();
            let m = rng.bytes(24);
            let one: Vec<Option<SigsS>> = (0..3u8).map(|sc| sigs_sign(s, &k, sc, &m)).collect();
            if one.iter().all(|p| p.is_some()) {
                for sc in 0..3u8 {
                    let empty: Vec<Signature<C>> = vec![];
                    sigs_decide(s, "aggregate_refuses_fewer_than_two", format!("{}|empty|{}", G1, sc), false,
                        sigs_try(|| AggregateSignature::<C>::from_signatures(&empty).is_ok()), json!({"impl": sigs_imp(), "n": 0}));
                    let single = vec![sigs_mk(sc, one[sc as usize].unwrap())];
                    sigs_decide(s, "aggregate_refuses_fewer_than_two", format!("{}|single|{}", G1, sc), false,
                        sigs_try(|| AggregateSignature::<C>::from_signatures(&single).is_ok()),
                        json!({"impl": sigs_imp(), "n": 1, "scheme": gen::SCH[sc as usize], "sk": gen::hs(&k), "msg": gen::hx(&m)}));
                }
                for n in [2usize, 3, 5, 64] {
                    for host in 0..3u8 {
                        for guest in 0..3u8 {
                            if guest == host {
                                continue;
                            }
                            let mut ps = vec![0, n / 2, n - 1];
                            ps.dedup();
                            for pos in ps {
                                let list: Vec<Signature<C>> = (0..n).map(|i| { let l = if i == pos { guest } else { host }; sigs_mk(l, one[l as usize].unwrap()) }).collect();
                                let got = sigs_try(|| AggregateSignature::<C>::from_signatures(&list).is_ok());
                                sigs_decide(s, "aggregate_refuses_mixed_schemes", format!("{}|mixed|{}|{}|{}|{}", G1, n, host, guest, pos), false, got,
                                    json!({"impl": sigs_imp(), "sk": gen::hs(&k), "msg": gen::hx(&m), "n": n, "scheme_of_list": gen::SCH[host as usize], "scheme_at_index": gen::SCH[guest as usize], "index": pos}));
                            }
                        }
                    }
                }
            }
        }
    };
}
