//! Signature-family searches: C02 C04 C05 C06 C07 C09
macro_rules! search_sigs {
    () => {
        pub fn c02(_s: &mut Search, _rng: &mut Prng, _thorough: bool) {}
        pub fn c04(_s: &mut Search, _rng: &mut Prng, _thorough: bool) {}
        pub fn c05(_s: &mut Search, _rng: &mut Prng, _thorough: bool) {}
        pub fn c06(_s: &mut Search, _rng: &mut Prng, _thorough: bool) {}
        pub fn c07(_s: &mut Search, _rng: &mut Prng, _thorough: bool) {}
        pub fn c09(_s: &mut Search, _rng: &mut Prng, _thorough: bool) {}
    };
}
