//! Encryption searches: C11 C13 C18
macro_rules! search_enc {
    () => {
        pub fn c11(_s: &mut Search, _rng: &mut Prng, _thorough: bool) {}
        pub fn c13(_s: &mut Search, _rng: &mut Prng, _thorough: bool) {}
        pub fn c18(_s: &mut Search, _rng: &mut Prng, _thorough: bool) {}
    };
}
