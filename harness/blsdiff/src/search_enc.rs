//! Encryption searches: C11 (signcryption), C13 (time lock), C18 (independent implementation).
//!
//! The first half of this file is an independent reference implementation of the documented
//! constructions (signcryption, time-lock, PoK challenge, ElGamal proof transcript) on the
//! pure-Rust backend (`bls12_381_plus`), hard-coding every salt, label and framing rule.
//! The second half is the macro expanded per implementation by `search.rs`.
#![allow(dead_code)]
use crate::refs::{dec_g1, dec_g2, fs, hkdf_scalar, ref_hash_g1, ref_hash_g2, sha256, xof, RScalar};
use bls12_381_plus as r;
use bls12_381_plus::group::{Curve, Group, GroupEncoding};

pub const ENC_SALT_SC: &[u8] = b"SIGNCRYPT_BLS12381_XOF:HKDF-SHA2-256_";
pub const ENC_SALT_TL: &[u8] = b"TIMELOCK_BLS12381_XOF:HKDF-SHA2-256_";
pub const ENC_SALT_POK: &[u8] = b"BLS_POK__BLS12381_XOF:HKDF-SHA2-256_";
pub const ENC_SALT_EG: &[u8] = b"ELGAMAL_BLS12381_XOF:HKDF-SHA2-256_";

/// signature tag per implementation (true = signatures in G1) and scheme (0 basic, 1 aug, 2 pop)
pub fn enc_sig_tag(impl_g1: bool, scheme: u8) -> &'static [u8] {
    match (impl_g1, scheme) {
        (true, 0) => b"BLS_SIG_BLS12381G1_XMD:SHA-256_SSWU_RO_NUL_",
        (true, 1) => b"BLS_SIG_BLS12381G1_XMD:SHA-256_SSWU_RO_AUG_",
        (true, _) => b"BLS_SIG_BLS12381G1_XMD:SHA-256_SSWU_RO_POP_",
        (false, 0) => b"BLS_SIG_BLS12381G2_XMD:SHA-256_SSWU_RO_NUL_",
        (false, 1) => b"BLS_SIG_BLS12381G2_XMD:SHA-256_SSWU_RO_AUG_",
        (false, _) => b"BLS_SIG_BLS12381G2_XMD:SHA-256_SSWU_RO_POP_",
    }
}

/// tag of the ElGamal message generator: names the PUBLIC-KEY group
pub fn enc_eg_tag(impl_g1: bool) -> &'static [u8] {
    if impl_g1 {
        b"BLS_ELGAMAL_BLS12381G2_XMD:SHA-256_SSWU_RO_NUL_"
    } else {
        b"BLS_ELGAMAL_BLS12381G1_XMD:SHA-256_SSWU_RO_NUL_"
    }
}

/// A point of either source group
#[derive(Clone, Copy, Debug, PartialEq)]
pub enum EncPt {
    A(r::G1Projective),
    B(r::G2Projective),
}

impl EncPt {
    pub fn generator(in_g1: bool) -> Self {
        if in_g1 { EncPt::A(<r::G1Projective as Group>::generator()) } else { EncPt::B(<r::G2Projective as Group>::generator()) }
    }
    pub fn identity(in_g1: bool) -> Self {
        if in_g1 { EncPt::A(<r::G1Projective as Group>::identity()) } else { EncPt::B(<r::G2Projective as Group>::identity()) }
    }
    pub fn hash(in_g1: bool, msg: &[u8], dst: &[u8]) -> Self {
        if in_g1 { EncPt::A(ref_hash_g1(msg, dst)) } else { EncPt::B(ref_hash_g2(msg, dst)) }
    }
    /// checked decoding (on curve, in the subgroup, canonical)
    pub fn decode(in_g1: bool, b: &[u8]) -> Option<Self> {
        if in_g1 {
            dec_g1(b).map(|p| EncPt::A(r::G1Projective::from(p)))
        } else {
            dec_g2(b).map(|p| EncPt::B(r::G2Projective::from(p)))
        }
    }
    pub fn encode(&self) -> Vec<u8> {
        match self {
            EncPt::A(p) => p.to_affine().to_compressed().to_vec(),
            EncPt::B(p) => p.to_affine().to_compressed().to_vec(),
        }
    }
    pub fn mul(&self, s: &RScalar) -> Self {
        match self {
            EncPt::A(p) => EncPt::A(p * s),
            EncPt::B(p) => EncPt::B(p * s),
        }
    }
    pub fn add(&self, o: &Self) -> Self {
        match (self, o) {
            (EncPt::A(p), EncPt::A(q)) => EncPt::A(p + q),
            (EncPt::B(p), EncPt::B(q)) => EncPt::B(p + q),
            _ => panic!("EncPt::add: mixed groups"),
        }
    }
    pub fn neg(&self) -> Self {
        match self {
            EncPt::A(p) => EncPt::A(-p),
            EncPt::B(p) => EncPt::B(-p),
        }
    }
    pub fn is_identity(&self) -> bool {
        match self {
            EncPt::A(p) => bool::from(p.is_identity()),
            EncPt::B(p) => bool::from(p.is_identity()),
        }
    }
}

/// e(a, b) with one argument in each source group (order of the arguments irrelevant)
pub fn enc_pairing(a: &EncPt, b: &EncPt) -> r::Gt {
    match (a, b) {
        (EncPt::A(p), EncPt::B(q)) | (EncPt::B(q), EncPt::A(p)) => r::pairing(&p.to_affine(), &q.to_affine()),
        _ => panic!("enc_pairing: both arguments in the same group"),
    }
}

pub fn enc_gt_bytes(k: &r::Gt) -> Vec<u8> {
    GroupEncoding::to_bytes(k).as_ref().to_vec()
}

pub fn enc_xor(a: &[u8], b: &[u8]) -> Vec<u8> {
    assert_eq!(a.len(), b.len());
    a.iter().zip(b.iter()).map(|(x, y)| x ^ y).collect()
}

/// unsigned LEB128
pub fn enc_leb128(mut n: u64) -> Vec<u8> {
    let mut out = vec![];
    loop {
        let b = (n & 0x7f) as u8;
        n >>= 7;
        if n == 0 {
            out.push(b);
            return out;
        }
        out.push(b | 0x80);
    }
}

/// (value, bytes used); at most 10 bytes
pub fn enc_unleb128(b: &[u8]) -> Option<(u64, usize)> {
    let mut x = 0u64;
    for i in 0..10 {
        let c = *b.get(i)?;
        let part = (c & 0x7f) as u64;
        if i == 9 && part > 1 {
            return None;
        }
        x |= part << (7 * i);
        if c < 0x80 {
            return Some((x, i + 1));
        }
    }
    None
}

/// LEB128(len) || msg || zero padding up to 32 bytes
pub fn enc_frame(msg: &[u8]) -> Vec<u8> {
    let mut f = enc_leb128(msg.len() as u64);
    f.extend_from_slice(msg);
    while f.len() < 32 {
        f.push(0);
    }
    f
}

pub fn enc_unframe(p: &[u8]) -> Option<Vec<u8>> {
    let (len, used) = enc_unleb128(p)?;
    let len = usize::try_from(len).ok()?;
    if len > p.len() - used {
        return None;
    }
    Some(p[used..used + len].to_vec())
}

// ------------------------------------------------------------------ signcryption

/// (u, v, w) as bytes; `seed` plays the role of the 32 random bytes
pub fn enc_sc_seal(impl_g1: bool, pk: &[u8], msg: &[u8], scheme: u8, seed: &[u8]) -> Option<(Vec<u8>, Vec<u8>, Vec<u8>)> {
    let pkg = !impl_g1;
    let pkp = EncPt::decode(pkg, pk)?;
    let rr = hkdf_scalar(ENC_SALT_SC, seed);
    let u = EncPt::generator(pkg).mul(&rr);
    let frame = enc_frame(msg);
    let mask = xof(&pkp.mul(&rr).encode(), frame.len());
    let v = enc_xor(&frame, &mask);
    let mut t = u.encode();
    t.extend_from_slice(&v);
    let w = EncPt::hash(impl_g1, &t, enc_sig_tag(impl_g1, scheme)).mul(&rr);
    Some((u.encode(), v, w.encode()))
}

pub fn enc_sc_valid(impl_g1: bool, u: &[u8], v: &[u8], w: &[u8], scheme: u8) -> bool {
    let pkg = !impl_g1;
    let (Some(up), Some(wp)) = (EncPt::decode(pkg, u), EncPt::decode(impl_g1, w)) else { return false };
    if up.is_identity() || wp.is_identity() {
        return false;
    }
    let mut t = u.to_vec();
    t.extend_from_slice(v);
    let h = EncPt::hash(impl_g1, &t, enc_sig_tag(impl_g1, scheme));
    enc_pairing(&wp, &EncPt::generator(pkg)) == enc_pairing(&h, &up)
}

/// (message, whole unmasked payload)
pub fn enc_sc_open(impl_g1: bool, sk: &RScalar, u: &[u8], v: &[u8], w: &[u8], scheme: u8) -> Option<(Vec<u8>, Vec<u8>)> {
    if !enc_sc_valid(impl_g1, u, v, w, scheme) {
        return None;
    }
    let up = EncPt::decode(!impl_g1, u)?;
    let payload = enc_xor(v, &xof(&up.mul(sk).encode(), v.len()));
    let m = enc_unframe(&payload)?;
    Some((m, payload))
}

/// serde_bare layout of the signcryption ciphertext
pub fn enc_sc_wire(u: &[u8], v: &[u8], w: &[u8], scheme: u8) -> Vec<u8> {
    let mut o = u.to_vec();
    o.extend_from_slice(&enc_leb128(v.len() as u64));
    o.extend_from_slice(v);
    o.extend_from_slice(w);
    o.push(scheme);
    o
}

// ------------------------------------------------------------------ time lock

pub fn enc_tl_seal_alpha(impl_g1: bool, pk: &[u8], msg: &[u8], id: &[u8], scheme: u8, alpha: &RScalar) -> Option<(Vec<u8>, Vec<u8>, Vec<u8>)> {
    let pkg = !impl_g1;
    let pkp = EncPt::decode(pkg, pk)?;
    if pkp.is_identity() {
        return None;
    }
    let al = alpha.to_le_bytes();
    let mut ikm = al.to_vec();
    ikm.extend_from_slice(&sha256(msg));
    let rr = hkdf_scalar(ENC_SALT_TL, &ikm);
    let u = EncPt::generator(pkg).mul(&rr);
    let k = enc_pairing(&EncPt::hash(impl_g1, id, enc_sig_tag(impl_g1, scheme)), &pkp.mul(&rr));
    let v = enc_xor(&sha256(&enc_gt_bytes(&k)), &al);
    let frame = enc_frame(msg);
    let w = enc_xor(&frame, &xof(&al, frame.len()));
    Some((u.encode(), v, w))
}

pub fn enc_tl_seal(impl_g1: bool, pk: &[u8], msg: &[u8], id: &[u8], scheme: u8, seed: &[u8]) -> Option<(Vec<u8>, Vec<u8>, Vec<u8>)> {
    enc_tl_seal_alpha(impl_g1, pk, msg, id, scheme, &hkdf_scalar(ENC_SALT_TL, seed))
}

/// the decryption key the construction documents: sk * H(id, tag) in the signature group
pub fn enc_tl_key(impl_g1: bool, sk: &RScalar, id: &[u8], scheme: u8) -> Vec<u8> {
    EncPt::hash(impl_g1, id, enc_sig_tag(impl_g1, scheme)).mul(sk).encode()
}

/// (message, alpha bytes (little endian), whole unmasked payload)
pub fn enc_tl_open(impl_g1: bool, sig: &[u8], u: &[u8], v: &[u8], w: &[u8]) -> Option<(Vec<u8>, Vec<u8>, Vec<u8>)> {
    let pkg = !impl_g1;
    let sp = EncPt::decode(impl_g1, sig)?;
    let up = EncPt::decode(pkg, u)?;
    if sp.is_identity() || up.is_identity() || v.len() != 32 {
        return None;
    }
    let k = enc_pairing(&sp, &up);
    let al = enc_xor(v, &sha256(&enc_gt_bytes(&k)));
    let payload = enc_xor(w, &xof(&al, w.len()));
    let m = enc_unframe(&payload)?;
    let mut ikm = al.clone();
    ikm.extend_from_slice(&sha256(&m));
    let rr = hkdf_scalar(ENC_SALT_TL, &ikm);
    if EncPt::generator(pkg).mul(&rr) != up {
        return None;
    }
    Some((m, al, payload))
}

/// serde_bare layout of the time-lock ciphertext
pub fn enc_tl_wire(u: &[u8], v: &[u8], w: &[u8], scheme: u8) -> Vec<u8> {
    let mut o = u.to_vec();
    o.extend_from_slice(v);
    o.extend_from_slice(&enc_leb128(w.len() as u64));
    o.extend_from_slice(w);
    o.push(scheme);
    o
}

// ------------------------------------------------------------------ proof of knowledge

pub fn enc_pok_y(u: &[u8], t: u64) -> RScalar {
    let mut ikm = u.to_vec();
    ikm.extend_from_slice(&t.to_le_bytes());
    hkdf_scalar(ENC_SALT_POK, &ikm)
}

/// (u, v) of a timestamp proof for the signature `sk * H(msg, tag)` with commitment scalar x
pub fn enc_pok_prove(impl_g1: bool, sk: &RScalar, msg: &[u8], scheme: u8, x: &RScalar, t: u64) -> (Vec<u8>, Vec<u8>) {
    let a = EncPt::hash(impl_g1, msg, enc_sig_tag(impl_g1, scheme));
    let u = a.mul(x);
    let y = enc_pok_y(&u.encode(), t);
    let v = a.mul(sk).mul(&(x + y)).neg();
    (u.encode(), v.encode())
}

pub fn enc_pok_verify(impl_g1: bool, pk: &[u8], msg: &[u8], scheme: u8, u: &[u8], v: &[u8], t: u64) -> bool {
    let pkg = !impl_g1;
    let (Some(up), Some(vp), Some(pkp)) = (EncPt::decode(impl_g1, u), EncPt::decode(impl_g1, v), EncPt::decode(pkg, pk)) else { return false };
    if up.is_identity() || vp.is_identity() || pkp.is_identity() {
        return false;
    }
    let y = enc_pok_y(u, t);
    let a = EncPt::hash(impl_g1, msg, enc_sig_tag(impl_g1, scheme));
    enc_pairing(&vp.neg(), &EncPt::generator(pkg)) == enc_pairing(&up.add(&a.mul(&y)), &pkp)
}

// ------------------------------------------------------------------ ElGamal proof

pub fn enc_eg_generator(impl_g1: bool) -> EncPt {
    let pkg = !impl_g1;
    EncPt::hash(pkg, &EncPt::generator(pkg).encode(), enc_eg_tag(impl_g1))
}

pub fn enc_eg_challenge(impl_g1: bool, pk: &[u8], c1: &[u8], c2: &[u8], r1: &[u8], r2: &[u8]) -> RScalar {
    let pkg = !impl_g1;
    let items: Vec<(Vec<u8>, Vec<u8>)> = vec![
        (b"dst".to_vec(), ENC_SALT_EG.to_vec()),
        (b"base point".to_vec(), EncPt::generator(pkg).encode()),
        (b"pk".to_vec(), pk.to_vec()),
        (b"generator".to_vec(), enc_eg_generator(impl_g1).encode()),
        (b"c1".to_vec(), c1.to_vec()),
        (b"c2".to_vec(), c2.to_vec()),
        (b"r1".to_vec(), r1.to_vec()),
        (b"r2".to_vec(), r2.to_vec()),
    ];
    fs(b"ElGamalProof", &items, b"challenge")
}

/// the challenge a verifier recomputes from the public components
pub fn enc_eg_recompute(impl_g1: bool, pk: &[u8], c1: &[u8], c2: &[u8], zm: &RScalar, zb: &RScalar, c: &RScalar) -> Option<RScalar> {
    let pkg = !impl_g1;
    let (pkp, c1p, c2p) = (EncPt::decode(pkg, pk)?, EncPt::decode(pkg, c1)?, EncPt::decode(pkg, c2)?);
    let nc = -*c;
    let r1 = c1p.mul(&nc).add(&EncPt::generator(pkg).mul(zb));
    let r2 = c2p.mul(&nc).add(&enc_eg_generator(impl_g1).mul(zm)).add(&pkp.mul(zb));
    Some(enc_eg_challenge(impl_g1, pk, c1, c2, &r1.encode(), &r2.encode()))
}

/// (c1, c2, message_proof, blinder_proof, challenge) for message scalar m, blinder b, nonce rr
pub fn enc_eg_prove(impl_g1: bool, pk: &[u8], m: &RScalar, b: &RScalar, rr: &RScalar) -> Option<(Vec<u8>, Vec<u8>, RScalar, RScalar, RScalar)> {
    let pkg = !impl_g1;
    let pkp = EncPt::decode(pkg, pk)?;
    let h = enc_eg_generator(impl_g1);
    let p = EncPt::generator(pkg);
    let c1 = p.mul(b);
    let c2 = pkp.mul(b).add(&h.mul(m));
    let r1 = p.mul(rr);
    let r2 = pkp.mul(rr).add(&h.mul(b));
    let c = enc_eg_challenge(impl_g1, pk, &c1.encode(), &c2.encode(), &r1.encode(), &r2.encode());
    Some((c1.encode(), c2.encode(), b + c * m, rr + c * b, c))
}

/// serde_bare layout of the ElGamal proof
pub fn enc_eg_wire(c1: &[u8], c2: &[u8], zm: &RScalar, zb: &RScalar, c: &RScalar) -> Vec<u8> {
    let mut o = c1.to_vec();
    o.extend_from_slice(c2);
    o.extend_from_slice(&zm.to_be_bytes());
    o.extend_from_slice(&zb.to_be_bytes());
    o.extend_from_slice(&c.to_be_bytes());
    o
}

// =======================================================================================
// The per-implementation part (expanded in `search::g1` and `search::g2`).
// =======================================================================================
macro_rules! search_enc {
    () => {
        search_enc_helpers!();
        search_enc_c11!();
        search_enc_c13!();
        search_enc_c18!();
    };
}

macro_rules! search_enc_helpers {
    () => {
        use crate::search_enc::*;
        pub fn enc_impl() -> &'static str {
            if G1 { "g1" } else { "g2" }
        }
        pub fn enc_catch<T>(f: impl FnOnce() -> T) -> Result<T, ()> {
            catch(std::panic::AssertUnwindSafe(f))
        }
        pub fn enc_opt(o: subtle::CtOption<Vec<u8>>) -> Option<Vec<u8>> {
            Option::<Vec<u8>>::from(o)
        }
        pub fn enc_pk_pt(b: &[u8]) -> Option<<C as Pairing>::PublicKey> {
            PublicKey::<C>::try_from(b).ok().map(|p| p.0)
        }
        pub fn enc_sig_pt(b: &[u8]) -> Option<<C as Pairing>::Signature> {
            let mut repr = <<C as Pairing>::Signature as GroupEncoding>::Repr::default();
            if repr.as_ref().len() != b.len() {
                return None;
            }
            repr.as_mut().copy_from_slice(b);
            Option::from(<<C as Pairing>::Signature as GroupEncoding>::from_bytes(&repr))
        }
        pub fn enc_pk_bytes(p: &<C as Pairing>::PublicKey) -> Vec<u8> {
            p.to_bytes().as_ref().to_vec()
        }
        pub fn enc_sig_bytes(p: &<C as Pairing>::Signature) -> Vec<u8> {
            p.to_bytes().as_ref().to_vec()
        }
        pub fn enc_wrap_sig(scheme: u8, p: <C as Pairing>::Signature) -> Signature<C> {
            match scheme {
                0 => Signature::Basic(p),
                1 => Signature::MessageAugmentation(p),
                _ => Signature::ProofOfPossession(p),
            }
        }
        pub fn enc_lib_scalar(x: &RScalar) -> Scalar {
            bsc(&sc_be(x))
        }
        pub fn enc_ref_scalar(x: &Scalar) -> RScalar {
            sc_from_be(&bsc_be(x))
        }
        /// hex, or length + sha256 when long
        pub fn enc_hx(b: &[u8]) -> String {
            if b.len() <= 96 { gen::hx(b) } else { format!("len:{}:sha256:{}", b.len(), gen::hx(&sha256(b))) }
        }
        pub fn enc_optj(o: &Option<Vec<u8>>) -> String {
            match o {
                Some(v) => format!("some:{}", enc_hx(v)),
                None => "none".to_string(),
            }
        }
        pub fn enc_flip(b: &[u8], bit: usize) -> Vec<u8> {
            let mut v = b.to_vec();
            v[bit / 8] ^= 1u8 << (bit % 8);
            v
        }
        /// message lengths of C11 / C13
        pub fn enc_lens(thorough: bool) -> Vec<usize> {
            if thorough {
                let mut v: Vec<usize> = (0..=40).collect();
                v.extend(100..=140);
                v.extend_from_slice(&[16382, 16383, 16384, 16385, 65535, 65536]);
                v
            } else {
                vec![0, 1, 2, 15, 30, 31, 32, 33, 40, 100, 127, 128, 129, 140]
            }
        }
        /// bit positions to flip in a byte string: all when short (or `all`), else the first 3 and the
        /// last byte exhaustively plus `extra` random bits
        pub fn enc_bits(rng: &mut Prng, nbytes: usize, all: bool, extra: usize) -> Vec<usize> {
            if all || nbytes <= 4 {
                return (0..nbytes * 8).collect();
            }
            let mut v: Vec<usize> = (0..24).collect();
            v.extend((nbytes - 1) * 8..nbytes * 8);
            for _ in 0..extra {
                v.push(rng.below((nbytes * 8) as u64) as usize);
            }
            v.sort();
            v.dedup();
            v
        }
        pub fn enc_keys(rng: &mut Prng, thorough: bool) -> Vec<RScalar> {
            let mut keys = if thorough {
                gen::edge_scalars()
            } else {
                vec![RScalar::ONE, -RScalar::ONE, hkdf_scalar(b"BLS-SIG-KEYGEN-SALT-", b"edge-key")]
            };
            for _ in 0..(if thorough { 6 } else { 2 }) {
                keys.push(rng.scalar());
            }
            keys
        }
    };
}

macro_rules! search_enc_c11 {
    () => {
        pub fn enc_c11_det(k: &RScalar, scheme: u8, m: &[u8], ct: &SignCryptCiphertext<C>) -> serde_json::Value {
            json!({"impl": enc_impl(), "sk": gen::hs(k), "scheme": gen::SCH[scheme as usize], "msg_len": m.len(), "msg": enc_hx(m),
                   "ct_u": gen::hx(&enc_pk_bytes(&ct.u)), "ct_v": enc_hx(&ct.v), "ct_w": gen::hx(&enc_sig_bytes(&ct.w)),
                   "ct_scheme": scheme_name(ct.scheme)})
        }

        /// An altered ciphertext must report invalid and decrypt to nothing (also through a
        /// decryption key derived from it).
        pub fn enc_c11_expect_rejected(
            s: &mut Search, class: &str, key: String, ct2: &SignCryptCiphertext<C>, sk: &SecretKey<C>, det: serde_json::Value, what: serde_json::Value,
        ) {
            enc_c11_expect_rejected_opt(s, class, key, ct2, sk, det, what, true)
        }

        pub fn enc_c11_expect_rejected_opt(
            s: &mut Search, class: &str, key: String, ct2: &SignCryptCiphertext<C>, sk: &SecretKey<C>, mut det: serde_json::Value, what: serde_json::Value, via_key: bool,
        ) {
            let r = enc_catch(|| {
                let valid = bool::from(ct2.is_valid());
                let d1 = enc_opt(ct2.decrypt(sk));
                let d2 = if via_key { enc_opt(sk.sign_decryption_key::<&[u8]>(ct2).decrypt(ct2)) } else { None };
                (valid, d1, d2)
            });
            det["perturbation"] = what;
            match r {
                Err(()) => {
                    det["observed"] = json!("panic");
                    s.case(&format!("{class}_panicked"), key, false, det);
                }
                Ok((valid, d1, d2)) => {
                    det["observed"] = json!({"is_valid": valid, "decrypt": enc_optj(&d1), "decrypt_via_key": enc_optj(&d2)});
                    s.case(class, key, !valid && d1.is_none() && d2.is_none(), det);
                }
            }
        }

        /// all alterations of one honest ciphertext
        pub fn enc_c11_alter(
            s: &mut Search, rng: &mut Prng, k: &RScalar, scheme: u8, m: &[u8], ct: &SignCryptCiphertext<C>, other: &SignCryptCiphertext<C>, exhaustive: bool,
        ) {
            let sk = sk_of(k);
            let det = enc_c11_det(k, scheme, m, ct);
            let ub = enc_pk_bytes(&ct.u);
            let wb = enc_sig_bytes(&ct.w);
            let wire = enc_sc_wire(&ub, &ct.v, &wb, scheme);
            let id = format!("{}|{}|{}|{}", enc_impl(), gen::hs(k), scheme, &gen::hx(&sha256(&wire))[..16]);
            // the layout assumed below is the library's
            let lib_wire = Vec::<u8>::from(ct);
            if lib_wire != wire {
                s.case("wire_layout_as_documented", id.clone(), false, det.clone());
                return;
            }
            let v_off = ub.len() + enc_leb128(ct.v.len() as u64).len();
            let w_off = v_off + ct.v.len();
            // --- u and w: every single-bit flip of the point encodings, through the byte decoder
            for (name, off, len) in [("u", 0usize, ub.len()), ("w", w_off, wb.len())] {
                let bits: Vec<usize> = if exhaustive {
                    (0..len * 8).collect()
                } else {
                    let mut b: Vec<usize> = (0..8).collect();
                    for _ in 0..40 {
                        b.push(rng.below((len * 8) as u64) as usize);
                    }
                    b.sort();
                    b.dedup();
                    b
                };
                for bit in bits {
                    let wire2 = enc_flip(&wire, off * 8 + bit);
                    let key = format!("{id}|{name}|{bit}");
                    let what = json!({"component": name, "flip_bit": bit, "byte": bit / 8, "mask": 1u8 << (bit % 8)});
                    match enc_catch(|| SignCryptCiphertext::<C>::try_from(wire2.as_slice())) {
                        Err(()) => {
                            let mut d = det.clone();
                            d["perturbation"] = what;
                            s.case(&format!("{name}_bit_flip_decode_panicked"), key, false, d);
                        }
                        Ok(Err(_)) => s.case(&format!("{name}_bit_flip_rejected_at_decode"), key, true, json!({})),
                        Ok(Ok(ct2)) => {
                            if &ct2 == ct {
                                // a non-canonical encoding of the same point: no change of the component (C15/C16)
                                let mut d = det.clone();
                                d["perturbation"] = what;
                                s.case(&format!("{name}_bit_flip_decodes_to_same_point"), key, true, d);
                            } else {
                                enc_c11_expect_rejected(s, &format!("{name}_bit_flip_rejected"), key, &ct2, &sk, det.clone(), what);
                            }
                        }
                    }
                }
            }
            // --- v: single-bit flips (every bit when short / exhaustive)
            for bit in enc_bits(rng, ct.v.len(), exhaustive && ct.v.len() <= 64, 32) {
                let mut ct2 = ct.clone();
                ct2.v = enc_flip(&ct.v, bit);
                let what = json!({"component": "v", "flip_bit": bit, "byte": bit / 8, "mask": 1u8 << (bit % 8)});
                enc_c11_expect_rejected_opt(s, "v_bit_flip_rejected", format!("{id}|v|{bit}"), &ct2, &sk, det.clone(), what, bit % 4 == 0);
            }
            // --- v: truncation (never to empty: that input belongs to C17) and extension
            for n in 1..=3usize {
                if ct.v.len() > n {
                    let mut ct2 = ct.clone();
                    ct2.v.truncate(ct.v.len() - n);
                    enc_c11_expect_rejected(s, "v_truncated_rejected", format!("{id}|vt|{n}"), &ct2, &sk, det.clone(), json!({"component": "v", "truncate_end": n}));
                    let mut ct3 = ct.clone();
                    ct3.v = ct.v[n..].to_vec();
                    enc_c11_expect_rejected(s, "v_truncated_rejected", format!("{id}|vf|{n}"), &ct3, &sk, det.clone(), json!({"component": "v", "truncate_front": n}));
                }
                for fill in [0u8, 0xff, 0x80] {
                    let mut ct2 = ct.clone();
                    ct2.v.extend(std::iter::repeat(fill).take(n));
                    enc_c11_expect_rejected(s, "v_extended_rejected", format!("{id}|ve|{n}|{fill}"), &ct2, &sk, det.clone(), json!({"component": "v", "append": n, "fill": fill}));
                }
            }
            // the same through the byte encoding (length prefix adjusted)
            {
                let mut v2 = ct.v.clone();
                v2.push(0);
                let wire2 = enc_sc_wire(&ub, &v2, &wb, scheme);
                if let Ok(Ok(ct2)) = enc_catch(|| SignCryptCiphertext::<C>::try_from(wire2.as_slice())) {
                    enc_c11_expect_rejected(s, "v_extended_rejected", format!("{id}|vew"), &ct2, &sk, det.clone(), json!({"component": "v", "append": 1, "fill": 0, "via": "bytes"}));
                }
            }
            // --- every other scheme label
            for other_scheme in 0..3u8 {
                if other_scheme == scheme {
                    continue;
                }
                let mut ct2 = ct.clone();
                ct2.scheme = scheme_of(other_scheme);
                enc_c11_expect_rejected(s, "other_scheme_rejected", format!("{id}|s|{other_scheme}"), &ct2, &sk, det.clone(), json!({"component": "scheme", "to": gen::SCH[other_scheme as usize]}));
            }
            // --- whole components replaced: from another honest ciphertext, negated, identity
            let mut reps: Vec<(&str, SignCryptCiphertext<C>)> = vec![];
            let mut c = ct.clone();
            c.u = other.u;
            reps.push(("u_from_other_ciphertext", c));
            let mut c = ct.clone();
            c.w = other.w;
            reps.push(("w_from_other_ciphertext", c));
            if other.v != ct.v {
                let mut c = ct.clone();
                c.v = other.v.clone();
                reps.push(("v_from_other_ciphertext", c));
            }
            let mut c = ct.clone();
            c.u = -ct.u;
            reps.push(("u_negated", c));
            let mut c = ct.clone();
            c.w = -ct.w;
            reps.push(("w_negated", c));
            let mut c = ct.clone();
            c.u = -ct.u;
            c.w = -ct.w;
            reps.push(("u_and_w_negated", c));
            let mut c = ct.clone();
            c.u = <C as Pairing>::PublicKey::identity();
            reps.push(("u_identity", c));
            let mut c = ct.clone();
            c.w = <C as Pairing>::Signature::identity();
            reps.push(("w_identity", c));
            let mut c = ct.clone();
            c.u = ct.u + ct.u;
            c.w = ct.w + ct.w;
            reps.push(("u_and_w_doubled", c));
            for (name, ct2) in reps {
                let what = json!({"replace": name, "other_u": gen::hx(&enc_pk_bytes(&other.u)), "other_w": gen::hx(&enc_sig_bytes(&other.w)), "other_v": enc_hx(&other.v)});
                enc_c11_expect_rejected(s, "component_replaced_rejected", format!("{id}|r|{name}"), &ct2, &sk, det.clone(), what);
            }
        }

        /// decryption under another key never returns the original message
        pub fn enc_c11_wrong_keys(s: &mut Search, rng: &mut Prng, k: &RScalar, scheme: u8, m: &[u8], ct: &SignCryptCiphertext<C>, n_random: usize) {
            let det = enc_c11_det(k, scheme, m, ct);
            let mut wrong = vec![k + RScalar::ONE, -*k, k + k, k - RScalar::ONE];
            for _ in 0..n_random {
                wrong.push(rng.scalar());
            }
            for wk in wrong {
                if wk == *k || wk == RScalar::ZERO {
                    continue;
                }
                let sk2 = sk_of(&wk);
                let key = format!("{}|{}|{}|{}|{}", enc_impl(), gen::hs(k), scheme, gen::hx(&sha256(&ct.v)), gen::hs(&wk));
                let r = enc_catch(|| (enc_opt(ct.decrypt(&sk2)), enc_opt(sk2.sign_decryption_key::<&[u8]>(ct).decrypt(ct))));
                let mut d = det.clone();
                d["wrong_sk"] = json!(gen::hs(&wk));
                match r {
                    Err(()) => s.case("wrong_key_decrypt_panicked", key, false, d),
                    Ok((d1, d2)) => {
                        d["observed"] = json!({"decrypt": enc_optj(&d1), "decrypt_via_key": enc_optj(&d2)});
                        let ok = d1.as_deref() != Some(m) && d2.as_deref() != Some(m);
                        s.case(if m.is_empty() { "wrong_key_never_original_message_empty_msg" } else { "wrong_key_never_original_message" }, key, ok, d);
                    }
                }
            }
        }

        pub fn c11(s: &mut Search, rng: &mut Prng, thorough: bool) {
            let keys = enc_keys(rng, thorough);
            let lens = enc_lens(thorough);
            // lengths whose ciphertexts get every alteration (every bit of u, v, w)
            let exhaustive_lens: Vec<usize> = if thorough { vec![0, 1, 2, 7, 30, 31, 32, 33, 40] } else { vec![0, 31, 33] };
            for (ki, k) in keys.iter().enumerate() {
                let sk = sk_of(k);
                let pk = sk.public_key();
                for scheme in 0..3u8 {
                    for (li, &len) in lens.iter().enumerate() {
                        if ki >= 2 && (li + ki + scheme as usize) % 4 != 0 {
                            continue;
                        }
                        let m = gen::message(rng, len);
                        let key = format!("{}|{}|{}|{}|{}", enc_impl(), gen::hs(k), scheme, len, gen::hx(&sha256(&m)));
                        let base = json!({"impl": enc_impl(), "sk": gen::hs(k), "scheme": gen::SCH[scheme as usize], "msg_len": len, "msg": enc_hx(&m)});
                        let sealed = enc_catch(|| (pk.sign_crypt(scheme_of(scheme), &m), pk.sign_crypt(scheme_of(scheme), &m)));
                        let Ok((ct, other)) = sealed else {
                            s.case("sign_crypt_panicked", key, false, base);
                            continue;
                        };
                        let det = enc_c11_det(k, scheme, &m, &ct);
                        let r = enc_catch(|| {
                            let valid = bool::from(ct.is_valid());
                            let d1 = enc_opt(ct.decrypt(&sk));
                            let d2 = enc_opt(sk.sign_decryption_key::<&[u8]>(&ct).decrypt(&ct));
                            let wire = Vec::<u8>::from(&ct);
                            let back = SignCryptCiphertext::<C>::try_from(wire.as_slice()).ok();
                            let d3 = back.as_ref().and_then(|c| enc_opt(c.decrypt(&sk)));
                            (valid, d1, d2, back.as_ref() == Some(&ct), d3)
                        });
                        let Ok((valid, d1, d2, same, d3)) = r else {
                            s.case("honest_ciphertext_panicked", key, false, det);
                            continue;
                        };
                        let mut d = det.clone();
                        d["observed"] = json!({"is_valid": valid, "decrypt": enc_optj(&d1), "decrypt_via_key": enc_optj(&d2), "bytes_round_trip_equal": same, "decrypt_after_bytes": enc_optj(&d3)});
                        s.case("honest_is_valid", key.clone(), valid, d.clone());
                        s.case("honest_decrypts_to_message", key.clone(), d1.as_deref() == Some(&m[..]), d.clone());
                        s.case("honest_decrypts_via_decryption_key", key.clone(), d2.as_deref() == Some(&m[..]), d.clone());
                        s.case("honest_survives_byte_encoding", key.clone(), same && d3.as_deref() == Some(&m[..]), d.clone());
                        s.case("fresh_ciphertexts_differ", key.clone(), other != ct, d);

                        // alterations: everything for the short lengths with the first key(s); for the
                        // other lengths a rotating sample with sampled bits of v
                        let exhaustive = exhaustive_lens.contains(&len) && (ki == 0 || (thorough && ki == 7)) ;
                        let sampled = !exhaustive && ki < 2 && (li + scheme as usize + ki) % (if thorough { 6 } else { 7 }) == 1 && (thorough || ki == 0);
                        if exhaustive && (thorough || (li + scheme as usize) % 3 == 0 || len == 0 && scheme == 0) {
                            enc_c11_alter(s, rng, k, scheme, &m, &ct, &other, true);
                        } else if sampled {
                            enc_c11_alter(s, rng, k, scheme, &m, &ct, &other, false);
                        }
                        if ki < 3 && (li + scheme as usize) % 3 == 0 {
                            enc_c11_wrong_keys(s, rng, k, scheme, &m, &ct, if thorough { 6 } else { 3 });
                        }
                    }
                }
            }
            // the empty message under many independent keys
            let k = rng.scalar();
            let pk = sk_of(&k).public_key();
            for scheme in 0..3u8 {
                if let Ok(ct) = enc_catch(|| pk.sign_crypt(scheme_of(scheme), b"")) {
                    enc_c11_wrong_keys(s, rng, &k, scheme, b"", &ct, if thorough { 700 } else { 100 });
                }
            }
        }
    };
}
macro_rules! search_enc_c13 {
    () => {
        pub fn enc_c13_det(k: &RScalar, scheme: u8, m: &[u8], idb: &[u8], ct: &TimeCryptCiphertext<C>) -> serde_json::Value {
            json!({"impl": enc_impl(), "sk": gen::hs(k), "scheme": gen::SCH[scheme as usize], "msg_len": m.len(), "msg": enc_hx(m), "id": enc_hx(idb),
                   "ct_u": gen::hx(&enc_pk_bytes(&ct.u)), "ct_v": gen::hx(&ct.v), "ct_w": enc_hx(&ct.w), "ct_scheme": scheme_name(ct.scheme)})
        }

        pub fn enc_c13_ids(rng: &mut Prng) -> Vec<Vec<u8>> {
            vec![vec![], vec![0u8], b"round-000001234".to_vec(), rng.bytes(32), rng.bytes(200)]
        }

        /// decrypt with panic capture
        pub fn enc_c13_dec(ct: &TimeCryptCiphertext<C>, sig: &Signature<C>) -> Result<Option<Vec<u8>>, ()> {
            enc_catch(|| enc_opt(ct.decrypt(sig)))
        }

        /// the outcome must be nothing (`allow_original == false`) or nothing / the original message
        pub fn enc_c13_expect(
            s: &mut Search, class: &str, key: String, ct2: &TimeCryptCiphertext<C>, sig: &Signature<C>, m: &[u8], allow_original: bool, mut det: serde_json::Value, what: serde_json::Value,
        ) {
            det["perturbation"] = what;
            match enc_c13_dec(ct2, sig) {
                Err(()) => {
                    det["observed"] = json!("panic");
                    s.case(&format!("{class}_panicked"), key, false, det);
                }
                Ok(d) => {
                    det["observed"] = json!(enc_optj(&d));
                    let ok = match &d {
                        None => true,
                        Some(x) => allow_original && x.as_slice() == m,
                    };
                    s.case(class, key, ok, det);
                }
            }
        }

        /// every alteration of one ciphertext, opened with a signature `sig` that opens the original
        pub fn enc_c13_alter(
            s: &mut Search, rng: &mut Prng, k: &RScalar, scheme: u8, m: &[u8], idb: &[u8], ct: &TimeCryptCiphertext<C>, other: &TimeCryptCiphertext<C>, sig: &Signature<C>, sig_kind: &str, exhaustive: bool,
        ) {
            let mut det = enc_c13_det(k, scheme, m, idb, ct);
            det["signature"] = json!({"kind": sig_kind, "bytes": gen::hx(&enc_sig_bytes(sig.as_raw_value()))});
            let ub = enc_pk_bytes(&ct.u);
            let wire = enc_tl_wire(&ub, &ct.v, &ct.w, scheme);
            let id = format!("{}|{}|{}|{}", enc_impl(), gen::hs(k), scheme, &gen::hx(&sha256(&wire))[..16]);
            if Vec::<u8>::from(ct) != wire {
                s.case("wire_layout_as_documented", id.clone(), false, det.clone());
                return;
            }
            // --- u: single-bit flips of the encoding, through the byte decoder
            let ubits: Vec<usize> = if exhaustive { (0..ub.len() * 8).collect() } else { enc_bits(rng, ub.len(), false, 24) };
            for bit in ubits {
                let wire2 = enc_flip(&wire, bit);
                let key = format!("{id}|u|{bit}");
                let what = json!({"component": "u", "flip_bit": bit, "byte": bit / 8, "mask": 1u8 << (bit % 8)});
                match enc_catch(|| TimeCryptCiphertext::<C>::try_from(wire2.as_slice())) {
                    Err(()) => {
                        let mut d = det.clone();
                        d["perturbation"] = what;
                        s.case("u_bit_flip_decode_panicked", key, false, d);
                    }
                    Ok(Err(_)) => s.case("u_bit_flip_rejected_at_decode", key, true, json!({})),
                    Ok(Ok(ct2)) => {
                        if &ct2 == ct {
                            let mut d = det.clone();
                            d["perturbation"] = what;
                            s.case("u_bit_flip_decodes_to_same_point", key, true, d);
                        } else {
                            enc_c13_expect(s, "u_bit_flip_gives_nothing", key, &ct2, sig, m, false, det.clone(), what);
                        }
                    }
                }
            }
            // --- u replaced as a whole
            let mut reps: Vec<(&str, <C as Pairing>::PublicKey)> = vec![
                ("u_from_other_ciphertext", other.u),
                ("u_negated", -ct.u),
                ("u_identity", <C as Pairing>::PublicKey::identity()),
                ("u_doubled", ct.u + ct.u),
                ("u_generator", <C as Pairing>::PublicKey::generator()),
            ];
            for (name, u2) in reps.drain(..) {
                let mut ct2 = ct.clone();
                ct2.u = u2;
                enc_c13_expect(s, "u_replaced_gives_nothing", format!("{id}|ur|{name}"), &ct2, sig, m, false, det.clone(), json!({"component": "u", "replace": name, "new_u": gen::hx(&enc_pk_bytes(&u2))}));
            }
            // --- v: every single-bit flip; v of another ciphertext
            let vbits: Vec<usize> = if exhaustive { (0..256).collect() } else { enc_bits(rng, 32, false, 24) };
            for bit in vbits {
                let mut ct2 = ct.clone();
                ct2.v[bit / 8] ^= 1u8 << (bit % 8);
                enc_c13_expect(s, "v_bit_flip_gives_nothing", format!("{id}|v|{bit}"), &ct2, sig, m, false, det.clone(), json!({"component": "v", "flip_bit": bit, "byte": bit / 8, "mask": 1u8 << (bit % 8)}));
            }
            {
                let mut ct2 = ct.clone();
                ct2.v = other.v;
                enc_c13_expect(s, "v_replaced_gives_nothing", format!("{id}|vr"), &ct2, sig, m, false, det.clone(), json!({"component": "v", "replace": "v_from_other_ciphertext", "new_v": gen::hx(&other.v)}));
            }
            // --- w: authenticated part = length prefix and message; the rest (if any) is padding
            let auth = enc_leb128(m.len() as u64).len() + m.len();
            let wlen = ct.w.len();
            let auth_bits: Vec<usize> = if exhaustive && auth <= 64 { (0..auth * 8).collect() } else { enc_bits(rng, auth, false, 40) };
            for bit in auth_bits {
                let mut ct2 = ct.clone();
                ct2.w[bit / 8] ^= 1u8 << (bit % 8);
                let region = if bit / 8 < auth - m.len() { "length_prefix" } else { "message" };
                let what = json!({"component": "w", "region": region, "flip_bit": bit, "byte": bit / 8, "mask": 1u8 << (bit % 8)});
                enc_c13_expect(s, &format!("w_{region}_bit_flip_gives_nothing"), format!("{id}|w|{bit}"), &ct2, sig, m, false, det.clone(), what.clone());
                // weaker half of the statement, recorded separately: never a DIFFERENT message
                enc_c13_expect(s, "w_authenticated_bit_flip_never_other_message", format!("{id}|wo|{bit}"), &ct2, sig, m, true, det.clone(), what);
            }
            for bit in auth * 8..wlen * 8 {
                let mut ct2 = ct.clone();
                ct2.w[bit / 8] ^= 1u8 << (bit % 8);
                enc_c13_expect(s, "w_padding_bit_flip_original_or_nothing", format!("{id}|w|{bit}"), &ct2, sig, m, true, det.clone(), json!({"component": "w", "region": "padding", "flip_bit": bit, "byte": bit / 8, "mask": 1u8 << (bit % 8)}));
            }
            // --- w extended / truncated (never to empty: that input belongs to C17)
            for (n, fill) in [(1usize, 0u8), (1, 0xff), (2, 0x80), (3, 0x01), (32, 0xa5)] {
                let mut ct2 = ct.clone();
                ct2.w.extend(std::iter::repeat(fill).take(n));
                enc_c13_expect(s, "w_extended_original_or_nothing", format!("{id}|we|{n}|{fill}"), &ct2, sig, m, true, det.clone(), json!({"component": "w", "append": n, "fill": fill}));
            }
            for n in 1..=3usize {
                if wlen > n {
                    let mut ct2 = ct.clone();
                    ct2.w.truncate(wlen - n);
                    if wlen - n >= auth {
                        enc_c13_expect(s, "w_padding_truncated_original_or_nothing", format!("{id}|wt|{n}"), &ct2, sig, m, true, det.clone(), json!({"component": "w", "truncate_end": n}));
                    } else {
                        enc_c13_expect(s, "w_message_truncated_gives_nothing", format!("{id}|wt|{n}"), &ct2, sig, m, false, det.clone(), json!({"component": "w", "truncate_end": n}));
                    }
                }
            }
            if other.w != ct.w && other.w.len() == ct.w.len() {
                let mut ct2 = ct.clone();
                ct2.w = other.w.clone();
                // the two payloads can coincide on the bytes that cover the length prefix and the message (for the empty
                // message that is one byte: probability 2^-8); then only padding differs and the original may come back
                let a = auth.min(ct.w.len());
                if other.w[..a] == ct.w[..a] {
                    enc_c13_expect(s, "w_padding_replaced_original_or_nothing", format!("{id}|wr"), &ct2, sig, m, true, det.clone(), json!({"component": "w", "replace": "w_from_other_ciphertext_same_message (same authenticated bytes)", "new_w": enc_hx(&other.w)}));
                } else {
                    enc_c13_expect(s, "w_replaced_gives_nothing", format!("{id}|wr"), &ct2, sig, m, false, det.clone(), json!({"component": "w", "replace": "w_from_other_ciphertext_same_message", "new_w": enc_hx(&other.w)}));
                }
            }
            // --- scheme label changed (signature kept): nothing
            for other_scheme in 0..3u8 {
                if other_scheme != scheme {
                    let mut ct2 = ct.clone();
                    ct2.scheme = scheme_of(other_scheme);
                    enc_c13_expect(s, "scheme_label_changed_gives_nothing", format!("{id}|s|{other_scheme}"), &ct2, sig, m, false, det.clone(), json!({"component": "scheme", "to": gen::SCH[other_scheme as usize]}));
                }
            }
        }

        /// signatures that must not open the ciphertext
        pub fn enc_c13_wrong_sigs(s: &mut Search, rng: &mut Prng, k: &RScalar, scheme: u8, m: &[u8], idb: &[u8], ct: &TimeCryptCiphertext<C>) {
            let sk = sk_of(k);
            let det = enc_c13_det(k, scheme, m, idb, ct);
            let id = format!("{}|{}|{}|{}", enc_impl(), gen::hs(k), scheme, &gen::hx(&sha256(&Vec::<u8>::from(ct)))[..16]);
            let mut cands: Vec<(&str, String, Signature<C>)> = vec![];
            // other identifiers
            let mut ids2: Vec<Vec<u8>> = vec![];
            let mut a = idb.to_vec();
            a.push(0);
            ids2.push(a);
            if idb.is_empty() {
                ids2.push(b"x".to_vec());
            } else {
                ids2.push(vec![]);
                ids2.push(idb[..idb.len() - 1].to_vec());
                let mut b = idb.to_vec();
                let l = b.len();
                b[l - 1] ^= 1;
                ids2.push(b);
                let mut c = idb.to_vec();
                c[0] ^= 0x80;
                ids2.push(c);
            }
            for i2 in ids2 {
                if i2 == idb {
                    continue;
                }
                if let Ok(Ok(sg)) = enc_catch(|| sk.sign(scheme_of(scheme), &i2)) {
                    cands.push(("signature_over_other_id_gives_nothing", format!("id:{}", enc_hx(&i2)), sg));
                }
            }
            // other keys
            for wk in [k + RScalar::ONE, -*k, rng.scalar(), rng.scalar()] {
                if wk == *k || wk == RScalar::ZERO {
                    continue;
                }
                if let Ok(Ok(sg)) = enc_catch(|| sk_of(&wk).sign(scheme_of(scheme), idb)) {
                    cands.push(("signature_by_other_key_gives_nothing", format!("sk:{}", gen::hs(&wk)), sg));
                }
            }
            // other schemes: honestly signed under them, and the right point under their label
            for other_scheme in 0..3u8 {
                if other_scheme == scheme {
                    continue;
                }
                if let Ok(Ok(sg)) = enc_catch(|| sk.sign(scheme_of(other_scheme), idb)) {
                    cands.push(("signature_under_other_scheme_gives_nothing", format!("signed:{}", gen::SCH[other_scheme as usize]), sg));
                }
                if let Ok(Ok(sg)) = enc_catch(|| sk.sign(scheme_of(scheme), idb)) {
                    cands.push(("signature_under_other_scheme_gives_nothing", format!("relabelled:{}", gen::SCH[other_scheme as usize]), enc_wrap_sig(other_scheme, *sg.as_raw_value())));
                }
                let raw = <C as HashToPoint>::hash_to_point(idb, enc_sig_tag(G1, scheme)) * sk.0;
                cands.push(("signature_under_other_scheme_gives_nothing", format!("raw_relabelled:{}", gen::SCH[other_scheme as usize]), enc_wrap_sig(other_scheme, raw)));
            }
            // identity signature under every label
            for l in 0..3u8 {
                cands.push(("identity_signature_gives_nothing", format!("identity:{}", gen::SCH[l as usize]), enc_wrap_sig(l, <C as Pairing>::Signature::identity())));
            }
            for (class, what, sg) in cands {
                let mut d = det.clone();
                d["signature"] = json!({"what": what, "bytes": gen::hx(&Vec::<u8>::from(&sg))});
                match enc_c13_dec(ct, &sg) {
                    Err(()) => s.case(&format!("{class}_panicked"), format!("{id}|{what}"), false, d),
                    Ok(o) => {
                        d["observed"] = json!(enc_optj(&o));
                        s.case(class, format!("{id}|{what}"), o.is_none(), d);
                    }
                }
            }
        }

        /// a signature recombined from threshold shares opens the ciphertext
        pub fn enc_c13_threshold(s: &mut Search, rng: &mut Prng, k: &RScalar, scheme: u8, m: &[u8], idb: &[u8], ct: &TimeCryptCiphertext<C>, t: usize, n: usize) {
            use rand_core::SeedableRng;
            if scheme == 1 {
                return; // shares cannot sign under message augmentation (documented)
            }
            let sk = sk_of(k);
            let mut seed = [0u8; 32];
            seed.copy_from_slice(&rng.bytes(32));
            let mut det = enc_c13_det(k, scheme, m, idb, ct);
            det["threshold"] = json!({"t": t, "n": n, "split_rng_chacha20_seed": gen::hx(&seed)});
            let key = format!("{}|{}|{}|{}|{}|{}|{}", enc_impl(), gen::hs(k), scheme, gen::hx(&sha256(&Vec::<u8>::from(ct))), t, n, gen::hx(&seed));
            let r = enc_catch(|| {
                let shares = sk.split_with_rng(t, n, rand_chacha::ChaCha20Rng::from_seed(seed)).map_err(|e| format!("split: {e:?}"))?;
                let sigs = shares.iter().map(|sh| sh.sign(scheme_of(scheme), idb)).collect::<Result<Vec<_>, _>>().map_err(|e| format!("share sign: {e:?}"))?;
                let mut out = vec![];
                // first t, last t, all n
                for (name, sub) in [("first_t", &sigs[..t]), ("last_t", &sigs[n - t..]), ("all_n", &sigs[..])] {
                    let sg = Signature::<C>::from_shares(sub).map_err(|e| format!("from_shares: {e:?}"))?;
                    out.push((name, enc_opt(ct.decrypt(&sg))));
                }
                Ok::<_, String>(out)
            });
            match r {
                Err(()) => s.case("threshold_signature_panicked", key, false, det),
                Ok(Err(e)) => {
                    det["observed"] = json!(e);
                    s.case("threshold_signature_opens", key, false, det);
                }
                Ok(Ok(out)) => {
                    for (name, o) in out {
                        let mut d = det.clone();
                        d["subset"] = json!(name);
                        d["observed"] = json!(enc_optj(&o));
                        s.case("threshold_signature_opens", format!("{key}|{name}"), o.as_deref() == Some(m), d);
                    }
                }
            }
        }

        pub fn c13(s: &mut Search, rng: &mut Prng, thorough: bool) {
            let keys = enc_keys(rng, thorough);
            let lens = enc_lens(thorough);
            let ids = enc_c13_ids(rng);
            let exhaustive_lens: Vec<usize> = if thorough { vec![0, 1, 2, 7, 30, 31, 32, 33, 40] } else { vec![0, 1, 30, 33] };
            let mut n = 0usize;
            for (ki, k) in keys.iter().enumerate() {
                let sk = sk_of(k);
                let pk = sk.public_key();
                for scheme in 0..3u8 {
                    for (li, &len) in lens.iter().enumerate() {
                        if ki >= 2 && (li + ki + scheme as usize) % 4 != 0 {
                            continue;
                        }
                        n += 1;
                        let m = gen::message(rng, len);
                        // the empty identifier with every (scheme, length class) of the first key
                        let idb = if ki == 0 && li % 3 == 0 { ids[0].clone() } else { ids[n % ids.len()].clone() };
                        let key = format!("{}|{}|{}|{}|{}|{}", enc_impl(), gen::hs(k), scheme, len, gen::hx(&sha256(&m)), gen::hx(&sha256(&idb)));
                        let base = json!({"impl": enc_impl(), "sk": gen::hs(k), "scheme": gen::SCH[scheme as usize], "msg_len": len, "msg": enc_hx(&m), "id": enc_hx(&idb)});
                        let sealed = enc_catch(|| (pk.encrypt_time_lock(scheme_of(scheme), &m, &idb), pk.encrypt_time_lock(scheme_of(scheme), &m, &idb)));
                        let (ct, other) = match sealed {
                            Err(()) => {
                                s.case("encrypt_time_lock_panicked", key, false, base);
                                continue;
                            }
                            Ok((Ok(a), Ok(b))) => (a, b),
                            Ok(_) => {
                                s.case("encrypt_time_lock_succeeds", key, false, base);
                                continue;
                            }
                        };
                        let det = enc_c13_det(k, scheme, &m, &idb, &ct);
                        let Ok(Ok(sig)) = enc_catch(|| sk.sign(scheme_of(scheme), &idb)) else {
                            s.case("sign_identifier_succeeds", key, false, det);
                            continue;
                        };
                        let r = enc_catch(|| {
                            let d1 = enc_opt(ct.decrypt(&sig));
                            let wire = Vec::<u8>::from(&ct);
                            let back = TimeCryptCiphertext::<C>::try_from(wire.as_slice()).ok();
                            let d2 = back.as_ref().and_then(|c| enc_opt(c.decrypt(&sig)));
                            (d1, back.as_ref() == Some(&ct), d2)
                        });
                        let Ok((d1, same, d2)) = r else {
                            s.case("honest_decrypt_panicked", key, false, det);
                            continue;
                        };
                        let mut d = det.clone();
                        d["signature"] = json!(gen::hx(&Vec::<u8>::from(&sig)));
                        d["observed"] = json!({"decrypt": enc_optj(&d1), "bytes_round_trip_equal": same, "decrypt_after_bytes": enc_optj(&d2)});
                        let opens = d1.as_deref() == Some(&m[..]);
                        s.case("signature_over_id_opens", key.clone(), opens, d.clone());
                        s.case("byte_encoding_preserves_ciphertext_and_outcome", key.clone(), same && d2 == d1, d.clone());
                        s.case("fresh_ciphertexts_differ", key.clone(), other != ct, d);

                        if ki < 3 && (li + scheme as usize) % 3 == 0 {
                            let (t, nn) = [(2usize, 3usize), (3, 5), (2, 2), (4, 7)][(li + ki) % 4];
                            enc_c13_threshold(s, rng, k, scheme, &m, &idb, &ct, t, nn);
                        }
                        if ki < 3 && (li + scheme as usize + ki) % 3 == 1 {
                            enc_c13_wrong_sigs(s, rng, k, scheme, &m, &idb, &ct);
                        }
                        // alterations, opened with the honest signature; if that does not open the
                        // unaltered ciphertext (then the round trip above has already failed), with the
                        // key the construction documents, sk * H(id, tag), so that the checks stay meaningful
                        let exhaustive = exhaustive_lens.contains(&len) && ki == 0 && (thorough || (li + scheme as usize) % 3 == 0 || len == 0 && scheme == 0);
                        let sampled = !exhaustive && ki < 2 && (li + scheme as usize + ki) % (if thorough { 5 } else { 7 }) == 1;
                        if exhaustive || sampled {
                            let (sg, kind) = if opens {
                                (sig, "sk.sign(scheme, id)")
                            } else {
                                (enc_wrap_sig(scheme, <C as HashToPoint>::hash_to_point(&idb, enc_sig_tag(G1, scheme)) * sk.0), "sk * hash_to_point(id, tag) (honest signature does not open)")
                            };
                            if enc_c13_dec(&ct, &sg).ok().flatten().as_deref() == Some(&m[..]) {
                                enc_c13_alter(s, rng, k, scheme, &m, &idb, &ct, &other, &sg, kind, exhaustive);
                            } else {
                                s.case("construction_key_opens", key, false, det);
                            }
                        }
                    }
                }
            }
        }
    };
}
macro_rules! search_enc_c18 {
    () => {
        /// fixed answers of the reference's own framing rules (the reference is the fixed point)
        pub fn enc_c18_self_check(s: &mut Search) {
            let leb: [(u64, &[u8]); 8] = [(0, &[0]), (1, &[1]), (127, &[0x7f]), (128, &[0x80, 1]), (300, &[0xac, 2]), (16383, &[0xff, 0x7f]), (16384, &[0x80, 0x80, 1]), (65536, &[0x80, 0x80, 4])];
            for (n, b) in leb {
                let ok = enc_leb128(n) == b && enc_unleb128(b) == Some((n, b.len()));
                s.case("reference_length_prefix_known_answer", format!("{}|{n}", enc_impl()), ok, json!({"n": n, "expected": gen::hx(b), "got": gen::hx(&enc_leb128(n))}));
            }
            let f0 = enc_frame(b"");
            let f31 = enc_frame(&[7u8; 31]);
            let f5 = enc_frame(b"hello");
            let ok = f0 == vec![0u8; 32] && f31.len() == 32 && f31[0] == 31 && enc_frame(&[7u8; 32]).len() == 33 && f5[..6] == [5, b'h', b'e', b'l', b'l', b'o'] && f5[6..] == [0u8; 26]
                && enc_unframe(&f5).as_deref() == Some(&b"hello"[..]);
            s.case("reference_framing_known_answer", enc_impl().to_string(), ok, json!({}));
        }

        pub fn enc_c18_signcrypt(s: &mut Search, rng: &mut Prng, k: &RScalar, scheme: u8, m: &[u8]) {
            let sk = sk_of(k);
            let pk = sk.public_key();
            let pkb = Vec::<u8>::from(&pk);
            let seed = rng.bytes(32);
            let key = format!("{}|{}|{}|{}|{}", enc_impl(), gen::hs(k), scheme, gen::hx(&sha256(m)), gen::hx(&seed));
            let mut det = json!({"impl": enc_impl(), "sk": gen::hs(k), "scheme": gen::SCH[scheme as usize], "msg_len": m.len(), "msg": enc_hx(m), "reference_seed": gen::hx(&seed)});
            // ---- reference seals, library opens (public fields and byte decoder)
            match enc_sc_seal(G1, &pkb, m, scheme, &seed) {
                None => s.case("reference_accepts_library_public_key", key.clone(), false, det.clone()),
                Some((u, v, w)) => {
                    det["ref_ct"] = json!({"u": gen::hx(&u), "v": enc_hx(&v), "w": gen::hx(&w)});
                    let wire = enc_sc_wire(&u, &v, &w, scheme);
                    let r = enc_catch(|| {
                        let (Some(up), Some(wp)) = (enc_pk_pt(&u), enc_sig_pt(&w)) else { return Err("library rejects the reference's point encodings".to_string()) };
                        let ct = SignCryptCiphertext::<C> { u: up, v: v.clone(), w: wp, scheme: scheme_of(scheme) };
                        let ct_b = SignCryptCiphertext::<C>::try_from(wire.as_slice()).map_err(|e| format!("byte decoder: {e:?}"))?;
                        Ok((ct_b == ct, Vec::<u8>::from(&ct) == wire, bool::from(ct.is_valid()), enc_opt(ct.decrypt(&sk)), enc_opt(ct_b.decrypt(&sk)), enc_opt(sk.sign_decryption_key::<&[u8]>(&ct).decrypt(&ct))))
                    });
                    match r {
                        Err(()) => s.case("library_opens_reference_signcryption_panicked", key.clone(), false, det.clone()),
                        Ok(Err(e)) => {
                            let mut d = det.clone();
                            d["observed"] = json!(e);
                            s.case("library_decodes_reference_signcryption", key.clone(), false, d);
                        }
                        Ok(Ok((same, wire_same, valid, d1, d2, d3))) => {
                            let mut d = det.clone();
                            d["observed"] = json!({"decoded_equals_fields": same, "library_bytes_equal_reference_bytes": wire_same, "is_valid": valid, "decrypt": enc_optj(&d1), "decrypt_decoded": enc_optj(&d2), "decrypt_via_key": enc_optj(&d3)});
                            s.case("library_decodes_reference_signcryption", key.clone(), same && wire_same, d.clone());
                            s.case("library_validates_reference_signcryption", key.clone(), valid, d.clone());
                            s.case("library_opens_reference_signcryption", key.clone(), d1.as_deref() == Some(m) && d2.as_deref() == Some(m) && d3.as_deref() == Some(m), d);
                        }
                    }
                    // the reference agrees with itself (guards the reference)
                    let back = enc_sc_open(G1, k, &u, &v, &w, scheme);
                    s.case("reference_opens_reference_signcryption", key.clone(), back.as_ref().map(|x| x.0.as_slice()) == Some(m), det.clone());
                }
            }
            // ---- library seals, reference opens
            let Ok(ct) = enc_catch(|| pk.sign_crypt(scheme_of(scheme), m)) else {
                s.case("sign_crypt_panicked", key, false, det);
                return;
            };
            let (u, w) = (enc_pk_bytes(&ct.u), enc_sig_bytes(&ct.w));
            let mut d = det.clone();
            d["lib_ct"] = json!({"u": gen::hx(&u), "v": enc_hx(&ct.v), "w": gen::hx(&w)});
            let lib_wire = Vec::<u8>::from(&ct);
            s.case("library_signcryption_bytes_as_documented", key.clone(), lib_wire == enc_sc_wire(&u, &ct.v, &w, scheme), d.clone());
            s.case("reference_validates_library_signcryption", key.clone(), enc_sc_valid(G1, &u, &ct.v, &w, scheme), d.clone());
            // under every other tag the reference must refuse it (tags are pairwise distinct)
            let cross = (0..3u8).filter(|o| *o != scheme).any(|o| enc_sc_valid(G1, &u, &ct.v, &w, o));
            s.case("reference_refuses_library_signcryption_under_other_tag", key.clone(), !cross, d.clone());
            let opened = enc_sc_open(G1, k, &u, &ct.v, &w, scheme);
            d["observed"] = json!(opened.as_ref().map(|x| (enc_hx(&x.0), enc_hx(&x.1))));
            s.case("reference_opens_library_signcryption", key.clone(), opened.as_ref().map(|x| x.0.as_slice()) == Some(m), d.clone());
            // whole payload: prefix, message and zero padding exactly as documented
            s.case("library_signcryption_framing_as_documented", key, opened.as_ref().map(|x| x.1.clone()) == Some(enc_frame(m)), d);
        }

        pub fn enc_c18_timelock(s: &mut Search, rng: &mut Prng, k: &RScalar, scheme: u8, m: &[u8], idb: &[u8]) {
            let sk = sk_of(k);
            let pk = sk.public_key();
            let pkb = Vec::<u8>::from(&pk);
            // documented construction: under message augmentation the identifier that is hashed carries the
            // public-key prefix (so that SecretKey::sign(MessageAugmentation, id) is the opening key)
            let id_eff: Vec<u8> = if scheme == 1 { [pkb.as_slice(), idb].concat() } else { idb.to_vec() };
            let idb_raw = idb;
            let idb: &[u8] = id_eff.as_slice();
            let seed = rng.bytes(32);
            let key = format!("{}|{}|{}|{}|{}|{}", enc_impl(), gen::hs(k), scheme, gen::hx(&sha256(m)), gen::hx(&sha256(idb_raw)), gen::hx(&seed));
            let mut det = json!({"impl": enc_impl(), "sk": gen::hs(k), "scheme": gen::SCH[scheme as usize], "msg_len": m.len(), "msg": enc_hx(m), "id": enc_hx(idb_raw), "reference_seed": gen::hx(&seed)});
            // the opening key of the construction: sk * H(id, tag), under the scheme's label
            let keyb = enc_tl_key(G1, k, idb, scheme);
            det["opening_key"] = json!(gen::hx(&keyb));
            let Some(sig) = enc_sig_pt(&keyb).map(|p| enc_wrap_sig(scheme, p)) else {
                s.case("library_decodes_reference_opening_key", key, false, det);
                return;
            };
            // this IS the library's signature over the identifier, for all three schemes
            {
                let same = enc_catch(|| sk.sign(scheme_of(scheme), idb_raw).ok().map(|x| x == sig)).ok().flatten() == Some(true);
                s.case("library_signature_equals_reference_opening_key", key.clone(), same, det.clone());
            }
            // ---- reference seals, library opens
            match enc_tl_seal(G1, &pkb, m, idb, scheme, &seed) {
                None => s.case("reference_accepts_library_public_key", key.clone(), false, det.clone()),
                Some((u, v, w)) => {
                    det["ref_ct"] = json!({"u": gen::hx(&u), "v": gen::hx(&v), "w": enc_hx(&w)});
                    let wire = enc_tl_wire(&u, &v, &w, scheme);
                    let r = enc_catch(|| {
                        let Some(up) = enc_pk_pt(&u) else { return Err("library rejects the reference's point encoding".to_string()) };
                        let mut v32 = [0u8; 32];
                        v32.copy_from_slice(&v);
                        let ct = TimeCryptCiphertext::<C> { u: up, v: v32, w: w.clone(), scheme: scheme_of(scheme) };
                        let ct_b = TimeCryptCiphertext::<C>::try_from(wire.as_slice()).map_err(|e| format!("byte decoder: {e:?}"))?;
                        Ok((ct_b == ct, Vec::<u8>::from(&ct) == wire, enc_opt(ct.decrypt(&sig)), enc_opt(ct_b.decrypt(&sig))))
                    });
                    match r {
                        Err(()) => s.case("library_opens_reference_time_lock_panicked", key.clone(), false, det.clone()),
                        Ok(Err(e)) => {
                            let mut d = det.clone();
                            d["observed"] = json!(e);
                            s.case("library_decodes_reference_time_lock", key.clone(), false, d);
                        }
                        Ok(Ok((same, wire_same, d1, d2))) => {
                            let mut d = det.clone();
                            d["observed"] = json!({"decoded_equals_fields": same, "library_bytes_equal_reference_bytes": wire_same, "decrypt": enc_optj(&d1), "decrypt_decoded": enc_optj(&d2)});
                            s.case("library_decodes_reference_time_lock", key.clone(), same && wire_same, d.clone());
                            s.case("library_opens_reference_time_lock", key.clone(), d1.as_deref() == Some(m) && d2.as_deref() == Some(m), d);
                        }
                    }
                    let back = enc_tl_open(G1, &keyb, &u, &v, &w);
                    s.case("reference_opens_reference_time_lock", key.clone(), back.as_ref().map(|x| x.0.as_slice()) == Some(m), det.clone());
                }
            }
            // ---- library seals, reference opens, then re-derives the whole ciphertext from alpha
            let ct = match enc_catch(|| pk.encrypt_time_lock(scheme_of(scheme), m, idb_raw)) {
                Ok(Ok(c)) => c,
                _ => {
                    s.case("encrypt_time_lock_succeeds", key, false, det);
                    return;
                }
            };
            let u = enc_pk_bytes(&ct.u);
            let mut d = det.clone();
            d["lib_ct"] = json!({"u": gen::hx(&u), "v": gen::hx(&ct.v), "w": enc_hx(&ct.w)});
            s.case("library_time_lock_bytes_as_documented", key.clone(), Vec::<u8>::from(&ct) == enc_tl_wire(&u, &ct.v, &ct.w, scheme), d.clone());
            let opened = enc_tl_open(G1, &keyb, &u, &ct.v, &ct.w);
            d["observed"] = json!(opened.as_ref().map(|x| (enc_hx(&x.0), gen::hx(&x.1), enc_hx(&x.2))));
            s.case("reference_opens_library_time_lock", key.clone(), opened.as_ref().map(|x| x.0.as_slice()) == Some(m), d.clone());
            if let Some((_, al, payload)) = opened {
                s.case("library_time_lock_framing_as_documented", key.clone(), payload == enc_frame(m), d.clone());
                let mut a32 = [0u8; 32];
                a32.copy_from_slice(&al);
                let alpha: Option<RScalar> = RScalar::from_le_bytes(&a32).into();
                let again = alpha.and_then(|a| enc_tl_seal_alpha(G1, &pkb, m, idb, scheme, &a));
                d["reference_reseal"] = json!(again.as_ref().map(|x| (gen::hx(&x.0), gen::hx(&x.1), enc_hx(&x.2))));
                s.case("reference_reseal_from_alpha_equals_library_time_lock", key.clone(), again == Some((u.clone(), ct.v.to_vec(), ct.w.clone())), d.clone());
            }
            // keys derived under another tag or identifier do not open it in the reference
            let mut wrong = false;
            for o in 0..3u8 {
                if o != scheme {
                    wrong |= enc_tl_open(G1, &enc_tl_key(G1, k, idb, o), &u, &ct.v, &ct.w).is_some();
                }
            }
            let mut id2 = idb.to_vec();
            id2.push(b'.');
            wrong |= enc_tl_open(G1, &enc_tl_key(G1, k, &id2, scheme), &u, &ct.v, &ct.w).is_some();
            s.case("reference_refuses_library_time_lock_under_other_tag_or_id", key, !wrong, d);
        }

        pub fn enc_c18_pok(s: &mut Search, rng: &mut Prng, k: &RScalar, scheme: u8, m: &[u8]) {
            let sk = sk_of(k);
            let pk = sk.public_key();
            let pkb = Vec::<u8>::from(&pk);
            let now = std::time::SystemTime::now().duration_since(std::time::UNIX_EPOCH).map(|d| d.as_millis() as u64).unwrap_or(0);
            let ts = [0u64, 1, 255, 256, 0x0102030405060708, now, u64::MAX - 1, u64::MAX, rng.next()];
            let x = rng.scalar();
            let det = json!({"impl": enc_impl(), "sk": gen::hs(k), "scheme": gen::SCH[scheme as usize], "msg": enc_hx(m), "x": gen::hs(&x)});
            // challenge derivation on arbitrary commitments
            for (i, t) in ts.iter().enumerate() {
                let ub = gen::enc_sig(G1, &if i % 2 == 0 { rng.scalar() } else { RScalar::from(i as u64) });
                let key = format!("{}|{}|{}", enc_impl(), gen::hx(&ub), t);
                let mut d = json!({"impl": enc_impl(), "u": gen::hx(&ub), "t": t});
                let y_ref = enc_pok_y(&ub, *t);
                let r = enc_catch(|| enc_sig_pt(&ub).map(|p| enc_ref_scalar(&<C as BlsSignatureProof>::compute_y(p, *t))));
                match r {
                    Err(()) => s.case("pok_challenge_panicked", key, false, d),
                    Ok(y_lib) => {
                        d["observed"] = json!({"library": y_lib.map(|y| gen::hs(&y)), "reference": gen::hs(&y_ref)});
                        s.case("pok_challenge_equals_reference", key, y_lib == Some(y_ref), d);
                    }
                }
            }
            // reference proves, library verifies (no timeout: the timestamp is arbitrary)
            for t in [0u64, now, 0x0102030405060708] {
                let key = format!("{}|{}|{}|{}|{}|{}", enc_impl(), gen::hs(k), scheme, gen::hx(&sha256(m)), gen::hs(&x), t);
                let (ub, vb) = enc_pok_prove(G1, k, m, scheme, &x, t);
                let mut d = det.clone();
                d["t"] = json!(t);
                d["ref_proof"] = json!({"u": gen::hx(&ub), "v": gen::hx(&vb)});
                let r = enc_catch(|| {
                    let (Some(u), Some(v)) = (enc_sig_pt(&ub), enc_sig_pt(&vb)) else { return Err("decode".to_string()) };
                    let proof = match scheme {
                        0 => ProofOfKnowledge::<C>::Basic { u, v },
                        1 => ProofOfKnowledge::<C>::MessageAugmentation { u, v },
                        _ => ProofOfKnowledge::<C>::ProofOfPossession { u, v },
                    };
                    let p = ProofOfKnowledgeTimestamp::<C> { proof, timestamp: t };
                    // byte layout: variant tag, u, v, timestamp as 8 little-endian bytes
                    let mut wire = vec![scheme];
                    wire.extend_from_slice(&ub);
                    wire.extend_from_slice(&vb);
                    wire.extend_from_slice(&t.to_le_bytes());
                    let layout = Vec::<u8>::from(&p) == wire;
                    p.verify(pk, m, None).map_err(|e| format!("{e:?}"))?;
                    // and a proof with a shifted timestamp must not verify
                    let q = ProofOfKnowledgeTimestamp::<C> { proof, timestamp: t ^ 1 };
                    Ok((layout, q.verify(pk, m, None).is_err()))
                });
                match r {
                    Err(()) => s.case("library_verifies_reference_pok_panicked", key, false, d),
                    Ok(Err(e)) => {
                        d["observed"] = json!(e);
                        s.case("library_verifies_reference_pok", key, false, d);
                    }
                    Ok(Ok((layout, shifted_rejected))) => {
                        s.case("library_verifies_reference_pok", key.clone(), true, d.clone());
                        s.case("library_pok_bytes_as_documented", key.clone(), layout, d.clone());
                        s.case("library_rejects_reference_pok_with_other_timestamp", key, shifted_rejected, d);
                    }
                }
            }
            // library proves (for the signature sk * H(msg, tag)), reference verifies
            let key = format!("{}|{}|{}|{}", enc_impl(), gen::hs(k), scheme, gen::hx(&sha256(m)));
            let sigb = enc_tl_key(G1, k, m, scheme);
            let r = enc_catch(|| {
                let sp = enc_sig_pt(&sigb).ok_or("decode".to_string())?;
                let p = ProofOfKnowledgeTimestamp::<C>::generate(m, enc_wrap_sig(scheme, sp)).map_err(|e| format!("{e:?}"))?;
                let (u, v) = match p.proof {
                    ProofOfKnowledge::Basic { u, v } | ProofOfKnowledge::MessageAugmentation { u, v } | ProofOfKnowledge::ProofOfPossession { u, v } => (u, v),
                };
                Ok::<_, String>((enc_sig_bytes(&u), enc_sig_bytes(&v), p.timestamp))
            });
            match r {
                Err(()) => s.case("library_pok_generate_panicked", key, false, det),
                Ok(Err(e)) => {
                    let mut d = det.clone();
                    d["observed"] = json!(e);
                    s.case("library_pok_generate_succeeds", key, false, d);
                }
                Ok(Ok((ub, vb, t))) => {
                    let mut d = det.clone();
                    d["lib_proof"] = json!({"u": gen::hx(&ub), "v": gen::hx(&vb), "t": t});
                    s.case("reference_verifies_library_pok", key.clone(), enc_pok_verify(G1, &pkb, m, scheme, &ub, &vb, t), d.clone());
                    s.case("reference_rejects_library_pok_with_other_timestamp", key, !enc_pok_verify(G1, &pkb, m, scheme, &ub, &vb, t.wrapping_add(1)), d);
                }
            }
        }

        pub fn enc_c18_elgamal(s: &mut Search, rng: &mut Prng, k: &RScalar, msg_scalar: &RScalar) {
            let sk = sk_of(k);
            let pk = sk.public_key();
            let pkb = Vec::<u8>::from(&pk);
            let (b, rr) = (rng.scalar(), rng.scalar());
            let key = format!("{}|{}|{}|{}|{}", enc_impl(), gen::hs(k), gen::hs(msg_scalar), gen::hs(&b), gen::hs(&rr));
            let det = json!({"impl": enc_impl(), "sk": gen::hs(k), "message_scalar": gen::hs(msg_scalar), "blinder": gen::hs(&b), "nonce": gen::hs(&rr)});
            let hgen = enc_eg_generator(G1);
            // generator derivation
            let g_lib = enc_catch(|| enc_pk_bytes(&<C as BlsElGamal>::message_generator()));
            s.case("elgamal_generator_equals_reference", enc_impl().to_string(), g_lib == Ok(hgen.encode()), json!({"impl": enc_impl(), "reference": gen::hx(&hgen.encode()), "library": g_lib.ok().map(|x| gen::hx(&x))}));
            let expect_pt = hgen.mul(msg_scalar).encode();
            // ---- reference proves, library verifies and decrypts
            if let Some((c1, c2, zm, zb, c)) = enc_eg_prove(G1, &pkb, msg_scalar, &b, &rr) {
                let mut d = det.clone();
                d["ref_proof"] = json!({"c1": gen::hx(&c1), "c2": gen::hx(&c2), "message_proof": gen::hs(&zm), "blinder_proof": gen::hs(&zb), "challenge": gen::hs(&c)});
                let wire = enc_eg_wire(&c1, &c2, &zm, &zb, &c);
                let r = enc_catch(|| {
                    let (Some(p1), Some(p2)) = (enc_pk_pt(&c1), enc_pk_pt(&c2)) else { return Err("decode".to_string()) };
                    let p = ElGamalProof::<C> { ciphertext: ElGamalCiphertext { c1: p1, c2: p2 }, message_proof: enc_lib_scalar(&zm), blinder_proof: enc_lib_scalar(&zb), challenge: enc_lib_scalar(&c) };
                    let pb = ElGamalProof::<C>::try_from(wire.as_slice()).map_err(|e| format!("byte decoder: {e:?}"))?;
                    let layout = pb == p && Vec::<u8>::from(&p) == wire;
                    p.verify(pk).map_err(|e| format!("verify: {e:?}"))?;
                    let pt = p.verify_and_decrypt(&sk).map_err(|e| format!("verify_and_decrypt: {e:?}"))?;
                    let plain = p.ciphertext.decrypt(&sk);
                    // any other challenge value must be refused
                    let mut q = p;
                    q.challenge += Scalar::ONE;
                    Ok((layout, enc_pk_bytes(&pt), enc_pk_bytes(&plain), q.verify(pk).is_err()))
                });
                match r {
                    Err(()) => s.case("library_verifies_reference_elgamal_proof_panicked", key.clone(), false, d),
                    Ok(Err(e)) => {
                        d["observed"] = json!(e);
                        s.case("library_verifies_reference_elgamal_proof", key.clone(), false, d);
                    }
                    Ok(Ok((layout, pt, plain, other_refused))) => {
                        d["observed"] = json!({"decrypted": gen::hx(&pt), "expected": gen::hx(&expect_pt)});
                        s.case("library_verifies_reference_elgamal_proof", key.clone(), true, d.clone());
                        s.case("library_elgamal_proof_bytes_as_documented", key.clone(), layout, d.clone());
                        s.case("library_decrypts_reference_elgamal", key.clone(), pt == expect_pt && plain == expect_pt, d.clone());
                        s.case("library_refuses_reference_elgamal_proof_with_other_challenge", key.clone(), other_refused, d);
                    }
                }
            } else {
                s.case("reference_accepts_library_public_key", key.clone(), false, det.clone());
            }
            // ---- library proves, reference recomputes the challenge from the public components
            let r = enc_catch(|| pk.encrypt_key_el_gamal_with_proof(&SecretKey::<C>(enc_lib_scalar(msg_scalar))).map_err(|e| format!("{e:?}")));
            match r {
                Err(()) => s.case("library_elgamal_prove_panicked", key, false, det),
                Ok(Err(e)) => {
                    let mut d = det.clone();
                    d["observed"] = json!(e);
                    s.case("library_elgamal_prove_succeeds", key, false, d);
                }
                Ok(Ok(p)) => {
                    let (c1, c2) = (enc_pk_bytes(&p.ciphertext.c1), enc_pk_bytes(&p.ciphertext.c2));
                    let (zm, zb, c) = (enc_ref_scalar(&p.message_proof), enc_ref_scalar(&p.blinder_proof), enc_ref_scalar(&p.challenge));
                    let mut d = det.clone();
                    d["lib_proof"] = json!({"c1": gen::hx(&c1), "c2": gen::hx(&c2), "message_proof": gen::hs(&zm), "blinder_proof": gen::hs(&zb), "challenge": gen::hs(&c)});
                    let c_ref = enc_eg_recompute(G1, &pkb, &c1, &c2, &zm, &zb, &c);
                    d["observed"] = json!({"reference_challenge": c_ref.map(|x| gen::hs(&x))});
                    s.case("reference_challenge_equals_library_elgamal_challenge", key.clone(), c_ref == Some(c), d.clone());
                    s.case("library_elgamal_proof_bytes_as_documented", format!("{key}|lib"), Vec::<u8>::from(&p) == enc_eg_wire(&c1, &c2, &zm, &zb, &c), d.clone());
                    // reference decryption: c2 - sk*c1 == m * Hgen
                    let dec = match (EncPt::decode(!G1, &c1), EncPt::decode(!G1, &c2)) {
                        (Some(a), Some(bb)) => Some(bb.add(&a.mul(k).neg()).encode()),
                        _ => None,
                    };
                    s.case("reference_decrypts_library_elgamal", key, dec == Some(expect_pt), d);
                }
            }
        }

        pub fn c18(s: &mut Search, rng: &mut Prng, thorough: bool) {
            enc_c18_self_check(s);
            let mut keys = vec![RScalar::ONE, -RScalar::ONE];
            for _ in 0..(if thorough { 6 } else { 2 }) {
                keys.push(rng.scalar());
            }
            let mut lens = vec![0usize, 31, 32, 33, 200];
            if thorough {
                lens.extend_from_slice(&[1, 30, 127, 128, 16383, 16384, 65536]);
            }
            let ids = enc_c13_ids(rng);
            let mut n = 0usize;
            for (ki, k) in keys.iter().enumerate() {
                for scheme in 0..3u8 {
                    for (li, &len) in lens.iter().enumerate() {
                        if ki >= 2 && (li + ki + scheme as usize) % 3 != 0 {
                            continue;
                        }
                        n += 1;
                        let m = gen::message(rng, len);
                        enc_c18_signcrypt(s, rng, k, scheme, &m);
                        // every identifier class (incl. empty) with the first key, rotating afterwards
                        if ki == 0 && li < 2 {
                            for idb in &ids {
                                enc_c18_timelock(s, rng, k, scheme, &m, idb);
                            }
                        } else {
                            enc_c18_timelock(s, rng, k, scheme, &m, &ids[n % ids.len()]);
                        }
                        if li < 2 || thorough {
                            enc_c18_pok(s, rng, k, scheme, &m);
                        }
                    }
                }
                let mut scalars = vec![RScalar::ONE, -RScalar::ONE, rng.scalar()];
                if thorough {
                    scalars.extend(gen::edge_scalars());
                    scalars.push(rng.scalar());
                }
                for ms in scalars {
                    enc_c18_elgamal(s, rng, k, &ms);
                }
            }
        }
    };
}
