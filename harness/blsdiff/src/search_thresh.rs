//! Threshold / proof-of-knowledge searches: C08 C10 C12 C14
//!
//! Plain helpers (no dependency on the implementation type) live outside the macro and are
//! reached as `crate::search_thresh::name`; everything that mentions `C` is inside the macro.
use crate::gen::Prng;
use crate::refs::RScalar;
use crate::search::Search;
use serde_json::Value;

/// record the outcome of a caught call: a panic is `<what>_panicked` (violation), otherwise
/// `class` with the verdict of `pred`
pub fn rec<T>(
    s: &mut Search,
    class: &str,
    what: &str,
    key: &str,
    det: &Value,
    r: Result<T, ()>,
    pred: impl FnOnce(&T) -> bool,
) -> Option<T> {
    match r {
        Err(()) => {
            s.case(&format!("{what}_panicked"), format!("{class}|{key}"), false, det.clone());
            None
        }
        Ok(v) => {
            let ok = pred(&v);
            s.case(class, key.to_string(), ok, det.clone());
            Some(v)
        }
    }
}

/// `base` extended with the fields of `extra` (both objects)
pub fn jmerge(base: &Value, extra: Value) -> Value {
    let mut o = base.clone();
    if let (Some(m), Value::Object(e)) = (o.as_object_mut(), extra) {
        for (k, v) in e {
            m.insert(k, v);
        }
    }
    o
}

pub fn shuffle<T>(rng: &mut Prng, v: &mut [T]) {
    for i in (1..v.len()).rev() {
        let j = rng.below(i as u64 + 1) as usize;
        v.swap(i, j);
    }
}

/// every subset of {0..n-1} with at least `min` elements, each in a random order, in random sequence
pub fn subsets(rng: &mut Prng, n: usize, min: usize) -> Vec<Vec<usize>> {
    assert!(n <= 16);
    let mut out = vec![];
    for mask in 0u32..(1u32 << n) {
        if (mask.count_ones() as usize) < min {
            continue;
        }
        let mut v: Vec<usize> = (0..n).filter(|i| mask >> i & 1 == 1).collect();
        shuffle(rng, &mut v);
        out.push(v);
    }
    shuffle(rng, &mut out);
    out
}

/// `k` distinct indices below `n`, random order
pub fn sample_subset(rng: &mut Prng, n: usize, k: usize) -> Vec<usize> {
    let mut all: Vec<usize> = (0..n).collect();
    shuffle(rng, &mut all);
    all.truncate(k.min(n));
    all
}

/// a sparse choice of subsets for a large (t, n): sizes around the threshold, the full set, size 2
pub fn sampled_subsets(rng: &mut Prng, t: usize, n: usize, extra: usize) -> Vec<Vec<usize>> {
    let mut sizes = vec![t, n, 2];
    if t + 1 <= n {
        sizes.push(t + 1);
    }
    if t > 2 {
        sizes.push(t - 1);
    }
    for _ in 0..extra {
        sizes.push(t + rng.below((n - t + 1) as u64) as usize);
        if t > 2 {
            sizes.push(2 + rng.below((t - 2) as u64) as usize);
        }
    }
    sizes.sort();
    sizes.dedup();
    let mut out: Vec<Vec<usize>> = sizes.into_iter().filter(|&k| k >= 2 && k <= n).map(|k| sample_subset(rng, n, k)).collect();
    // one subset in ascending order as well (the order the dealer hands them out)
    let mut asc = sample_subset(rng, n, t);
    asc.sort();
    out.push(asc);
    out
}

/// (t, n, exhaustive) grid of C08: exhaustive for small n, sparse samples up to (255,255)
pub fn grid(thorough: bool, nmax_quick: usize, nmax_thorough: usize, big_quick: &[(usize, usize)], big_thorough: &[(usize, usize)]) -> Vec<(usize, usize, bool)> {
    let nmax = if thorough { nmax_thorough } else { nmax_quick };
    let mut g = vec![];
    for n in 2..=nmax {
        for t in 2..=n {
            g.push((t, n, true));
        }
    }
    for &(t, n) in big_quick {
        g.push((t, n, false));
    }
    if thorough {
        for &(t, n) in big_thorough {
            g.push((t, n, false));
        }
    }
    g
}

/// k * P for a compressed point of the public-key group, computed with the reference backend
pub fn ref_pk_mul(sig_in_g1: bool, point: &[u8], k: &RScalar) -> Option<Vec<u8>> {
    use bls12_381_plus as r;
    use bls12_381_plus::group::Curve;
    if sig_in_g1 {
        let p = crate::refs::dec_g2(point)?;
        Some((r::G2Projective::from(p) * k).to_affine().to_compressed().to_vec())
    } else {
        let p = crate::refs::dec_g1(point)?;
        Some((r::G1Projective::from(p) * k).to_affine().to_compressed().to_vec())
    }
}

pub fn seed32(rng: &mut Prng) -> [u8; 32] {
    let mut a = [0u8; 32];
    a.copy_from_slice(&rng.bytes(32));
    a
}

pub fn chacha(seed: &[u8; 32]) -> rand_chacha::ChaCha20Rng {
    use rand_core::SeedableRng;
    rand_chacha::ChaCha20Rng::from_seed(*seed)
}

pub fn msg_field(m: &[u8]) -> String {
    if m.len() <= 96 {
        hex::encode(m)
    } else {
        format!("sha256:{}", hex::encode(crate::refs::sha256(m)))
    }
}

macro_rules! search_thresh {
    () => {
        search_thresh_common!();
        search_thresh_c08!();
        search_thresh_c10!();
        search_thresh_c12!();
        search_thresh_c14!();
    };
}

macro_rules! search_thresh_common {
    () => {
        pub type ThreshPk = <C as Pairing>::PublicKey;
        pub type ThreshSig = <C as Pairing>::Signature;

        pub fn thresh_imp() -> &'static str {
            if G1 { "g1" } else { "g2" }
        }

        pub fn thresh_sigshare_scheme(x: &SignatureShare<C>) -> u8 {
            match x {
                SignatureShare::Basic(_) => 0,
                SignatureShare::MessageAugmentation(_) => 1,
                SignatureShare::ProofOfPossession(_) => 2,
            }
        }

        pub fn thresh_sig_scheme(x: &Signature<C>) -> u8 {
            match x {
                Signature::Basic(_) => 0,
                Signature::MessageAugmentation(_) => 1,
                Signature::ProofOfPossession(_) => 2,
            }
        }

        /// the same partial signature with another identifier
        pub fn thresh_sigshare_with_id(x: &SignatureShare<C>, id: u8) -> SignatureShare<C> {
            let mut inner = *x.as_raw_value();
            *blsful::vsss_rs::Share::identifier_mut(&mut inner) = id;
            match x {
                SignatureShare::Basic(_) => SignatureShare::Basic(inner),
                SignatureShare::MessageAugmentation(_) => SignatureShare::MessageAugmentation(inner),
                SignatureShare::ProofOfPossession(_) => SignatureShare::ProofOfPossession(inner),
            }
        }

        pub fn thresh_skshare_with_id(x: &SecretKeyShare<C>, id: u8) -> SecretKeyShare<C> {
            let mut y = x.clone();
            *blsful::vsss_rs::Share::identifier_mut(&mut y.0) = id;
            y
        }

        pub fn thresh_pkshare_with_id(x: &PublicKeyShare<C>, id: u8) -> PublicKeyShare<C> {
            let mut y = *x;
            *blsful::vsss_rs::Share::identifier_mut(&mut y.0) = id;
            y
        }

        pub fn thresh_share_id(x: &SecretKeyShare<C>) -> u8 {
            blsful::vsss_rs::Share::identifier(&x.0)
        }

        pub fn thresh_opt(o: subtle::CtOption<Vec<u8>>) -> Option<Vec<u8>> {
            o.into()
        }

        pub fn thresh_scalar(k: &RScalar) -> BScalar {
            bsc(&sc_be(k))
        }
    };
}

macro_rules! search_thresh_c08 {
    () => {
        /// C08: threshold shares recombine to exactly the whole-key results
        pub fn c08(s: &mut Search, rng: &mut Prng, thorough: bool) {
            let edges = gen::edge_scalars();
            let g = crate::search_thresh::grid(
                thorough,
                5,
                7,
                &[(2, 255), (128, 255), (255, 255), (3, 9), (9, 9)],
                &[(2, 8), (8, 8), (5, 16), (16, 16), (17, 32), (64, 64), (2, 128), (127, 128), (254, 255), (100, 200), (2, 254), (33, 100)],
            );
            for (gi, &(t, n, exhaustive)) in g.iter().enumerate() {
                let k = if gi % 2 == 0 { edges[(gi / 2) % edges.len()] } else { rng.scalar() };
                thresh_c08_one(s, rng, thorough, t, n, exhaustive, &k);
            }
            thresh_c08_params(s, rng, thorough);
        }

        fn thresh_c08_one(s: &mut Search, rng: &mut Prng, thorough: bool, t: usize, n: usize, exhaustive: bool, k: &RScalar) {
            use crate::search_thresh::{jmerge, rec};
            let imp = thresh_imp();
            let sk = sk_of(k);
            let pk = sk.public_key();
            let seed = crate::search_thresh::seed32(rng);
            let len = *rng.pick(&[0usize, 1, 32, 65, 200]);
            let msg = gen::message(rng, len);
            let base = json!({"impl": imp, "t": t, "n": n, "sk": gen::hs(k), "split_seed": gen::hx(&seed),
                              "split_rng": "ChaCha20Rng::from_seed(split_seed)", "msg": gen::hx(&msg)});
            let bkey = format!("{imp}|{t}|{n}|{}|{}", gen::hs(k), gen::hx(&seed[..8]));

            let r = catch(|| sk.split_with_rng(t, n, crate::search_thresh::chacha(&seed)));
            let shares = match rec(s, "split_succeeds", "split", &bkey, &base, r, |r| matches!(r, Ok(v) if v.len() == n)) {
                Some(Ok(v)) if v.len() == n => v,
                _ => return,
            };
            let ids: Vec<u8> = shares.iter().map(thresh_share_id).collect();

            // public key shares
            let mut pks: Vec<PublicKeyShare<C>> = Vec::with_capacity(n);
            for (i, sh) in shares.iter().enumerate() {
                let r = catch(|| sh.public_key());
                let det = jmerge(&base, json!({"participant": ids[i]}));
                match rec(s, "public_key_share_succeeds", "public_key_share", &format!("{bkey}|{i}"), &det, r, |r| r.is_ok()) {
                    Some(Ok(p)) => pks.push(p),
                    _ => return,
                }
            }

            // partial signatures (Basic, ProofOfPossession) and the whole-key signatures
            let schemes = [0u8, 2u8];
            let mut sigs: Vec<Vec<SignatureShare<C>>> = vec![];
            let mut whole: Vec<Signature<C>> = vec![];
            for &sc in &schemes {
                let w = match catch(|| sk.sign(scheme_of(sc), &msg)) {
                    Ok(Ok(w)) => w,
                    _ => return, // C01's business
                };
                whole.push(w);
                let mut v = Vec::with_capacity(n);
                for (i, sh) in shares.iter().enumerate() {
                    let r = catch(|| sh.sign(scheme_of(sc), &msg));
                    let det = jmerge(&base, json!({"participant": ids[i], "scheme": gen::SCH[sc as usize]}));
                    match rec(s, "partial_sign_succeeds", "partial_sign", &format!("{bkey}|{i}|{sc}"), &det, r,
                              |r| matches!(r, Ok(x) if thresh_sigshare_scheme(x) == sc)) {
                        Some(Ok(x)) if thresh_sigshare_scheme(&x) == sc => v.push(x),
                        _ => return,
                    }
                }
                sigs.push(v);
            }
            // message augmentation is refused for shares
            let aug_idx: Vec<usize> = if exhaustive { (0..n).collect() } else { crate::search_thresh::sample_subset(rng, n, 3) };
            for i in aug_idx {
                let sh = &shares[i];
                let r = catch(|| sh.sign(SignatureSchemes::MessageAugmentation, &msg));
                let det = jmerge(&base, json!({"participant": ids[i], "scheme": "aug"}));
                rec(s, "partial_sign_aug_is_error", "partial_sign", &format!("{bkey}|{i}"), &det, r, |r| r.is_err());
            }

            // each partial signature verifies against its own key share and no other
            let mut pairs: Vec<(usize, usize)> = vec![];
            if exhaustive {
                for i in 0..n {
                    for j in 0..n {
                        pairs.push((i, j));
                    }
                }
            } else {
                for _ in 0..(if thorough { 10 } else { 5 }) {
                    let i = rng.below(n as u64) as usize;
                    let j = (i + 1 + rng.below(n as u64 - 1) as usize) % n;
                    pairs.push((i, i));
                    pairs.push((i, j));
                }
                pairs.push((0, n - 1));
                pairs.push((n - 1, n - 1));
                pairs.sort();
                pairs.dedup();
            }
            for (si, &sc) in schemes.iter().enumerate() {
                for (pi, &(i, j)) in pairs.iter().enumerate() {
                    let (sg, pj) = (&sigs[si][i], &pks[j]);
                    let via_share = (pi + si) % 2 == 0;
                    let r = catch(|| if via_share { sg.verify(pj, &msg) } else { pj.verify(sg, &msg) });
                    let det = jmerge(&base, json!({"scheme": gen::SCH[sc as usize], "signer": ids[i], "key_share_of": ids[j],
                                                   "api": if via_share { "SignatureShare::verify" } else { "PublicKeyShare::verify" }}));
                    let key = format!("{bkey}|{sc}|{i}|{j}");
                    if i == j {
                        rec(s, "partial_sig_verifies_own_key_share", "partial_verify", &key, &det, r, |r| r.is_ok());
                    } else {
                        rec(s, "partial_sig_rejected_by_other_key_share", "partial_verify", &key, &det, r, |r| r.is_err());
                    }
                }
            }

            // subsets
            let mut subs = if exhaustive {
                crate::search_thresh::subsets(rng, n, 2)
            } else {
                crate::search_thresh::sampled_subsets(rng, t, n, if thorough { 3 } else { 1 })
            };
            if exhaustive && thorough {
                // a second, independent ordering of every subset
                subs.extend(crate::search_thresh::subsets(rng, n, 2));
            }
            let pk_bytes = Vec::<u8>::from(&pk);
            for sub in &subs {
                let sids: Vec<u8> = sub.iter().map(|&i| ids[i]).collect();
                let enough = sub.len() >= t;
                let det = jmerge(&base, json!({"subset_ids_in_order": sids, "subset_size": sub.len(), "at_least_t": enough}));
                let key = format!("{bkey}|{sids:?}");
                let ss: Vec<SecretKeyShare<C>> = sub.iter().map(|&i| shares[i].clone()).collect();
                let ps: Vec<PublicKeyShare<C>> = sub.iter().map(|&i| pks[i]).collect();

                let r = catch(|| SecretKey::<C>::combine(&ss));
                if enough {
                    rec(s, "combine_recovers_key", "combine", &key, &det, r, |r| matches!(r, Ok(x) if *x == sk));
                } else {
                    rec(s, "below_threshold_key_differs", "combine", &key, &det, r, |r| !matches!(r, Ok(x) if *x == sk));
                }
                let r = catch(|| PublicKey::<C>::from_shares(&ps));
                if enough {
                    rec(s, "public_key_from_shares_matches", "public_key_from_shares", &key, &det, r,
                        |r| matches!(r, Ok(x) if *x == pk && Vec::<u8>::from(x) == pk_bytes));
                } else {
                    rec(s, "below_threshold_public_key_differs", "public_key_from_shares", &key, &det, r, |r| !matches!(r, Ok(x) if *x == pk));
                }
                for (si, &sc) in schemes.iter().enumerate() {
                    let sg: Vec<SignatureShare<C>> = sub.iter().map(|&i| sigs[si][i]).collect();
                    let w = whole[si];
                    let wb = Vec::<u8>::from(&w);
                    let det = jmerge(&det, json!({"scheme": gen::SCH[sc as usize], "whole_key_signature": gen::hx(&wb)}));
                    let key = format!("{key}|{sc}");
                    let r = catch(|| Signature::<C>::from_shares(&sg));
                    if enough {
                        rec(s, "signature_from_shares_bytes_equal", "signature_from_shares", &key, &det, r, |r| {
                            matches!(r, Ok(x) if Vec::<u8>::from(x) == wb && thresh_sig_scheme(x) == sc && x.same_scheme(&w)
                                && x.as_raw_value().to_bytes().as_ref() == w.as_raw_value().to_bytes().as_ref())
                        });
                    } else {
                        rec(s, "below_threshold_signature_differs", "signature_from_shares", &key, &det, r,
                            |r| !matches!(r, Ok(x) if x.as_raw_value() == w.as_raw_value()));
                    }
                }
            }

            thresh_c08_errors(s, rng, &bkey, &base, &shares, &pks, &sigs);

            // the entropy-driven `split` gives shares with the same behaviour
            if exhaustive || t == 255 {
                let r = catch(|| {
                    let sh = sk.split(t, n)?;
                    let mut idx: Vec<usize> = (0..n).collect();
                    idx.reverse();
                    idx.truncate(t);
                    let sub: Vec<SecretKeyShare<C>> = idx.iter().map(|&i| sh[i].clone()).collect();
                    let ok_len = sh.len() == n;
                    Ok::<bool, BlsError>(ok_len && SecretKey::<C>::combine(&sub)? == sk)
                });
                rec(s, "split_with_entropy_recombines", "split", &bkey, &base, r, |r| matches!(r, Ok(true)));
            }
        }

        /// empty, single, duplicated, zero-identifier and mixed-scheme sets are errors
        fn thresh_c08_errors(
            s: &mut Search,
            rng: &mut Prng,
            bkey: &str,
            base: &serde_json::Value,
            shares: &[SecretKeyShare<C>],
            pks: &[PublicKeyShare<C>],
            sigs: &[Vec<SignatureShare<C>>],
        ) {
            use crate::search_thresh::{jmerge, rec};
            let n = shares.len();
            let a = rng.below(n as u64) as usize;
            let b = (a + 1 + rng.below(n as u64 - 1) as usize) % n;
            let ida = thresh_share_id(&shares[a]);
            let idb = thresh_share_id(&shares[b]);

            // index lists describing the malformed sets; usize::MAX-x are markers handled below
            // kind, list of (index, identifier override)
            let all: Vec<(usize, Option<u8>)> = (0..n).map(|i| (i, None)).collect();
            let mut sets: Vec<(&str, &str, Vec<(usize, Option<u8>)>)> = vec![
                ("empty_set_is_error", "empty", vec![]),
                ("single_share_is_error", "first", vec![(0, None)]),
                ("single_share_is_error", "random", vec![(a, None)]),
                ("duplicate_identifier_is_error", "same_share_twice", vec![(a, None), (a, None)]),
                ("duplicate_identifier_is_error", "a_b_a", vec![(a, None), (b, None), (a, None)]),
                ("duplicate_identifier_is_error", "other_value_same_identifier", vec![(a, None), (b, Some(ida))]),
                ("zero_identifier_is_error", "zeroed_a_with_b", vec![(a, Some(0)), (b, None)]),
                ("zero_identifier_is_error", "b_with_zeroed_a", vec![(b, None), (a, Some(0))]),
            ];
            // all shares, one of them duplicated at the end / one of them with identifier 0
            let mut v = all.clone();
            v.push((a, None));
            sets.push(("duplicate_identifier_is_error", "all_plus_repeat", v));
            let mut v = all.clone();
            v[b] = (b, Some(0));
            sets.push(("zero_identifier_is_error", "all_one_zeroed", v));
            let mut v = all.clone();
            v[b] = (b, Some(ida));
            sets.push(("duplicate_identifier_is_error", "all_one_relabelled", v));

            for (class, which, set) in &sets {
                let desc: Vec<String> = set.iter().map(|(i, o)| match o {
                    None => format!("share#{}", thresh_share_id(&shares[*i])),
                    Some(id) => format!("share#{} with identifier {}", thresh_share_id(&shares[*i]), id),
                }).collect();
                let ss: Vec<SecretKeyShare<C>> = set.iter().map(|(i, o)| match o { None => shares[*i].clone(), Some(id) => thresh_skshare_with_id(&shares[*i], *id) }).collect();
                let ps: Vec<PublicKeyShare<C>> = set.iter().map(|(i, o)| match o { None => pks[*i], Some(id) => thresh_pkshare_with_id(&pks[*i], *id) }).collect();
                let det = jmerge(base, json!({"malformed_set": which, "set": desc, "api": "SecretKey::combine"}));
                let r = catch(|| SecretKey::<C>::combine(&ss));
                rec(s, class, "combine", &format!("{bkey}|{which}|sk"), &det, r, |r| r.is_err());
                let det = jmerge(base, json!({"malformed_set": which, "set": desc, "api": "PublicKey::from_shares"}));
                let r = catch(|| PublicKey::<C>::from_shares(&ps));
                rec(s, class, "public_key_from_shares", &format!("{bkey}|{which}|pk"), &det, r, |r| r.is_err());
                for (si, sc) in [0u8, 2u8].iter().enumerate() {
                    let sg: Vec<SignatureShare<C>> = set.iter().map(|(i, o)| match o { None => sigs[si][*i], Some(id) => thresh_sigshare_with_id(&sigs[si][*i], *id) }).collect();
                    let det = jmerge(base, json!({"malformed_set": which, "set": desc, "api": "Signature::from_shares", "scheme": gen::SCH[*sc as usize]}));
                    let r = catch(|| Signature::<C>::from_shares(&sg));
                    rec(s, class, "signature_from_shares", &format!("{bkey}|{which}|sig{sc}"), &det, r, |r| r.is_err());
                }
            }

            // mixed-scheme signature shares (all identifiers distinct, enough shares)
            let mixes: Vec<(&str, Vec<(usize, usize)>)> = vec![
                ("basic_then_pop", vec![(0, a), (1, b)]),
                ("pop_then_basic", vec![(1, a), (0, b)]),
                ("all_basic_last_pop", (0..n).map(|i| (if i == n - 1 { 1 } else { 0 }, i)).collect()),
                ("all_pop_first_basic", (0..n).map(|i| (if i == 0 { 0 } else { 1 }, i)).collect()),
                ("all_basic_one_pop_inside", (0..n).map(|i| (if i == b { 1 } else { 0 }, i)).collect()),
            ];
            for (which, set) in &mixes {
                let sg: Vec<SignatureShare<C>> = set.iter().map(|&(si, i)| sigs[si][i]).collect();
                let desc: Vec<String> = set.iter().map(|&(si, i)| format!("{}#{}", ["basic", "pop"][si], thresh_share_id(&shares[i]))).collect();
                let det = jmerge(base, json!({"malformed_set": which, "set": desc, "api": "Signature::from_shares"}));
                let r = catch(|| Signature::<C>::from_shares(&sg));
                rec(s, "mixed_scheme_is_error", "signature_from_shares", &format!("{bkey}|{which}"), &det, r, |r| r.is_err());
            }
            // a share relabelled as message augmentation among Basic shares
            if n >= 2 {
                let mut sg: Vec<SignatureShare<C>> = (0..n).map(|i| sigs[0][i]).collect();
                sg[b] = SignatureShare::<C>::MessageAugmentation(*sigs[0][b].as_raw_value());
                let det = jmerge(base, json!({"malformed_set": "all_basic_one_relabelled_aug", "relabelled": idb, "api": "Signature::from_shares"}));
                let r = catch(|| Signature::<C>::from_shares(&sg));
                rec(s, "mixed_scheme_is_error", "signature_from_shares", &format!("{bkey}|relabel_aug"), &det, r, |r| r.is_err());
            }
        }

        /// parameters outside 2 <= t <= n <= 255
        fn thresh_c08_params(s: &mut Search, rng: &mut Prng, thorough: bool) {
            use crate::search_thresh::rec;
            let imp = thresh_imp();
            let mut bad: Vec<(usize, usize)> = vec![
                (0, 0), (0, 1), (1, 1), (0, 5), (1, 5), (1, 2), (1, 255), (1, 256), (0, 255),
                (3, 2), (2, 1), (2, 0), (6, 5), (255, 254), (256, 255), (300, 255), (usize::MAX, 2), (usize::MAX, 255),
                (2, 256), (3, 256), (255, 256), (256, 256), (2, 257), (2, 300), (256, 300), (2, 1000), (2, 65536),
                (2, usize::MAX), (usize::MAX, usize::MAX),
            ];
            if thorough {
                for _ in 0..20 {
                    let n = 256 + rng.below(2000) as usize;
                    let t = 2 + rng.below(n as u64 - 1) as usize;
                    bad.push((t, n));
                    let n2 = rng.below(256) as usize;
                    bad.push((n2 + 1 + rng.below(50) as usize, n2));
                }
            }
            let keys = [RScalar::ONE, rng.scalar()];
            for (ki, k) in keys.iter().enumerate() {
                let sk = sk_of(k);
                for &(t, n) in &bad {
                    let seed = crate::search_thresh::seed32(rng);
                    let t_s = if t == usize::MAX { "usize::MAX".to_string() } else { t.to_string() };
                    let n_s = if n == usize::MAX { "usize::MAX".to_string() } else { n.to_string() };
                    let det = json!({"impl": imp, "t": t_s, "n": n_s, "sk": gen::hs(k), "split_seed": gen::hx(&seed), "api": "split_with_rng"});
                    let r = catch(|| sk.split_with_rng(t, n, crate::search_thresh::chacha(&seed)).map(|v| v.len()));
                    rec(s, "split_out_of_range_is_error", "split", &format!("{imp}|{ki}|{t}|{n}|rng"), &det, r, |r| r.is_err());
                    if ki == 0 {
                        let det = json!({"impl": imp, "t": t_s, "n": n_s, "sk": gen::hs(k), "api": "split"});
                        let r = catch(|| sk.split(t, n).map(|v| v.len()));
                        rec(s, "split_out_of_range_is_error", "split", &format!("{imp}|{ki}|{t}|{n}|entropy"), &det, r, |r| r.is_err());
                    }
                }
            }
        }
    };
}

macro_rules! search_thresh_c10 {
    () => {
        pub struct ThreshTsCase {
            pub p: ProofOfKnowledgeTimestamp<C>,
            pub pk: PublicKey<C>,
            pub msg: Vec<u8>,
            pub det: serde_json::Value,
            pub key: String,
            pub base_ok: bool,
        }

        pub fn thresh_pok_parts(p: &ProofOfKnowledge<C>) -> (u8, ThreshSig, ThreshSig) {
            match p {
                ProofOfKnowledge::Basic { u, v } => (0, *u, *v),
                ProofOfKnowledge::MessageAugmentation { u, v } => (1, *u, *v),
                ProofOfKnowledge::ProofOfPossession { u, v } => (2, *u, *v),
            }
        }

        pub fn thresh_pok_make(sc: u8, u: ThreshSig, v: ThreshSig) -> ProofOfKnowledge<C> {
            match sc {
                0 => ProofOfKnowledge::Basic { u, v },
                1 => ProofOfKnowledge::MessageAugmentation { u, v },
                _ => ProofOfKnowledge::ProofOfPossession { u, v },
            }
        }

        pub fn thresh_commitment_scheme(c: &ProofCommitment<C>) -> u8 {
            match c {
                ProofCommitment::Basic(_) => 0,
                ProofCommitment::MessageAugmentation(_) => 1,
                ProofCommitment::ProofOfPossession(_) => 2,
            }
        }

        /// other messages derived from `m`
        pub fn thresh_other_msgs(rng: &mut Prng, m: &[u8]) -> Vec<(&'static str, Vec<u8>)> {
            let mut out: Vec<(&'static str, Vec<u8>)> = vec![];
            let mut a = m.to_vec();
            a.push(0);
            out.push(("appended_zero_byte", a));
            if !m.is_empty() {
                let mut b = m.to_vec();
                let bit = rng.below(8 * m.len() as u64) as usize;
                b[bit / 8] ^= 1 << (bit % 8);
                out.push(("bit_flipped", b));
                out.push(("last_byte_dropped", m[..m.len() - 1].to_vec()));
                if m.len() > 1 {
                    out.push(("empty", vec![]));
                }
            } else {
                out.push(("random_32_bytes", rng.bytes(32)));
            }
            out
        }

        /// C10: signature proofs of knowledge are complete, challenge-bound and time-bound
        pub fn c10(s: &mut Search, rng: &mut Prng, thorough: bool) {
            let edges = gen::edge_scalars();
            let mut keys: Vec<RScalar> = vec![edges[0], edges[2], edges[6]];
            if thorough {
                keys.extend_from_slice(&[edges[1], edges[3], edges[4], edges[5]]);
            }
            for _ in 0..(if thorough { 8 } else { 1 }) {
                keys.push(rng.scalar());
            }
            let lens: &[usize] = if thorough { &[0, 1, 31, 32, 33, 64, 127, 300, 4096] } else { &[0, 1, 32, 100] };
            let mut batch: Vec<ThreshTsCase> = vec![];
            let mut run = 0usize;
            for (ki, k) in keys.iter().enumerate() {
                let other = rng.scalar();
                for sc in 0..3u8 {
                    let nlen = if thorough { 3 } else { 1 };
                    for li in 0..nlen {
                        let len = lens[(run + li) % lens.len()];
                        let msg = gen::message(rng, len);
                        thresh_c10_run(s, rng, thorough, run, k, &other, sc, &msg, &mut batch);
                        run += 1;
                    }
                }
            }
            thresh_c10_finalize_mismatch(s, rng, &keys[keys.len() - 1]);
            thresh_c10_after_sleep(s, &batch, thorough);
        }

        fn thresh_c10_run(s: &mut Search, rng: &mut Prng, thorough: bool, run: usize, k: &RScalar, other: &RScalar, sc: u8,
                          msg: &[u8], batch: &mut Vec<ThreshTsCase>) {
            use crate::search_thresh::{jmerge, msg_field, rec};
            let imp = thresh_imp();
            let sk = sk_of(k);
            let pk = sk.public_key();
            let pk_other = sk_of(other).public_key();
            let sig = match catch(|| sk.sign(scheme_of(sc), msg)) {
                Ok(Ok(x)) => x,
                _ => return,
            };
            let base = json!({"impl": imp, "sk": gen::hs(k), "scheme": gen::SCH[sc as usize], "msg": msg_field(msg), "msg_len": msg.len()});
            let bkey = format!("{imp}|{}|{sc}|{}", gen::hs(k), gen::hx(&sha256(msg)));

            // ---- interactive protocol, every kind of challenge
            let hdata = rng.bytes(1 + (run % 40));
            let chals: Vec<(&str, ProofCommitmentChallenge<C>, serde_json::Value)> = vec![
                ("new", ProofCommitmentChallenge::<C>::new(), json!(null)),
                ("from_hash", ProofCommitmentChallenge::<C>::from_hash(&hdata), json!(gen::hx(&hdata))),
                ("one", ProofCommitmentChallenge::<C>(thresh_scalar(&RScalar::ONE)), json!(null)),
                ("r_minus_1", ProofCommitmentChallenge::<C>(thresh_scalar(&(-RScalar::ONE))), json!(null)),
                ("random_scalar", ProofCommitmentChallenge::<C>(thresh_scalar(&rng.scalar())), json!(null)),
                ("via_BlsSignature_new_proof_challenge", BlsSignature::<C>::new_proof_challenge(), json!(null)),
            ];
            let perturb_kind = run % chals.len();
            // for message augmentation: the same protocol run over (public key bytes || message),
            // which is what the signature is algebraically a signature of
            let mut pm = Vec::<u8>::from(&pk);
            pm.extend_from_slice(msg);
            let mut first_failed = false;
            for (ci, (cname, y, hd)) in chals.iter().enumerate() {
                let y = *y;
                let det0 = jmerge(&base, json!({"challenge_kind": cname, "challenge": gen::hx(&bsc_be(&y.0)), "challenge_hash_input": hd}));
                let key = format!("{bkey}|{cname}|{}", gen::hx(&bsc_be(&y.0)));
                let r = catch(|| ProofCommitment::<C>::generate(msg, sig));
                let Some(Ok((comm, x))) = rec(s, "pok_generate_succeeds", "pok_generate", &key, &det0, r,
                                               |r| matches!(r, Ok((c, _)) if thresh_commitment_scheme(c) == sc)) else { continue };
                let r = catch(|| comm.finalize(x, y, sig));
                let det1 = jmerge(&det0, json!({"commitment_secret_x": gen::hx(&bsc_be(&x.0))}));
                let Some(Ok(proof)) = rec(s, "pok_finalize_succeeds", "pok_finalize", &key, &det1, r,
                                          |r| matches!(r, Ok(p) if thresh_pok_parts(p).0 == sc)) else { continue };
                let (_, u, v) = thresh_pok_parts(&proof);
                let mut det = jmerge(&det1, json!({"u": hexpt(&u), "v": hexpt(&v)}));
                // the augmented-message variant (diagnostic + second base for the rejection checks)
                let mut aug_proof: Option<ProofOfKnowledge<C>> = None;
                if sc == 1 {
                    let r = catch(|| {
                        let (c2, x2) = ProofCommitment::<C>::generate(&pm, sig)?;
                        let p2 = c2.finalize(x2, y, sig)?;
                        let ok = p2.verify(pk, &pm, y).is_ok();
                        Ok::<_, BlsError>((p2, ok))
                    });
                    if let Ok(Ok((p2, ok))) = r {
                        det = jmerge(&det, json!({"same_protocol_over_pk_bytes_then_msg_verifies": ok}));
                        if ok {
                            aug_proof = Some(p2);
                        }
                    }
                }
                let r = catch(|| proof.verify(pk, msg, y));
                let complete = if first_failed {
                    // the same violation was already recorded for this (key, scheme, message)
                    matches!(r, Ok(Ok(())))
                } else {
                    let det = jmerge(&det, json!({"got": match &r { Ok(x) => fmt_unit(x), Err(()) => "panic".into() }}));
                    matches!(rec(s, "pok_complete", "pok_verify", &key, &det, r, |r| r.is_ok()), Some(Ok(())))
                };
                if !complete {
                    first_failed = true;
                }
                if ci == perturb_kind || thorough {
                    thresh_c10_perturb(s, rng, &key, &det, &proof, &pk, &pk_other, msg, &y, "as_generated");
                    if let Some(p2) = aug_proof {
                        let det = jmerge(&det, json!({"protocol_message": "pk_bytes||msg", "u": hexpt(&thresh_pok_parts(&p2).1), "v": hexpt(&thresh_pok_parts(&p2).2)}));
                        thresh_c10_perturb(s, rng, &format!("{key}|pm"), &det, &p2, &pk, &pk_other, &pm, &y, "pk_prefixed");
                    }
                }
            }

            // ---- timestamp variant
            let r = catch(|| ProofOfKnowledgeTimestamp::<C>::generate(msg, sig));
            let Some(Ok(p)) = rec(s, "ts_generate_succeeds", "ts_generate", &bkey, &base, r,
                                  |r| matches!(r, Ok(p) if thresh_pok_parts(&p.proof).0 == sc)) else { return };
            let (_, u, v) = thresh_pok_parts(&p.proof);
            let t = p.timestamp;
            let det = jmerge(&base, json!({"u": hexpt(&u), "v": hexpt(&v), "timestamp": t}));
            let r = catch(|| p.verify(pk, msg, None));
            let detg = jmerge(&det, json!({"timeout_ms": null, "got": match &r { Ok(x) => fmt_unit(x), Err(()) => "panic".into() }}));
            let base_ok = matches!(rec(s, "ts_verifies_without_timeout", "timestamp_verify", &format!("{bkey}|{t}"), &detg, r, |r| r.is_ok()), Some(Ok(())));
            if base_ok {
                for to in [60_000u64, u64::MAX] {
                    let r = catch(|| p.verify(pk, msg, Some(to)));
                    let d = jmerge(&det, json!({"timeout_ms": to, "delay": "none"}));
                    rec(s, "ts_verifies_within_timeout", "timestamp_verify", &format!("{bkey}|{t}|{to}"), &d, r, |r| r.is_ok());
                }
            }
            // other message / key / proof component, no timeout
            for (name, m2) in thresh_other_msgs(rng, msg) {
                let r = catch(|| p.verify(pk, &m2, None));
                let d = jmerge(&det, json!({"perturbation": format!("message_{name}"), "verify_msg": msg_field(&m2)}));
                rec(s, "ts_rejects_other_message", "timestamp_verify", &format!("{bkey}|{t}|{name}"), &d, r, |r| r.is_err());
            }
            {
                let r = catch(|| p.verify(pk_other, msg, None));
                let d = jmerge(&det, json!({"perturbation": "other_public_key", "other_sk": gen::hs(other)}));
                rec(s, "ts_rejects_other_public_key", "timestamp_verify", &format!("{bkey}|{t}|{}", gen::hs(other)), &d, r, |r| r.is_err());
                let g = ThreshSig::generator();
                let mods: Vec<(&str, ThreshSig, ThreshSig)> = vec![("u_plus_G", u + g, v), ("v_plus_G", u, v + g), ("u_negated", -u, v), ("v_negated", u, -v), ("u_v_swapped", v, u)];
                for (name, u2, v2) in mods {
                    let p2 = ProofOfKnowledgeTimestamp::<C> { proof: thresh_pok_make(sc, u2, v2), timestamp: t };
                    let r = catch(|| p2.verify(pk, msg, None));
                    let d = jmerge(&det, json!({"perturbation": name}));
                    rec(s, "ts_rejects_modified_component", "timestamp_verify", &format!("{bkey}|{t}|{name}"), &d, r, |r| r.is_err());
                }
                for sc2 in 0..3u8 {
                    if sc2 != sc {
                        let p2 = ProofOfKnowledgeTimestamp::<C> { proof: thresh_pok_make(sc2, u, v), timestamp: t };
                        let r = catch(|| p2.verify(pk, msg, None));
                        let d = jmerge(&det, json!({"perturbation": format!("relabelled_{}", gen::SCH[sc2 as usize])}));
                        rec(s, "ts_rejects_relabelled_scheme", "timestamp_verify", &format!("{bkey}|{t}|{sc2}"), &d, r, |r| r.is_err());
                    }
                }
            }
            // altered timestamp, no timeout: an error, not a panic
            let mut alt: Vec<u64> = vec![t.wrapping_add(1), t.wrapping_sub(1), 0, 1, u64::MAX, t.wrapping_add(1_000_000), t.wrapping_sub(1_000_000),
                                         t.wrapping_add(1_000_000_000_000), 1u64 << 63, t ^ (1u64 << 40), t ^ (1u64 << (run % 64))];
            if thorough {
                for _ in 0..8 {
                    alt.push(rng.next());
                }
                alt.push(u64::MAX - 1);
                alt.push(t.wrapping_add(60_000));
            }
            alt.sort();
            alt.dedup();
            alt.retain(|&x| x != t);
            for &t2 in &alt {
                let p2 = ProofOfKnowledgeTimestamp::<C> { proof: p.proof, timestamp: t2 };
                let r = catch(|| p2.verify(pk, msg, None));
                let d = jmerge(&det, json!({"altered_timestamp": t2, "timeout_ms": null}));
                rec(s, "ts_rejects_altered_timestamp", "timestamp_verify", &format!("{bkey}|{t}|{t2}"), &d, r, |r| r.is_err());
            }
            // any timestamp with a timeout: the call returns (and rejects an altered timestamp)
            let timeouts: Vec<u64> = if thorough { vec![0, 1, 60_000, u64::MAX] } else { vec![[60_000u64, 0, u64::MAX][run % 3]] };
            let with_to: Vec<u64> = if thorough {
                alt.clone()
            } else {
                vec![t.wrapping_sub(1), 0, t.wrapping_sub(1_000_000), [t.wrapping_add(1_000_000), u64::MAX, 1u64 << 63, t.wrapping_add(60_000)][run % 4]]
            };
            for &t2 in &with_to {
                for &to in &timeouts {
                    let p2 = ProofOfKnowledgeTimestamp::<C> { proof: p.proof, timestamp: t2 };
                    let r = catch(|| p2.verify(pk, msg, Some(to)));
                    let d = jmerge(&det, json!({"altered_timestamp": t2, "timeout_ms": to, "timestamp_minus_generation_time": (t2 as i128 - t as i128).to_string()}));
                    let key = format!("{bkey}|{t}|{t2}|{to}");
                    match r {
                        Err(()) => s.case("timestamp_verify_panicked", key, false, d),
                        Ok(x) => s.case("ts_rejects_altered_timestamp_with_timeout", key, x.is_err(), d),
                    }
                }
            }
            batch.push(ThreshTsCase { p, pk, msg: msg.to_vec(), det, key: format!("{bkey}|{t}"), base_ok });
        }

        /// every single-component change of (y, msg, pk, u, v, scheme label) must be rejected
        fn thresh_c10_perturb(s: &mut Search, rng: &mut Prng, key: &str, det: &serde_json::Value, proof: &ProofOfKnowledge<C>,
                              pk: &PublicKey<C>, pk_other: &PublicKey<C>, m: &[u8], y: &ProofCommitmentChallenge<C>, tag: &str) {
            use crate::search_thresh::{jmerge, msg_field, rec};
            let (sc, u, v) = thresh_pok_parts(proof);
            let (pk, y) = (*pk, *y);
            let one = thresh_scalar(&RScalar::ONE);
            let hd = rng.bytes(16);
            let ys: Vec<(&str, ProofCommitmentChallenge<C>)> = vec![
                ("y_plus_1", ProofCommitmentChallenge::<C>(y.0 + one)),
                ("y_minus_1", ProofCommitmentChallenge::<C>(y.0 - one)),
                ("y_negated", ProofCommitmentChallenge::<C>(-y.0)),
                ("y_doubled", ProofCommitmentChallenge::<C>(y.0 + y.0)),
                ("fresh_random", ProofCommitmentChallenge::<C>::new()),
                ("fresh_from_hash", ProofCommitmentChallenge::<C>::from_hash(&hd)),
            ];
            for (name, y2) in ys {
                if y2 == y {
                    continue;
                }
                let r = catch(|| proof.verify(pk, m, y2));
                let d = jmerge(det, json!({"perturbation": name, "verify_challenge": gen::hx(&bsc_be(&y2.0)), "base": tag}));
                rec(s, "pok_rejects_other_challenge", "pok_verify", &format!("{key}|{name}"), &d, r, |r| r.is_err());
            }
            for (name, m2) in thresh_other_msgs(rng, m) {
                let r = catch(|| proof.verify(pk, &m2, y));
                let d = jmerge(det, json!({"perturbation": format!("message_{name}"), "verify_msg": msg_field(&m2), "base": tag}));
                rec(s, "pok_rejects_other_message", "pok_verify", &format!("{key}|{name}"), &d, r, |r| r.is_err());
            }
            let gp = ThreshPk::generator();
            let pks: Vec<(&str, PublicKey<C>)> = vec![
                ("other_key", *pk_other),
                ("pk_plus_G", PublicKey::<C>(pk.0 + gp)),
                ("pk_negated", PublicKey::<C>(-pk.0)),
                ("pk_doubled", PublicKey::<C>(pk.0 + pk.0)),
                ("generator", PublicKey::<C>(gp)),
            ];
            for (name, pk2) in pks {
                if pk2 == pk {
                    continue;
                }
                let r = catch(|| proof.verify(pk2, m, y));
                let d = jmerge(det, json!({"perturbation": name, "verify_pk": hexpt(&pk2.0), "base": tag}));
                rec(s, "pok_rejects_other_public_key", "pok_verify", &format!("{key}|{name}"), &d, r, |r| r.is_err());
            }
            let g = ThreshSig::generator();
            let mods: Vec<(&str, ThreshSig, ThreshSig)> = vec![
                ("u_plus_G", u + g, v),
                ("u_minus_G", u - g, v),
                ("u_negated", -u, v),
                ("u_doubled", u + u, v),
                ("v_plus_G", u, v + g),
                ("v_minus_G", u, v - g),
                ("v_negated", u, -v),
                ("v_doubled", u, v + v),
                ("u_v_swapped", v, u),
                ("u_replaced_by_v", v, v),
                ("v_replaced_by_u", u, u),
                ("both_doubled", u + u, v + v),
            ];
            for (name, u2, v2) in mods {
                // The swap changes both components at once; for the degenerate key sk = 1 (pk = G) the
                // swapped pair satisfies the verification equation identically (x - sk*x = 0), so no
                // verifier could reject it: not an expectation of the property, skipped.
                if name == "u_v_swapped" && pk.0 == gp {
                    continue;
                }
                let p2 = thresh_pok_make(sc, u2, v2);
                let r = catch(|| p2.verify(pk, m, y));
                let d = jmerge(det, json!({"perturbation": name, "base": tag}));
                rec(s, "pok_rejects_modified_component", "pok_verify", &format!("{key}|{name}"), &d, r, |r| r.is_err());
            }
            for sc2 in 0..3u8 {
                if sc2 != sc {
                    let p2 = thresh_pok_make(sc2, u, v);
                    let r = catch(|| p2.verify(pk, m, y));
                    let d = jmerge(det, json!({"perturbation": format!("relabelled_{}", gen::SCH[sc2 as usize]), "base": tag}));
                    rec(s, "pok_rejects_relabelled_scheme", "pok_verify", &format!("{key}|{sc2}"), &d, r, |r| r.is_err());
                }
            }
        }

        /// finalize refuses a commitment and a signature of different schemes
        fn thresh_c10_finalize_mismatch(s: &mut Search, rng: &mut Prng, k: &RScalar) {
            use crate::search_thresh::rec;
            let imp = thresh_imp();
            let sk = sk_of(k);
            for (mi, len) in [0usize, 40].iter().enumerate() {
                let msg = gen::message(rng, *len);
                let sigs: Vec<Signature<C>> = match (0..3u8).map(|sc| sk.sign(scheme_of(sc), &msg)).collect::<Result<Vec<_>, _>>() {
                    Ok(v) => v,
                    Err(_) => return,
                };
                for a in 0..3usize {
                    for b in 0..3usize {
                        if a == b {
                            continue;
                        }
                        let y = ProofCommitmentChallenge::<C>(thresh_scalar(&rng.scalar()));
                        let (sa, sb) = (sigs[a], sigs[b]);
                        let det = json!({"impl": imp, "sk": gen::hs(k), "msg": gen::hx(&msg), "commitment_scheme": gen::SCH[a], "signature_scheme": gen::SCH[b],
                                         "challenge": gen::hx(&bsc_be(&y.0))});
                        let r = catch(|| {
                            let (c, x) = ProofCommitment::<C>::generate(&msg, sa)?;
                            Ok::<_, BlsError>(c.finalize(x, y, sb).is_err())
                        });
                        rec(s, "finalize_rejects_scheme_mismatch", "pok_finalize", &format!("{imp}|{}|{mi}|{a}|{b}", gen::hs(k)), &det, r, |r| matches!(r, Ok(true)));
                    }
                }
            }
        }

        /// real delays: one sleep shared by all proofs of the batch
        fn thresh_c10_after_sleep(s: &mut Search, batch: &[ThreshTsCase], thorough: bool) {
            use crate::search_thresh::{jmerge, rec};
            // (sleep before this stage in ms, timeouts that must have elapsed, timeouts that must not)
            let stages: Vec<(u64, Vec<u64>, Vec<u64>)> = if thorough {
                vec![(60, vec![0, 1, 10, 30], vec![60_000, 3_600_000]), (100, vec![0, 50, 100, 120], vec![60_000, u64::MAX])]
            } else {
                vec![(60, vec![0, 10], vec![60_000])]
            };
            let mut slept = 0u64;
            for (ms, elapsed, within) in stages {
                std::thread::sleep(std::time::Duration::from_millis(ms));
                slept += ms;
                for c in batch {
                    let (p, pk, msg) = (c.p, c.pk, &c.msg);
                    for &to in &elapsed {
                        // at least `slept` ms have passed since generation and to < slept
                        let r = catch(|| p.verify(pk, msg, Some(to)));
                        let d = jmerge(&c.det, json!({"timeout_ms": to, "slept_ms_at_least": slept}));
                        rec(s, "ts_rejected_after_timeout", "timestamp_verify", &format!("{}|{to}|{slept}", c.key), &d, r, |r| r.is_err());
                    }
                    if c.base_ok {
                        for &to in &within {
                            let r = catch(|| p.verify(pk, msg, Some(to)));
                            let d = jmerge(&c.det, json!({"timeout_ms": to, "slept_ms_at_least": slept}));
                            rec(s, "ts_verifies_within_timeout", "timestamp_verify", &format!("{}|{to}|{slept}", c.key), &d, r, |r| r.is_ok());
                        }
                        let r = catch(|| p.verify(pk, msg, None));
                        let d = jmerge(&c.det, json!({"timeout_ms": null, "slept_ms_at_least": slept}));
                        rec(s, "ts_verifies_without_timeout", "timestamp_verify", &format!("{}|none|{slept}", c.key), &d, r, |r| r.is_ok());
                    }
                }
            }
        }
    };
}

macro_rules! search_thresh_c12 {
    () => {
        /// C12: threshold signcryption decryption: shares verify, and t of them decrypt
        pub fn c12(s: &mut Search, rng: &mut Prng, thorough: bool) {
            let edges = gen::edge_scalars();
            let g = crate::search_thresh::grid(
                thorough,
                4,
                6,
                &[(3, 5), (5, 5), (2, 7), (20, 40), (255, 255)],
                &[(2, 8), (8, 8), (5, 16), (16, 16), (64, 64), (2, 255), (128, 255), (254, 255), (100, 200)],
            );
            for (gi, &(t, n, exhaustive)) in g.iter().enumerate() {
                let k = if gi % 3 == 0 { edges[(gi / 3) % edges.len()] } else { rng.scalar() };
                // every scheme on the small grid; one rotating scheme on the large samples in the quick tier
                for sc in 0..3u8 {
                    if !exhaustive && !thorough && n > 16 && (gi as u8 + sc) % 3 != 0 {
                        continue;
                    }
                    thresh_c12_one(s, rng, thorough, t, n, exhaustive, &k, sc);
                }
            }
        }

        fn thresh_c12_one(s: &mut Search, rng: &mut Prng, thorough: bool, t: usize, n: usize, exhaustive: bool, k: &RScalar, sc: u8) {
            use crate::search_thresh::{jmerge, msg_field, rec};
            let imp = thresh_imp();
            let sk = sk_of(k);
            let pk = sk.public_key();
            let seed = crate::search_thresh::seed32(rng);
            // below-threshold expectations need a message long enough that a wrong keystream cannot
            // reproduce it by chance (an empty message is recovered by a wrong key with probability 1/256)
            let len = *rng.pick(&[0usize, 1, 15, 16, 31, 32, 33, 100, 127, 128, 300]);
            let msg = gen::message(rng, len);
            let long_enough = msg.len() >= 16;
            let scheme = scheme_of(sc);
            let ct = match catch(|| pk.sign_crypt(scheme, &msg)) {
                Ok(c) => c,
                Err(()) => return, // C11's business
            };
            if !bool::from(ct.is_valid()) {
                return; // C11's business
            }
            let ctb = Vec::<u8>::from(&ct);
            let base = json!({"impl": imp, "t": t, "n": n, "sk": gen::hs(k), "split_seed": gen::hx(&seed),
                              "split_rng": "ChaCha20Rng::from_seed(split_seed)", "scheme": gen::SCH[sc as usize],
                              "msg": msg_field(&msg), "msg_len": msg.len(), "ciphertext_bare": gen::hx(&ctb)});
            let bkey = format!("{imp}|{t}|{n}|{}|{}|{sc}|{}", gen::hs(k), gen::hx(&seed[..8]), gen::hx(&sha256(&ctb)[..8]));
            let shares = match catch(|| sk.split_with_rng(t, n, crate::search_thresh::chacha(&seed))) {
                Ok(Ok(v)) if v.len() == n => v,
                _ => return, // C08's business
            };
            let ids: Vec<u8> = shares.iter().map(thresh_share_id).collect();
            let mut pks: Vec<PublicKeyShare<C>> = vec![];
            for sh in &shares {
                match catch(|| sh.public_key()) {
                    Ok(Ok(p)) => pks.push(p),
                    _ => return,
                }
            }
            // decryption shares
            let mut ds: Vec<SignDecryptionShare<C>> = vec![];
            for (i, sh) in shares.iter().enumerate() {
                let r = catch(|| ct.create_decryption_share(sh));
                let det = jmerge(&base, json!({"participant": ids[i]}));
                match rec(s, "decryption_share_created", "create_decryption_share", &format!("{bkey}|{i}"), &det, r,
                          |r| matches!(r, Ok(d) if blsful::vsss_rs::Share::identifier(&d.0) == ids[i])) {
                    Some(Ok(d)) => ds.push(d),
                    _ => return,
                }
            }
            // other ciphertexts: fresh encryption of the same message, of another message, and relabelled copies
            let ct_same = catch(|| pk.sign_crypt(scheme, &msg)).ok();
            let mut m2 = msg.clone();
            m2.push(1);
            let ct_other = catch(|| pk.sign_crypt(scheme, &m2)).ok();

            // which (share, key share) pairs
            let mut pairs: Vec<(usize, usize)> = vec![];
            if exhaustive {
                for i in 0..n {
                    for j in 0..n {
                        pairs.push((i, j));
                    }
                }
            } else {
                for _ in 0..(if thorough { 8 } else { 4 }) {
                    let i = rng.below(n as u64) as usize;
                    let j = (i + 1 + rng.below(n as u64 - 1) as usize) % n;
                    pairs.push((i, i));
                    pairs.push((i, j));
                }
                pairs.push((n - 1, n - 1));
                pairs.push((0, 0));
                pairs.sort();
                pairs.dedup();
            }
            for &(i, j) in &pairs {
                let (d, pj) = (&ds[i], &pks[j]);
                let r = catch(|| d.verify(pj, &ct));
                let det = jmerge(&base, json!({"share_of": ids[i], "key_share_of": ids[j], "decryption_share": gen::hx(&Vec::<u8>::from(d)),
                                               "got": match &r { Ok(x) => fmt_unit(x), Err(()) => "panic".into() }}));
                let key = format!("{bkey}|{i}|{j}");
                if i == j {
                    rec(s, "decryption_share_verifies_own_key_share", "decryption_share_verify", &key, &det, r, |r| r.is_ok());
                    for (name, c2) in [("fresh_encryption_same_message", &ct_same), ("fresh_encryption_other_message", &ct_other)] {
                        if let Some(c2) = c2 {
                            let r = catch(|| d.verify(pj, c2));
                            let det = jmerge(&base, json!({"share_of": ids[i], "key_share_of": ids[j], "other_ciphertext": name,
                                                           "other_ciphertext_bare": gen::hx(&Vec::<u8>::from(c2))}));
                            rec(s, "decryption_share_rejected_for_other_ciphertext", "decryption_share_verify", &format!("{key}|{name}"), &det, r, |r| r.is_err());
                        }
                    }
                    for sc2 in 0..3u8 {
                        // same (u, v, w) under another scheme label: first and last participant only
                        if sc2 != sc && (i == 0 || i == n - 1) {
                            let mut c2 = ct.clone();
                            c2.scheme = scheme_of(sc2);
                            let r = catch(|| d.verify(pj, &c2));
                            let det = jmerge(&base, json!({"share_of": ids[i], "key_share_of": ids[j], "other_ciphertext": "same_u_v_w_relabelled",
                                                           "relabelled_scheme": gen::SCH[sc2 as usize]}));
                            rec(s, "decryption_share_rejected_for_relabelled_ciphertext", "decryption_share_verify", &format!("{key}|relabel{sc2}"), &det, r, |r| r.is_err());
                        }
                    }
                } else {
                    rec(s, "decryption_share_rejected_by_other_key_share", "decryption_share_verify", &key, &det, r, |r| r.is_err());
                }
            }

            // subsets of decryption shares
            let subs = if exhaustive {
                crate::search_thresh::subsets(rng, n, 2)
            } else {
                crate::search_thresh::sampled_subsets(rng, t, n, if thorough { 2 } else { 0 })
            };
            for sub in &subs {
                let sids: Vec<u8> = sub.iter().map(|&i| ids[i]).collect();
                let enough = sub.len() >= t;
                let det = jmerge(&base, json!({"subset_ids_in_order": sids, "subset_size": sub.len(), "at_least_t": enough}));
                let key = format!("{bkey}|{sids:?}");
                let dd: Vec<SignDecryptionShare<C>> = sub.iter().map(|&i| ds[i].clone()).collect();
                let r = catch(|| thresh_opt(ct.decrypt_with_shares(dd.as_slice())));
                let r2 = catch(|| SignCryptDecryptionKey::<C>::from_shares(&dd).map(|k| thresh_opt(k.decrypt(&ct))));
                if enough {
                    rec(s, "threshold_decrypt_with_shares", "decrypt_with_shares", &key, &det, r, |r| r.as_deref() == Some(msg.as_slice()));
                    rec(s, "threshold_decrypt_with_combined_key", "decryption_key_from_shares", &key, &det, r2,
                        |r| matches!(r, Ok(Some(m)) if *m == msg));
                } else if long_enough {
                    rec(s, "below_threshold_never_decrypts", "decrypt_with_shares", &format!("{key}|shares"), &det, r, |r| r.as_deref() != Some(msg.as_slice()));
                    rec(s, "below_threshold_never_decrypts", "decryption_key_from_shares", &format!("{key}|key"), &det, r2,
                        |r| !matches!(r, Ok(Some(m)) if *m == msg));
                }
            }
            // no share / one share
            let few: Vec<(&str, Vec<SignDecryptionShare<C>>)> = vec![
                ("no_share", vec![]),
                ("one_share_first", vec![ds[0].clone()]),
                ("one_share_last", vec![ds[n - 1].clone()]),
            ];
            for (name, dd) in &few {
                let det = jmerge(&base, json!({"shares": name}));
                let r = catch(|| thresh_opt(ct.decrypt_with_shares(dd.as_slice())));
                rec(s, "too_few_shares_give_nothing", "decrypt_with_shares", &format!("{bkey}|{name}|shares"), &det, r, |r| r.is_none());
                let r2 = catch(|| SignCryptDecryptionKey::<C>::from_shares(dd).map(|k| thresh_opt(k.decrypt(&ct))));
                rec(s, "too_few_shares_give_nothing", "decryption_key_from_shares", &format!("{bkey}|{name}|key"), &det, r2,
                    |r| !matches!(r, Ok(Some(_))));
            }
        }
    };
}

macro_rules! search_thresh_c14 {
    () => {
        pub fn thresh_eg_proof(c1: ThreshPk, c2: ThreshPk, mp: BScalar, bp: BScalar, ch: BScalar) -> ElGamalProof<C> {
            ElGamalProof::<C> { ciphertext: ElGamalCiphertext::<C> { c1, c2 }, message_proof: mp, blinder_proof: bp, challenge: ch }
        }

        pub fn thresh_eg_det(p: &ElGamalProof<C>) -> serde_json::Value {
            json!({"c1": hexpt(&p.ciphertext.c1), "c2": hexpt(&p.ciphertext.c2), "message_proof": gen::hx(&bsc_be(&p.message_proof)),
                   "blinder_proof": gen::hx(&bsc_be(&p.blinder_proof)), "challenge": gen::hx(&bsc_be(&p.challenge))})
        }

        /// C14: ElGamal: correct, additively homomorphic, proofs bind ciphertext and key
        pub fn c14(s: &mut Search, rng: &mut Prng, thorough: bool) {
            use crate::search_thresh::{jmerge, rec, ref_pk_mul};
            let imp = thresh_imp();
            let edges = gen::edge_scalars();
            // the fixed message generator
            let hgen = match catch(|| (<C as BlsElGamal>::message_generator(), <C as BlsElGamal>::message_generator())) {
                Ok((a, b)) => {
                    let ok = a == b && !bool::from(a.is_identity()) && a != ThreshPk::generator();
                    s.case("message_generator_fixed", imp.to_string(), ok, json!({"impl": imp, "generator": hexpt(&a)}));
                    a
                }
                Err(()) => {
                    s.case("message_generator_panicked", imp.to_string(), false, json!({"impl": imp}));
                    return;
                }
            };
            let hgen_bytes = hgen.to_bytes().as_ref().to_vec();
            // expected plaintext point for a plaintext scalar, computed with the reference backend
            let expect = |m: &RScalar| -> Vec<u8> { ref_pk_mul(G1, &hgen_bytes, m).expect("generator decodes") };

            let mut keys: Vec<RScalar> = vec![edges[0], edges[2], edges[6], edges[4], rng.scalar(), rng.scalar()];
            let mut plains: Vec<RScalar> = vec![RScalar::ONE, -RScalar::ONE, RScalar::from(2u64), -RScalar::from(2u64), edges[5], rng.scalar(), rng.scalar()];
            if thorough {
                keys.extend_from_slice(&[edges[1], edges[3], edges[5]]);
                plains.extend_from_slice(&[edges[4], edges[6]]);
                for _ in 0..6 {
                    keys.push(rng.scalar());
                    plains.push(rng.scalar());
                }
            }

            // ---- plain encryption / decryption, proofs and their perturbations
            for (ki, k) in keys.iter().enumerate() {
                let sk = sk_of(k);
                let pk = sk.public_key();
                let other = rng.scalar();
                let sk_other = sk_of(&other);
                let pk_other = sk_other.public_key();
                for (mi, m) in plains.iter().enumerate() {
                    let secret = sk_of(m);
                    let want = expect(m);
                    let base = json!({"impl": imp, "recipient_sk": gen::hs(k), "plaintext_scalar": gen::hs(m), "expected_point": gen::hx(&want)});
                    let bkey = format!("{imp}|{}|{}", gen::hs(k), gen::hs(m));
                    // same value computed by the library itself must agree with the reference
                    let lib_want = (hgen * thresh_scalar(m)).to_bytes().as_ref().to_vec();
                    if lib_want != want {
                        continue; // a disagreement of the two backends on scalar multiplication is not C14's business
                    }

                    let r = catch(|| pk.encrypt_key_el_gamal(&secret));
                    if let Some(Ok(ct)) = rec(s, "elgamal_encrypt_succeeds", "elgamal_encrypt", &bkey, &base, r, |r| r.is_ok()) {
                        let det = jmerge(&base, json!({"c1": hexpt(&ct.c1), "c2": hexpt(&ct.c2)}));
                        let key = format!("{bkey}|{}", hexpt(&ct.c1));
                        let r = catch(|| ct.decrypt(&sk).to_bytes().as_ref().to_vec());
                        rec(s, "elgamal_decrypt_correct", "elgamal_decrypt", &key, &det, r, |r| *r == want);
                    }

                    let r = catch(|| pk.encrypt_key_el_gamal_with_proof(&secret));
                    let Some(Ok(p)) = rec(s, "elgamal_encrypt_with_proof_succeeds", "elgamal_encrypt_with_proof", &bkey, &base, r, |r| r.is_ok()) else { continue };
                    let det = jmerge(&base, thresh_eg_det(&p));
                    let key = format!("{bkey}|{}", hexpt(&p.ciphertext.c1));
                    let r = catch(|| p.verify(pk));
                    let detg = jmerge(&det, json!({"got": match &r { Ok(x) => fmt_unit(x), Err(()) => "panic".into() }}));
                    rec(s, "elgamal_proof_verifies", "elgamal_proof_verify", &key, &detg, r, |r| r.is_ok());
                    let r = catch(|| p.verify_and_decrypt(&sk).map(|x| x.to_bytes().as_ref().to_vec()));
                    rec(s, "elgamal_verify_and_decrypt_correct", "elgamal_verify_and_decrypt", &key, &det, r, |r| matches!(r, Ok(x) if *x == want));
                    let r = catch(|| p.ciphertext.decrypt(&sk).to_bytes().as_ref().to_vec());
                    rec(s, "elgamal_decrypt_correct", "elgamal_decrypt", &format!("{key}|proof_ct"), &det, r, |r| *r == want);
                    // non-matching secret key
                    for (name, wrong, wrong_hex) in [("independent_key", &sk_other, gen::hs(&other)), ("recipient_plus_1", &sk_of(&(k + RScalar::ONE)), gen::hs(&(k + RScalar::ONE)))] {
                        if wrong.0 == thresh_scalar(&RScalar::ZERO) {
                            continue;
                        }
                        let r = catch(|| p.verify_and_decrypt(wrong).map(|_| ()));
                        let d = jmerge(&det, json!({"wrong_sk": wrong_hex, "wrong_key": name}));
                        rec(s, "elgamal_verify_and_decrypt_wrong_key_fails", "elgamal_verify_and_decrypt", &format!("{key}|{name}"), &d, r, |r| r.is_err());
                    }
                    // perturbations; only on a rotating part of the (key, plaintext) pairs in the quick tier
                    if !thorough && (ki + mi) % 2 != 0 {
                        continue;
                    }
                    // another honest proof for the same key and plaintext supplies "other honest values"
                    let q = match catch(|| pk.encrypt_key_el_gamal_with_proof(&secret)) {
                        Ok(Ok(q)) => q,
                        _ => continue,
                    };
                    let (c1, c2, mp, bp, ch) = (p.ciphertext.c1, p.ciphertext.c2, p.message_proof, p.blinder_proof, p.challenge);
                    let gp = ThreshPk::generator();
                    let one = thresh_scalar(&RScalar::ONE);
                    let muts: Vec<(&str, &str, ElGamalProof<C>)> = vec![
                        ("c1", "plus_G", thresh_eg_proof(c1 + gp, c2, mp, bp, ch)),
                        ("c1", "negated", thresh_eg_proof(-c1, c2, mp, bp, ch)),
                        ("c1", "other_honest_value", thresh_eg_proof(q.ciphertext.c1, c2, mp, bp, ch)),
                        ("c1", "replaced_by_c2", thresh_eg_proof(c2, c2, mp, bp, ch)),
                        ("c2", "plus_G", thresh_eg_proof(c1, c2 + gp, mp, bp, ch)),
                        ("c2", "plus_message_generator", thresh_eg_proof(c1, c2 + hgen, mp, bp, ch)),
                        ("c2", "negated", thresh_eg_proof(c1, -c2, mp, bp, ch)),
                        ("c2", "other_honest_value", thresh_eg_proof(c1, q.ciphertext.c2, mp, bp, ch)),
                        ("message_proof", "plus_1", thresh_eg_proof(c1, c2, mp + one, bp, ch)),
                        ("message_proof", "negated", thresh_eg_proof(c1, c2, -mp, bp, ch)),
                        ("message_proof", "other_honest_value", thresh_eg_proof(c1, c2, q.message_proof, bp, ch)),
                        ("message_proof", "replaced_by_blinder_proof", thresh_eg_proof(c1, c2, bp, bp, ch)),
                        ("blinder_proof", "plus_1", thresh_eg_proof(c1, c2, mp, bp + one, ch)),
                        ("blinder_proof", "negated", thresh_eg_proof(c1, c2, mp, -bp, ch)),
                        ("blinder_proof", "other_honest_value", thresh_eg_proof(c1, c2, mp, q.blinder_proof, ch)),
                        ("challenge", "plus_1", thresh_eg_proof(c1, c2, mp, bp, ch + one)),
                        ("challenge", "negated", thresh_eg_proof(c1, c2, mp, bp, -ch)),
                        ("challenge", "other_honest_value", thresh_eg_proof(c1, c2, mp, bp, q.challenge)),
                        ("ciphertext", "other_honest_ciphertext", thresh_eg_proof(q.ciphertext.c1, q.ciphertext.c2, mp, bp, ch)),
                    ];
                    for (comp, how, p2) in &muts {
                        let d = jmerge(&det, json!({"changed": comp, "perturbation": how, "perturbed": thresh_eg_det(p2)}));
                        let r = catch(|| p2.verify(pk));
                        rec(s, &format!("elgamal_proof_rejects_changed_{comp}"), "elgamal_proof_verify", &format!("{key}|{comp}|{how}|verify"), &d, r, |r| r.is_err());
                        let r = catch(|| p2.verify_and_decrypt(&sk).map(|_| ()));
                        rec(s, &format!("elgamal_proof_rejects_changed_{comp}"), "elgamal_verify_and_decrypt", &format!("{key}|{comp}|{how}|vd"), &d, r, |r| r.is_err());
                    }
                    let pks: Vec<(&str, PublicKey<C>)> = vec![
                        ("other_key", pk_other),
                        ("pk_plus_G", PublicKey::<C>(pk.0 + gp)),
                        ("pk_negated", PublicKey::<C>(-pk.0)),
                        ("message_generator", PublicKey::<C>(hgen)),
                    ];
                    for (how, pk2) in pks {
                        if pk2 == pk {
                            continue;
                        }
                        let d = jmerge(&det, json!({"changed": "public_key", "perturbation": how, "verify_pk": hexpt(&pk2.0)}));
                        let r = catch(|| p.verify(pk2));
                        rec(s, "elgamal_proof_rejects_changed_public_key", "elgamal_proof_verify", &format!("{key}|pk|{how}"), &d, r, |r| r.is_err());
                    }
                }
            }

            // ---- homomorphic sums of up to 16 ciphertexts
            let mut ks: Vec<usize> = vec![2, 3, 5, 8, 16];
            if thorough {
                ks = (2..=16).collect();
            } else {
                ks.push(4 + rng.below(12) as usize);
            }
            for (ri, &kk) in ks.iter().enumerate() {
                for variant in 0..2u8 {
                    let k = if variant == 0 { rng.scalar() } else { *rng.pick(&edges) };
                    let sk = sk_of(&k);
                    let pk = sk.public_key();
                    // plaintexts: random, or edge values arranged so that the sum wraps / cancels to zero
                    let mut ms: Vec<RScalar> = (0..kk).map(|_| rng.scalar()).collect();
                    if variant == 1 {
                        ms[0] = -RScalar::ONE;
                        ms[1] = RScalar::ONE;
                        if kk == 2 || ri % 2 == 1 {
                            // total is exactly zero: the plaintext point is the identity
                            let partial = ms[..kk - 1].iter().fold(RScalar::ZERO, |a, b| a + b);
                            if kk > 2 && partial != RScalar::ZERO {
                                ms[kk - 1] = -partial;
                            }
                        }
                    }
                    let total = ms.iter().fold(RScalar::ZERO, |a, b| a + b);
                    let want = if total == RScalar::ZERO { ThreshPk::identity().to_bytes().as_ref().to_vec() } else { expect(&total) };
                    let mut cts: Vec<ElGamalCiphertext<C>> = vec![];
                    for m in &ms {
                        match catch(|| pk.encrypt_key_el_gamal(&sk_of(m))) {
                            Ok(Ok(c)) => cts.push(c),
                            _ => break,
                        }
                    }
                    if cts.len() != kk {
                        continue;
                    }
                    let det = json!({"impl": imp, "recipient_sk": gen::hs(&k), "k": kk, "plaintext_scalars": ms.iter().map(gen::hs).collect::<Vec<_>>(),
                                     "sum_of_plaintexts": gen::hs(&total), "expected_point": gen::hx(&want),
                                     "ciphertexts": cts.iter().map(|c| format!("{}:{}", hexpt(&c.c1), hexpt(&c.c2))).collect::<Vec<_>>()});
                    let key = format!("{imp}|{}|{kk}|{}", gen::hs(&k), hexpt(&cts[0].c1));
                    // four ways to add
                    let r = catch(|| {
                        let mut a = cts[0];
                        for c in &cts[1..] {
                            a = a + *c;
                        }
                        let mut b = cts[0];
                        for c in &cts[1..] {
                            b += c;
                        }
                        let mut c3 = cts[kk - 1];
                        for c in cts[..kk - 1].iter().rev() {
                            c3 = c + &c3;
                        }
                        let mut d = cts[0];
                        for c in &cts[1..] {
                            d += *c;
                        }
                        // component-wise sum done by hand
                        let e = ElGamalCiphertext::<C> {
                            c1: cts.iter().fold(ThreshPk::identity(), |x, c| x + c.c1),
                            c2: cts.iter().fold(ThreshPk::identity(), |x, c| x + c.c2),
                        };
                        let same = a == b && a == c3 && a == d && a == e;
                        (same, a.decrypt(&sk).to_bytes().as_ref().to_vec(), e.decrypt(&sk).to_bytes().as_ref().to_vec(), a)
                    });
                    let sum = rec(s, "elgamal_sum_decrypts_to_sum", "elgamal_sum", &key, &det, r, |(same, x, y, _)| *same && *x == want && *y == want);
                    // ... and with a decryption key recombined from shares of the recipient key
                    if let Some((_, _, _, sum_ct)) = sum {
                        let (t, n) = [(2usize, 3usize), (3, 5), (4, 4)][ri % 3];
                        let seed = crate::search_thresh::seed32(rng);
                        let det = jmerge(&det, json!({"t": t, "n": n, "split_seed": gen::hx(&seed)}));
                        let r = catch(|| {
                            let shares = sk.split_with_rng(t, n, crate::search_thresh::chacha(&seed))?;
                            let mut ds = vec![];
                            for sh in shares.iter().rev().take(t) {
                                ds.push(ElGamalDecryptionShare::<C>(<C as BlsSignatureCore>::public_key_share_with_generator(&sh.0, sum_ct.c1)?));
                            }
                            let dk = ElGamalDecryptionKey::<C>::from_shares(&ds)?;
                            Ok::<_, BlsError>(dk.decrypt(&sum_ct).to_bytes().as_ref().to_vec())
                        });
                        rec(s, "elgamal_sum_threshold_decrypt_correct", "elgamal_threshold_decrypt", &key, &det, r, |r| matches!(r, Ok(x) if *x == want));
                    }
                }
            }

            // ---- decryption key recombined from t-of-n decryption shares
            let g = crate::search_thresh::grid(thorough, 4, 6, &[(3, 5), (5, 5), (4, 7), (128, 255)], &[(2, 8), (8, 8), (16, 16), (2, 255), (255, 255), (100, 200)]);
            for (gi, &(t, n, exhaustive)) in g.iter().enumerate() {
                let k = if gi % 3 == 0 { edges[(gi / 3) % edges.len()] } else { rng.scalar() };
                let m = plains[gi % plains.len()];
                let sk = sk_of(&k);
                let pk = sk.public_key();
                let want = expect(&m);
                let seed = crate::search_thresh::seed32(rng);
                let ct = match catch(|| pk.encrypt_key_el_gamal(&sk_of(&m))) {
                    Ok(Ok(c)) => c,
                    _ => continue,
                };
                let base = json!({"impl": imp, "t": t, "n": n, "recipient_sk": gen::hs(&k), "plaintext_scalar": gen::hs(&m), "expected_point": gen::hx(&want),
                                  "split_seed": gen::hx(&seed), "split_rng": "ChaCha20Rng::from_seed(split_seed)", "c1": hexpt(&ct.c1), "c2": hexpt(&ct.c2)});
                let bkey = format!("{imp}|{t}|{n}|{}|{}|{}", gen::hs(&k), gen::hx(&seed[..8]), hexpt(&ct.c1));
                let shares = match catch(|| sk.split_with_rng(t, n, crate::search_thresh::chacha(&seed))) {
                    Ok(Ok(v)) if v.len() == n => v,
                    _ => continue, // C08's business
                };
                let ids: Vec<u8> = shares.iter().map(thresh_share_id).collect();
                let mut ds: Vec<ElGamalDecryptionShare<C>> = vec![];
                for (i, sh) in shares.iter().enumerate() {
                    let r = catch(|| <C as BlsSignatureCore>::public_key_share_with_generator(&sh.0, ct.c1));
                    let det = jmerge(&base, json!({"participant": ids[i]}));
                    match rec(s, "elgamal_decryption_share_created", "elgamal_decryption_share", &format!("{bkey}|{i}"), &det, r, |r| r.is_ok()) {
                        Some(Ok(d)) => ds.push(ElGamalDecryptionShare::<C>(d)),
                        _ => break,
                    }
                }
                if ds.len() != n {
                    continue;
                }
                let subs = if exhaustive {
                    crate::search_thresh::subsets(rng, n, t)
                } else {
                    crate::search_thresh::sampled_subsets(rng, t, n, if thorough { 2 } else { 0 }).into_iter().filter(|v| v.len() >= t).collect()
                };
                for sub in &subs {
                    let sids: Vec<u8> = sub.iter().map(|&i| ids[i]).collect();
                    let det = jmerge(&base, json!({"subset_ids_in_order": sids, "subset_size": sub.len()}));
                    let dd: Vec<ElGamalDecryptionShare<C>> = sub.iter().map(|&i| ds[i].clone()).collect();
                    let r = catch(|| ElGamalDecryptionKey::<C>::from_shares(&dd).map(|dk| dk.decrypt(&ct).to_bytes().as_ref().to_vec()));
                    rec(s, "elgamal_threshold_decrypt_correct", "elgamal_threshold_decrypt", &format!("{bkey}|{sids:?}"), &det, r, |r| matches!(r, Ok(x) if *x == want));
                }
            }
        }
    };
}
