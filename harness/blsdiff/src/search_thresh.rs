//! Threshold / proof-of-knowledge searches: C08 C10 C12 C14
macro_rules! search_thresh {
    () => {
        pub fn c08(_s: &mut Search, _rng: &mut Prng, _thorough: bool) {}
        pub fn c10(_s: &mut Search, _rng: &mut Prng, _thorough: bool) {}
        pub fn c12(_s: &mut Search, _rng: &mut Prng, _thorough: bool) {}
        pub fn c14(_s: &mut Search, _rng: &mut Prng, _thorough: bool) {}
    };
}
