//! Failing-input search on the un-hooked API (real hash-to-curve), against expectations
//! derived from the property text and an independent reference on the other backend.
use crate::bl::*;
use crate::gen::{self, Prng};
use crate::refs::*;
use blsful::inner_types::*;
use blsful::*;
use serde_json::json;
use std::collections::HashSet;

pub struct Search {
    pub prop: String,
    pub evals: u64,
    pub distinct: HashSet<String>,
    pub fails: Vec<serde_json::Value>,
    pub samples: Vec<serde_json::Value>,
    pub classes: std::collections::BTreeMap<String, u64>,
}

impl Search {
    pub fn new(prop: &str) -> Self {
        Search { prop: prop.into(), evals: 0, distinct: HashSet::new(), fails: vec![], samples: vec![], classes: Default::default() }
    }
    /// record one evaluated case; `key` identifies the distinct non-trivial input
    pub fn case(&mut self, class: &str, key: String, ok: bool, detail: serde_json::Value) {
        self.evals += 1;
        *self.classes.entry(class.to_string()).or_insert(0) += 1;
        if self.distinct.insert(format!("{class}|{key}")) && self.samples.len() < 6 && self.evals % 97 == 1 {
            self.samples.push(json!({"class": class, "input": detail.clone()}));
        }
        if !ok {
            if self.fails.len() < 50 {
                self.fails.push(json!({"property": self.prop, "class": class, "input": detail}));
            }
        }
    }
    pub fn finish(self) {
        for f in &self.fails {
            println!("FAIL {}", f);
        }
        println!(
            "SUMMARY {}",
            json!({"evaluations": self.evals, "distinct": self.distinct.len(), "failures": self.fails.len(),
                   "classes": self.classes, "samples": self.samples})
        );
    }
}

fn catch<T>(f: impl FnOnce() -> T + std::panic::UnwindSafe) -> Result<T, ()> {
    std::panic::catch_unwind(f).map_err(|_| ())
}

macro_rules! per_impl_search {
    ($m:ident, $C:ty, $g1:expr) => {
        pub mod $m {
            #![allow(dead_code, unused_imports, unused_variables)]
            use super::*;
            pub type C = $C;
            pub const G1: bool = $g1;

            pub fn sk_of(s: &RScalar) -> SecretKey<C> {
                SecretKey::<C>(bsc(&sc_be(s)))
            }

            search_c01!();
            search_sigs!();
            search_thresh!();
            search_enc!();
            search_codec!();
            search_misc!();
        }
    };
}
per_impl_search!(g1, Bls12381G1Impl, true);
per_impl_search!(g2, Bls12381G2Impl, false);

pub fn run(prop: &str, thorough: bool, seed: u64) {
    std::panic::set_hook(Box::new(|_| {}));
    let mut s = Search::new(prop);
    let mut rng = Prng(seed ^ 0x5EA2C4);
    macro_rules! both {
        ($f:ident) => {{
            g1::$f(&mut s, &mut rng, thorough);
            g2::$f(&mut s, &mut rng, thorough);
        }};
    }
    match prop {
        "C01" => both!(c01),
        "C02" => {
            both!(c02);
            both!(c02_forms);
        }
        "C04" => both!(c04),
        "C05" => both!(c05),
        "C06" => both!(c06),
        "C07" => both!(c07),
        "C09" => {
            both!(c09);
            both!(c09_forms);
        }
        "C08" => both!(c08),
        "C10" => both!(c10),
        "C12" => both!(c12),
        "C14" => both!(c14),
        "C11" => both!(c11),
        "C13" => both!(c13),
        "C18" => both!(c18),
        "C15" => both!(c15),
        "C16" => both!(c16),
        "C17" => both!(c17),
        "C03" => both!(c03),
        "C20" => both!(c20),
        _ => {}
    }
    s.finish();
}
