//! Bridge to the library under test: building blsful values from tokens, canonical printing.
use crate::tok::Tok;
use blsful::inner_types::*;
use blsful::*;

pub type BScalar = Scalar;

pub fn bsc(b: &[u8; 32]) -> BScalar {
    let mut le = *b;
    le.reverse();
    let mut repr = <BScalar as PrimeField>::Repr::default();
    repr.as_mut().copy_from_slice(&le);
    Option::from(BScalar::from_repr(repr)).expect("scalar")
}

pub fn bsc_be(s: &BScalar) -> [u8; 32] {
    let mut v = [0u8; 32];
    v.copy_from_slice(s.to_repr().as_ref());
    v.reverse();
    v
}

pub fn scheme_of(s: u8) -> SignatureSchemes {
    match s {
        0 => SignatureSchemes::Basic,
        1 => SignatureSchemes::MessageAugmentation,
        _ => SignatureSchemes::ProofOfPossession,
    }
}

pub fn scheme_name(s: SignatureSchemes) -> &'static str {
    match s {
        SignatureSchemes::Basic => "basic",
        SignatureSchemes::MessageAugmentation => "aug",
        SignatureSchemes::ProofOfPossession => "pop",
    }
}

pub fn tok_scalar(t: &Tok) -> BScalar {
    match t {
        Tok::Scalar(s) => bsc(s),
        _ => panic!("expected scalar, got {t:?}"),
    }
}

pub fn err_kind(e: &BlsError) -> &'static str {
    match e {
        BlsError::SigningError(_) => "SigningError",
        BlsError::InvalidInputs(_) => "InvalidInputs",
        BlsError::InvalidSignature => "InvalidSignature",
        BlsError::InvalidProof => "InvalidProof",
        BlsError::InvalidSignatureScheme => "InvalidSignatureScheme",
        BlsError::InvalidDecryptionShare => "InvalidDecryptionShare",
        BlsError::VsssError => "VsssError",
        BlsError::DeserializationError(_) => "DeserializationError",
    }
}

pub fn fmt_unit(r: &BlsResult<()>) -> String {
    match r {
        Ok(()) => "ok".into(),
        Err(e) => format!("err:{}", err_kind(e)),
    }
}

pub fn hexpt<G: GroupEncoding>(p: &G) -> String {
    hex::encode(p.to_bytes().as_ref())
}

pub fn fmt_opt_bytes(o: subtle::CtOption<Vec<u8>>) -> String {
    let o: Option<Vec<u8>> = o.into();
    match o {
        Some(v) => format!("some:{}", hex::encode(v)),
        None => "none".into(),
    }
}

/// k-th `Scalar::random` drawn from the ChaCha20 stream of `seed` (backend specific)
pub fn rng_scalar(seed: &[u8; 32], k: usize) -> BScalar {
    use rand_core::SeedableRng;
    let mut g = rand_chacha::ChaCha20Rng::from_seed(*seed);
    let mut s = BScalar::ZERO;
    for _ in 0..=k {
        s = BScalar::random(&mut g);
    }
    s
}
