//! Runs the real library (hooks on) on cases and prints one canonical result line per case.
use crate::tok::*;
use blsful::verif_hooks;
macro_rules! per_impl {
    ($m:ident, $C:ty) => {
        pub mod $m {
            #![allow(dead_code, unused_imports)]
            use crate::bl::*;
            use crate::tok::*;
            use blsful::inner_types::*;
            use blsful::*;
            use rand_core::SeedableRng;
            pub type C = $C;
            pub const G1: bool = stringify!($m).len() == 2 && stringify!($m).as_bytes()[1] == b'1';

pub fn sig_pt(d: &[u8; 32]) -> <C as Pairing>::Signature {
    <C as Pairing>::Signature::generator() * bsc(d)
}
pub fn pk_pt(d: &[u8; 32]) -> <C as Pairing>::PublicKey {
    <C as Pairing>::PublicKey::generator() * bsc(d)
}
pub fn mk_sig(s: u8, p: <C as Pairing>::Signature) -> Signature<C> {
    match s {
        0 => Signature::Basic(p),
        1 => Signature::MessageAugmentation(p),
        _ => Signature::ProofOfPossession(p),
    }
}
pub fn sig_scheme(s: &Signature<C>) -> &'static str {
    match s {
        Signature::Basic(_) => "basic",
        Signature::MessageAugmentation(_) => "aug",
        Signature::ProofOfPossession(_) => "pop",
    }
}
pub fn tok_sig(t: &Tok) -> <C as Pairing>::Signature {
    match t {
        Tok::P(d) => sig_pt(d),
        _ => panic!("expected sig point, got {t:?}"),
    }
}
pub fn tok_pk(t: &Tok) -> <C as Pairing>::PublicKey {
    match t {
        Tok::Q(d) => pk_pt(d),
        _ => panic!("expected pk point, got {t:?}"),
    }
}
fn arr32(v: &[u8]) -> [u8; 32] {
    let mut a = [0u8; 32];
    a.copy_from_slice(v);
    a
}

fn share_bytes(t: &Tok) -> Vec<u8> {
    match t {
        Tok::Share(id, v) => {
            let mut b = vec![*id];
            b.extend_from_slice(v);
            b
        }
        _ => panic!("expected share, got {t:?}"),
    }
}

fn fmt_share(b: &[u8]) -> String {
    format!("h{}:{}", b[0], hex::encode(&b[1..]))
}

fn sks(t: &Tok) -> SecretKeyShare<C> {
    SecretKeyShare::<C>::try_from(share_bytes(t).as_slice()).expect("secret key share container")
}
fn pks(t: &Tok) -> PublicKeyShare<C> {
    PublicKeyShare::<C>::try_from(share_bytes(t).as_slice()).expect("public key share container")
}
fn sigshare(s: u8, t: &Tok) -> SignatureShare<C> {
    let mut b = vec![s];
    b.extend_from_slice(&share_bytes(t));
    SignatureShare::<C>::try_from(b.as_slice()).expect("signature share container")
}
fn sds(t: &Tok) -> SignDecryptionShare<C> {
    SignDecryptionShare::<C>::try_from(share_bytes(t).as_slice()).expect("decryption share")
}

fn tagged_list(l: &[Tok]) -> Vec<Signature<C>> {
    l.chunks(2).map(|c| mk_sig(c[0].scheme(), tok_sig(&c[1]))).collect()
}

fn pairs(l: &[Tok]) -> Vec<(PublicKey<C>, Vec<u8>)> {
    l.chunks(2).map(|c| (PublicKey::<C>(tok_pk(&c[0])), c[1].bytes().to_vec())).collect()
}

fn sc_ct(a: &[Tok]) -> SignCryptCiphertext<C> {
    SignCryptCiphertext::<C> {
        u: tok_pk(&a[0]),
        v: a[1].bytes().to_vec(),
        w: tok_sig(&a[2]),
        scheme: scheme_of(a[3].scheme()),
    }
}

fn fmt_tagged(r: BlsResult<Signature<C>>) -> String {
    match r {
        Ok(s) => format!("ok:{}:{}", sig_scheme(&s), hexpt(s.as_raw_value())),
        Err(e) => format!("err:{}", err_kind(&e)),
    }
}

fn with_seeds<T>(seeds: &[Tok], f: impl FnOnce() -> T) -> (T, u64) {
    verif_hooks::reset();
    for s in seeds {
        verif_hooks::push_seed(arr32(s.bytes()));
    }
    verif_hooks::set_entropy_tap(true);
    let r = f();
    verif_hooks::set_entropy_tap(false);
    let d = verif_hooks::draws();
    verif_hooks::reset();
    (r, d)
}

pub fn run_op(op: &str, a: &[Tok]) -> String {
    match op {
        "sk_public_key" => hexpt(&SecretKey::<C>(tok_scalar(&a[0])).public_key().0),
        "sk_sign" => fmt_tagged(
            SecretKey::<C>(tok_scalar(&a[0])).sign(scheme_of(a[1].scheme()), a[2].bytes()),
        ),
        "sig_verify" => {
            let sg = mk_sig(a[0].scheme(), tok_sig(&a[1]));
            fmt_unit(&sg.verify(&PublicKey::<C>(tok_pk(&a[2])), a[3].bytes()))
        }
        "core_verify" => fmt_unit(&<C as BlsSignatureCore>::core_verify(
            tok_pk(&a[0]),
            tok_sig(&a[1]),
            a[2].bytes(),
            a[3].bytes(),
        )),
        "pop_prove" => match SecretKey::<C>(tok_scalar(&a[0])).proof_of_possession() {
            Ok(p) => format!("ok:{}", hexpt(&p.0)),
            Err(e) => format!("err:{}", err_kind(&e)),
        },
        "pop_verify" => fmt_unit(
            &ProofOfPossession::<C>(tok_sig(&a[0])).verify(PublicKey::<C>(tok_pk(&a[1]))),
        ),
        "agg_from_sigs" => {
            let sigs = tagged_list(a[0].list());
            match AggregateSignature::<C>::from_signatures(&sigs) {
                Ok(AggregateSignature::Basic(p)) => format!("ok:basic:{}", hexpt(&p)),
                Ok(AggregateSignature::MessageAugmentation(p)) => format!("ok:aug:{}", hexpt(&p)),
                Ok(AggregateSignature::ProofOfPossession(p)) => format!("ok:pop:{}", hexpt(&p)),
                Err(e) => format!("err:{}", err_kind(&e)),
            }
        }
        "agg_verify" => {
            let p = tok_sig(&a[1]);
            let ag = match a[0].scheme() {
                0 => AggregateSignature::<C>::Basic(p),
                1 => AggregateSignature::<C>::MessageAugmentation(p),
                _ => AggregateSignature::<C>::ProofOfPossession(p),
            };
            fmt_unit(&ag.verify(&pairs(a[2].list())))
        }
        "multi_from_sigs" => {
            let sigs = tagged_list(a[0].list());
            match MultiSignature::<C>::from_signatures(&sigs) {
                Ok(MultiSignature::Basic(p)) => format!("ok:basic:{}", hexpt(&p)),
                Ok(MultiSignature::MessageAugmentation(p)) => format!("ok:aug:{}", hexpt(&p)),
                Ok(MultiSignature::ProofOfPossession(p)) => format!("ok:pop:{}", hexpt(&p)),
                Err(e) => format!("err:{}", err_kind(&e)),
            }
        }
        "multi_verify" => {
            let p = tok_sig(&a[1]);
            let ms = match a[0].scheme() {
                0 => MultiSignature::<C>::Basic(p),
                1 => MultiSignature::<C>::MessageAugmentation(p),
                _ => MultiSignature::<C>::ProofOfPossession(p),
            };
            fmt_unit(&ms.verify(MultiPublicKey::<C>(tok_pk(&a[2])), a[3].bytes()))
        }
        // ---- trait-level entry points no wrapper type calls ----
        "trait_multi_sig_verify" => {
            let keys: Vec<<C as Pairing>::PublicKey> = a[0].list().iter().map(tok_pk).collect();
            fmt_unit(&<C as BlsSignaturePop>::multi_sig_verify(keys.into_iter(), tok_sig(&a[1]), a[2].bytes()))
        }
        "trait_aggregate_signatures" => {
            let l: Vec<<C as Pairing>::Signature> = a[0].list().iter().map(tok_sig).collect();
            hexpt(&<C as BlsSignatureCore>::aggregate_signatures(l.into_iter()))
        }
        "trait_multi_from_signatures" => {
            let l: Vec<<C as Pairing>::Signature> = a[0].list().iter().map(tok_sig).collect();
            hexpt(&<C as BlsMultiSignature>::from_signatures(l.into_iter()))
        }
        "trait_create_decryption_share" => {
            match <C as BlsSignCrypt>::create_decryption_share(&sks(&a[0]).0, tok_pk(&a[1])) {
                Ok(s) => { let b: Vec<u8> = s.0.to_vec(); format!("ok:{}", fmt_share(&b)) }
                Err(e) => format!("err:{}", err_kind(&e)),
            }
        }
        "trait_partial_verify" => {
            let pk = pks(&a[1]);
            let sg = sigshare(a[0].scheme(), &a[2]);
            match a[0].scheme() {
                0 => fmt_unit(&<C as BlsSignatureBasic>::partial_verify(pk.0, *sg.as_raw_value(), a[3].bytes())),
                _ => fmt_unit(&<C as BlsSignaturePop>::partial_verify(pk.0, *sg.as_raw_value(), a[3].bytes())),
            }
        }
        "multi_pk" => {
            let keys: Vec<PublicKey<C>> =
                a[0].list().iter().map(|t| PublicKey::<C>(tok_pk(t))).collect();
            hexpt(&MultiPublicKey::<C>::from_public_keys(&keys).0)
        }
        // ---- shares ----
        "sk_split" => {
            let rng = rand_chacha::ChaCha20Rng::from_seed(arr32(a[3].bytes()));
            match SecretKey::<C>(tok_scalar(&a[0])).split_with_rng(
                a[1].num() as usize,
                a[2].num() as usize,
                rng,
            ) {
                Ok(v) => {
                    let mut s = String::from("ok:[");
                    for sh in &v {
                        s.push(' ');
                        s.push_str(&fmt_share(&Vec::<u8>::from(sh)));
                    }
                    s.push_str(" ]");
                    s
                }
                Err(e) => format!("err:{}", err_kind(&e)),
            }
        }
        "sk_combine" => {
            let shares: Vec<SecretKeyShare<C>> = a[0].list().iter().map(sks).collect();
            match SecretKey::<C>::combine(&shares) {
                Ok(k) => format!("ok:{}", hex::encode(bsc_be(&k.0))),
                Err(e) => format!("err:{}", err_kind(&e)),
            }
        }
        "sks_public_key" => match sks(&a[0]).public_key() {
            Ok(p) => format!("ok:{}", fmt_share(&Vec::<u8>::from(&p))),
            Err(e) => format!("err:{}", err_kind(&e)),
        },
        "sks_sign" => match sks(&a[0]).sign(scheme_of(a[1].scheme()), a[2].bytes()) {
            Ok(s) => {
                let b = Vec::<u8>::from(&s);
                format!("ok:{}:{}", ["basic", "aug", "pop"][b[0] as usize], fmt_share(&b[1..]))
            }
            Err(e) => format!("err:{}", err_kind(&e)),
        },
        "pks_verify" => {
            let pk = pks(&a[0]);
            let sg = sigshare(a[1].scheme(), &a[2]);
            fmt_unit(&pk.verify(&sg, a[3].bytes()))
        }
        "sig_from_shares" => {
            let l = a[0].list();
            let shares: Vec<SignatureShare<C>> =
                l.chunks(2).map(|c| sigshare(c[0].scheme(), &c[1])).collect();
            fmt_tagged(Signature::<C>::from_shares(&shares))
        }
        "pk_from_shares" => {
            let shares: Vec<PublicKeyShare<C>> = a[0].list().iter().map(pks).collect();
            match PublicKey::<C>::from_shares(&shares) {
                Ok(p) => format!("ok:{}", hexpt(&p.0)),
                Err(e) => format!("err:{}", err_kind(&e)),
            }
        }
        // ---- scalar byte codecs ----
        "sk_from_be" => {
            let o: Option<SecretKey<C>> = SecretKey::<C>::from_be_bytes(&arr32(a[0].bytes())).into();
            match o {
                Some(k) => format!("some:{}", hex::encode(bsc_be(&k.0))),
                None => "none".into(),
            }
        }
        "sk_from_le" => {
            let o: Option<SecretKey<C>> = SecretKey::<C>::from_le_bytes(&arr32(a[0].bytes())).into();
            match o {
                Some(k) => format!("some:{}", hex::encode(bsc_be(&k.0))),
                None => "none".into(),
            }
        }
        "sk_to_be" => hex::encode(SecretKey::<C>(tok_scalar(&a[0])).to_be_bytes()),
        "sk_to_le" => hex::encode(SecretKey::<C>(tok_scalar(&a[0])).to_le_bytes()),
        "sk_from_hash" => hex::encode(bsc_be(&SecretKey::<C>::from_hash(a[0].bytes()).0)),
        // ---- signcryption ----
        "pk_sign_crypt" => {
            let pk = PublicKey::<C>(tok_pk(&a[0]));
            let (ct, d) = with_seeds(&a[3..4], || pk.sign_crypt(scheme_of(a[1].scheme()), a[2].bytes()));
            format!("{}:{}:{}:{}:draws={}", hexpt(&ct.u), hex::encode(&ct.v), hexpt(&ct.w), scheme_name(ct.scheme), d)
        }
        "scct_is_valid" => format!("{}", bool::from(sc_ct(a).is_valid())),
        "scct_decrypt" => {
            fmt_opt_bytes(sc_ct(a).decrypt(&SecretKey::<C>(tok_scalar(&a[4]))))
        }
        "scct_create_decryption_share" => {
            let ct = sc_ct(a);
            match ct.create_decryption_share(&sks(&a[4])) {
                Ok(s) => format!("ok:{}", fmt_share(&Vec::<u8>::from(&s))),
                Err(e) => format!("err:{}", err_kind(&e)),
            }
        }
        "sds_verify" => {
            let ct = sc_ct(a);
            fmt_unit(&sds(&a[4]).verify(&pks(&a[5]), &ct))
        }
        "scct_decrypt_with_shares" => {
            let ct = sc_ct(a);
            let shares: Vec<SignDecryptionShare<C>> = a[4].list().iter().map(sds).collect();
            fmt_opt_bytes(ct.decrypt_with_shares(&shares))
        }
        "scdk_from_shares" => {
            let shares: Vec<SignDecryptionShare<C>> = a[0].list().iter().map(sds).collect();
            match SignCryptDecryptionKey::<C>::from_shares(&shares) {
                Ok(k) => format!("ok:{}", hexpt(&k.0)),
                Err(e) => format!("err:{}", err_kind(&e)),
            }
        }
        "scdk_decrypt" => {
            let ct = sc_ct(a);
            fmt_opt_bytes(SignCryptDecryptionKey::<C>(tok_pk(&a[4])).decrypt(&ct))
        }
        // ---- time lock ----
        "pk_encrypt_time_lock" => {
            let pk = PublicKey::<C>(tok_pk(&a[0]));
            let (r, d) = with_seeds(&a[4..5], || {
                pk.encrypt_time_lock(scheme_of(a[1].scheme()), a[2].bytes(), a[3].bytes())
            });
            match r {
                Ok(ct) => format!("ok:{}:{}:{}:{}:draws={}", hexpt(&ct.u), hex::encode(ct.v), hex::encode(&ct.w), scheme_name(ct.scheme), d),
                Err(e) => format!("err:{}:draws={}", err_kind(&e), d),
            }
        }
        "tlct_decrypt" => {
            let ct = TimeCryptCiphertext::<C> {
                u: tok_pk(&a[0]),
                v: arr32(a[1].bytes()),
                w: a[2].bytes().to_vec(),
                scheme: scheme_of(a[3].scheme()),
            };
            let sg = mk_sig(a[4].scheme(), tok_sig(&a[5]));
            fmt_opt_bytes(ct.decrypt(&sg))
        }
        // ---- ElGamal ----
        "message_generator" => hexpt(&<C as BlsElGamal>::message_generator()),
        "eg_encrypt" => {
            let pk = PublicKey::<C>(tok_pk(&a[0]));
            let (r, d) = with_seeds(&a[2..3], || pk.encrypt_key_el_gamal(&SecretKey::<C>(tok_scalar(&a[1]))));
            match r {
                Ok(ct) => format!("ok:{}:{}:draws={}", hexpt(&ct.c1), hexpt(&ct.c2), d),
                Err(e) => format!("err:{}:draws={}", err_kind(&e), d),
            }
        }
        "eg_encrypt_proof" => {
            let pk = PublicKey::<C>(tok_pk(&a[0]));
            let (r, d) = with_seeds(&a[2..3], || {
                pk.encrypt_key_el_gamal_with_proof(&SecretKey::<C>(tok_scalar(&a[1])))
            });
            match r {
                Ok(p) => format!(
                    "ok:{}:{}:{}:{}:{}:draws={}",
                    hexpt(&p.ciphertext.c1),
                    hexpt(&p.ciphertext.c2),
                    hex::encode(bsc_be(&p.message_proof)),
                    hex::encode(bsc_be(&p.blinder_proof)),
                    hex::encode(bsc_be(&p.challenge)),
                    d
                ),
                Err(e) => format!("err:{}:draws={}", err_kind(&e), d),
            }
        }
        "egct_decrypt" => {
            let ct = ElGamalCiphertext::<C> { c1: tok_pk(&a[0]), c2: tok_pk(&a[1]) };
            hexpt(&ct.decrypt(&SecretKey::<C>(tok_scalar(&a[2]))))
        }
        "egct_add" => {
            let l = a[0].list();
            let mut acc = ElGamalCiphertext::<C> { c1: tok_pk(&l[0]), c2: tok_pk(&l[1]) };
            // the sum through every spelling of `+` / `+=` (values and references): all must agree
            let (mut a2, mut a3, mut a4) = (acc.clone(), acc.clone(), acc.clone());
            let (mut a5, mut a6) = (acc.clone(), acc.clone());
            for c in l[2..].chunks(2) {
                let x = ElGamalCiphertext::<C> { c1: tok_pk(&c[0]), c2: tok_pk(&c[1]) };
                acc = acc + x.clone();
                a2 = &a2 + &x;
                a3 = a3 + &x;
                a4 += x.clone();
                a5 += &x;
                a6 = &a6 + x.clone();
            }
            let f = |c: &ElGamalCiphertext<C>| format!("{}:{}", hexpt(&c.c1), hexpt(&c.c2));
            let r = f(&acc);
            if f(&a2) != r || f(&a3) != r || f(&a4) != r || f(&a5) != r || f(&a6) != r {
                format!("forms_differ:{}|{}|{}|{}|{}|{}", r, f(&a2), f(&a3), f(&a4), f(&a5), f(&a6))
            } else {
                r
            }
        }
        "egp_verify" | "egp_verify_and_decrypt" => {
            let p = ElGamalProof::<C> {
                ciphertext: ElGamalCiphertext::<C> { c1: tok_pk(&a[0]), c2: tok_pk(&a[1]) },
                message_proof: tok_scalar(&a[2]),
                blinder_proof: tok_scalar(&a[3]),
                challenge: tok_scalar(&a[4]),
            };
            if op == "egp_verify" {
                fmt_unit(&p.verify(PublicKey::<C>(tok_pk(&a[5]))))
            } else {
                match p.verify_and_decrypt(&SecretKey::<C>(tok_scalar(&a[5]))) {
                    Ok(pt) => format!("ok:{}", hexpt(&pt)),
                    Err(e) => format!("err:{}", err_kind(&e)),
                }
            }
        }
        "egdk_from_shares" => {
            let shares: Vec<ElGamalDecryptionShare<C>> = a[0]
                .list()
                .iter()
                .map(|t| ElGamalDecryptionShare::<C>(pks(t).0))
                .collect();
            match ElGamalDecryptionKey::<C>::from_shares(&shares) {
                Ok(k) => format!("ok:{}", hexpt(&k.0)),
                Err(e) => format!("err:{}", err_kind(&e)),
            }
        }
        "egdk_decrypt" => {
            let ct = ElGamalCiphertext::<C> { c1: tok_pk(&a[1]), c2: tok_pk(&a[2]) };
            hexpt(&ElGamalDecryptionKey::<C>(tok_pk(&a[0])).decrypt(&ct))
        }
        // ---- proofs of knowledge ----
        "pc_generate" => {
            let sg = mk_sig(a[1].scheme(), tok_sig(&a[2]));
            let (r, d) = with_seeds(a[3].list(), || ProofCommitment::<C>::generate(a[0].bytes(), sg));
            match r {
                Ok((c, x)) => {
                    let b = Vec::<u8>::from(&c);
                    format!("ok:{}:{}:{}:draws={}", ["basic", "aug", "pop"][b[0] as usize], hex::encode(&b[1..]), hex::encode(bsc_be(&x.0)), d)
                }
                Err(e) => format!("err:{}:draws={}", err_kind(&e), d),
            }
        }
        "pc_finalize" => {
            let p = tok_sig(&a[1]);
            let c = match a[0].scheme() {
                0 => ProofCommitment::<C>::Basic(p),
                1 => ProofCommitment::<C>::MessageAugmentation(p),
                _ => ProofCommitment::<C>::ProofOfPossession(p),
            };
            let sg = mk_sig(a[4].scheme(), tok_sig(&a[5]));
            match c.finalize(ProofCommitmentSecret(tok_scalar(&a[2])), ProofCommitmentChallenge(tok_scalar(&a[3])), sg) {
                Ok(ProofOfKnowledge::Basic { u, v }) => format!("ok:basic:{}:{}", hexpt(&u), hexpt(&v)),
                Ok(ProofOfKnowledge::MessageAugmentation { u, v }) => format!("ok:aug:{}:{}", hexpt(&u), hexpt(&v)),
                Ok(ProofOfKnowledge::ProofOfPossession { u, v }) => format!("ok:pop:{}:{}", hexpt(&u), hexpt(&v)),
                Err(e) => format!("err:{}", err_kind(&e)),
            }
        }
        "pok_verify" => {
            let u = tok_sig(&a[1]);
            let v = tok_sig(&a[2]);
            let p = match a[0].scheme() {
                0 => ProofOfKnowledge::<C>::Basic { u, v },
                1 => ProofOfKnowledge::<C>::MessageAugmentation { u, v },
                _ => ProofOfKnowledge::<C>::ProofOfPossession { u, v },
            };
            fmt_unit(&p.verify(PublicKey::<C>(tok_pk(&a[3])), a[4].bytes(), ProofCommitmentChallenge(tok_scalar(&a[5]))))
        }
        "pokts_generate" => {
            let sg = mk_sig(a[1].scheme(), tok_sig(&a[2]));
            let (r, d) = with_seeds(a[3].list(), || ProofOfKnowledgeTimestamp::<C>::generate(a[0].bytes(), sg));
            match r {
                Ok(p) => {
                    let (sn, u, v) = match p.proof {
                        ProofOfKnowledge::Basic { u, v } => ("basic", u, v),
                        ProofOfKnowledge::MessageAugmentation { u, v } => ("aug", u, v),
                        ProofOfKnowledge::ProofOfPossession { u, v } => ("pop", u, v),
                    };
                    format!("ok:{}:{}:{}:{}:draws={} @now={}", sn, hexpt(&u), hexpt(&v), p.timestamp, d, (p.timestamp as u128) * 1_000_000)
                }
                Err(e) => format!("err:{}:draws={}", err_kind(&e), d),
            }
        }
        "pokts_verify_rel" => {
            // honest timestamp proof built for t = now + offset (ms), verified with the given timeout
            let sk = SecretKey::<C>(tok_scalar(&a[0]));
            let x = tok_scalar(&a[1]);
            let scheme = a[2].scheme();
            let msg = a[3].bytes();
            let offset: i128 = a[4].word().parse().expect("offset");
            let timeout: Option<u64> = a[5].opt().map(|t| t.num() as u64);
            let dst: &[u8] = match scheme {
                0 => <C as BlsSignatureBasic>::DST,
                1 => <C as BlsSignatureMessageAugmentation>::DST,
                _ => <C as BlsSignaturePop>::SIG_DST,
            };
            let sig = *sk.sign(scheme_of(scheme), msg).expect("sign").as_raw_value();
            let u = <C as HashToPoint>::hash_to_point(msg, dst) * x;
            let now_before = std::time::SystemTime::now().duration_since(std::time::UNIX_EPOCH).unwrap().as_nanos();
            let t_wide = (now_before / 1_000_000) as i128 + offset;
            let t: u64 = if t_wide < 0 { 0 } else if t_wide > u64::MAX as i128 { u64::MAX } else { t_wide as u64 };
            let y = <C as BlsSignatureProof>::compute_y(u, t);
            let v = -(sig * (x + y));
            let pr = match scheme {
                0 => ProofOfKnowledge::<C>::Basic { u, v },
                1 => ProofOfKnowledge::<C>::MessageAugmentation { u, v },
                _ => ProofOfKnowledge::<C>::ProofOfPossession { u, v },
            };
            let p = ProofOfKnowledgeTimestamp::<C> { proof: pr, timestamp: t };
            let r = p.verify(sk.public_key(), msg, timeout);
            let now_after = std::time::SystemTime::now().duration_since(std::time::UNIX_EPOCH).unwrap().as_nanos();
            // the verdict must not depend on where in [now_before, now_after] the library read the clock
            let expired = |now: u128| -> bool {
                match timeout {
                    None => false,
                    Some(tmo) => {
                        let since = (t as u128) * 1_000_000;
                        if since > now { true } else { (((now - since) / 1_000_000) as u64) > tmo }
                    }
                }
            };
            if expired(now_before) != expired(now_after) {
                "skip".to_string()
            } else {
                format!("{} @now={}", fmt_unit(&r), now_before)
            }
        }
        "bytes_rt" => {
            let b = a[1].bytes();
            macro_rules! rt {
                ($T:ty) => {
                    match <$T>::try_from(b) {
                        Ok(v) => format!("ok:{}", hex::encode(Vec::<u8>::from(&v))),
                        Err(e) => format!("err:{}", err_kind(&e)),
                    }
                };
            }
            match a[0].word() {
                "pk" => rt!(PublicKey<C>),
                "mpk" => rt!(MultiPublicKey<C>),
                "pop" => rt!(ProofOfPossession<C>),
                "sk" => rt!(SecretKey<C>),
                "pcs" => rt!(ProofCommitmentSecret<C>),
                "pcc" => rt!(ProofCommitmentChallenge<C>),
                "skenum" => rt!(SecretKeyEnum),
                "sig" => rt!(Signature<C>),
                "aggsig" => rt!(AggregateSignature<C>),
                "multisig" => rt!(MultiSignature<C>),
                "commitment" => rt!(ProofCommitment<C>),
                "pok" => rt!(ProofOfKnowledge<C>),
                "pokts" => rt!(ProofOfKnowledgeTimestamp<C>),
                "skshare" => rt!(SecretKeyShare<C>),
                "pkshare" => rt!(PublicKeyShare<C>),
                "sdshare" => rt!(SignDecryptionShare<C>),
                "egshare" => rt!(ElGamalDecryptionShare<C>),
                "inner1" => rt!(InnerPointShareG1),
                "inner2" => rt!(InnerPointShareG2),
                "sigshare" => rt!(SignatureShare<C>),
                "scct" => rt!(SignCryptCiphertext<C>),
                "scdk" => rt!(SignCryptDecryptionKey<C>),
                "egdk" => rt!(ElGamalDecryptionKey<C>),
                "tlct" => rt!(TimeCryptCiphertext<C>),
                "egct" => rt!(ElGamalCiphertext<C>),
                "egproof" => rt!(ElGamalProof<C>),
                t => format!("unknown-type:{t}"),
            }
        }
        "skenum_from_le" => {
            let o: Option<SecretKeyEnum> = SecretKeyEnum::from_le_bytes(a[0].bytes()).into();
            match o {
                Some(k) => format!("some:{}", hex::encode(k.to_le_bytes())),
                None => "none".into(),
            }
        }
        "skenum_from_be" => {
            let o: Option<SecretKeyEnum> = SecretKeyEnum::from_be_bytes(a[0].bytes()).into();
            match o {
                Some(k) => format!("some:{}", hex::encode(k.to_be_bytes())),
                None => "none".into(),
            }
        }
        // every hash-based key / challenge constructor of the public API on the same data
        "keygen_hash" => {
            let d = a[0].bytes();
            let t = if G1 { Bls12381::G1 } else { Bls12381::G2 };
            let e = match SecretKeyEnum::from_hash(t, d) {
                SecretKeyEnum::G1(k) => hex::encode(k.to_be_bytes()),
                SecretKeyEnum::G2(k) => hex::encode(k.to_be_bytes()),
            };
            format!(
                "{}:{}:{}:{}:{}",
                hex::encode(bsc_be(&SecretKey::<C>::from_hash(d).0)),
                hex::encode(bsc_be(&BlsSignature::<C>::secret_key_from_hash(d).0)),
                e,
                hex::encode(bsc_be(&ProofCommitmentChallenge::<C>::from_hash(d).0)),
                hex::encode(bsc_be(&BlsSignature::<C>::proof_challenge_from_hash(d).0))
            )
        }
        // every constructor that takes a caller-supplied generator, each on a fresh ChaCha20 stream of the same seed
        "keygen_seeded" => {
            use rand_chacha::ChaCha20Rng;
            use rand_core::SeedableRng;
            let seed = arr32(a[0].bytes());
            let t = if G1 { Bls12381::G1 } else { Bls12381::G2 };
            let e = match SecretKeyEnum::random(t, ChaCha20Rng::from_seed(seed)) {
                SecretKeyEnum::G1(k) => hex::encode(k.to_be_bytes()),
                SecretKeyEnum::G2(k) => hex::encode(k.to_be_bytes()),
            };
            format!(
                "{}:{}:{}:{}:{}",
                hex::encode(bsc_be(&SecretKey::<C>::random(ChaCha20Rng::from_seed(seed)).0)),
                hex::encode(bsc_be(&BlsSignature::<C>::random_secret_key(ChaCha20Rng::from_seed(seed)).0)),
                e,
                hex::encode(bsc_be(&ProofCommitmentChallenge::<C>::random(ChaCha20Rng::from_seed(seed)).0)),
                hex::encode(bsc_be(&BlsSignature::<C>::random_proof_challenge(ChaCha20Rng::from_seed(seed)).0))
            )
        }
        // the constructors that draw from the process entropy source, one tapped seed each
        "keygen_tap" => {
            let t = if G1 { Bls12381::G1 } else { Bls12381::G2 };
            let (k1, d1) = with_seeds(&a[0..1], || BlsSignature::<C>::new_secret_key());
            let (k2, d2) = with_seeds(&a[1..2], || BlsSignature::<C>::new_proof_challenge());
            let (k3, d3) = with_seeds(&a[2..3], || SecretKeyEnum::new(t));
            let e = match k3 {
                SecretKeyEnum::G1(k) => hex::encode(k.to_be_bytes()),
                SecretKeyEnum::G2(k) => hex::encode(k.to_be_bytes()),
            };
            format!("{}:draws={}:{}:draws={}:{}:draws={}", hex::encode(bsc_be(&k1.0)), d1, hex::encode(bsc_be(&k2.0)), d2, e, d3)
        }
        "sk_new" => {
            let (k, d) = with_seeds(&a[0..1], || SecretKey::<C>::new());
            format!("{}:draws={}", hex::encode(bsc_be(&k.0)), d)
        }
        "challenge_new" => {
            let (k, d) = with_seeds(&a[0..1], || ProofCommitmentChallenge::<C>::new());
            format!("{}:draws={}", hex::encode(bsc_be(&k.0)), d)
        }
        "sk_split_tap" => {
            let sk = SecretKey::<C>(tok_scalar(&a[0]));
            let (r, d) = with_seeds(&a[3..4], || sk.split(a[1].num() as usize, a[2].num() as usize));
            match r {
                Ok(v) => {
                    let mut s = String::from("ok:[");
                    for sh in &v {
                        s.push(' ');
                        s.push_str(&fmt_share(&Vec::<u8>::from(sh)));
                    }
                    s.push_str(&format!(" ]:draws={}", d));
                    s
                }
                Err(e) => format!("err:{}:draws={}", err_kind(&e), d),
            }
        }
        "compute_y" => hex::encode(bsc_be(&<C as BlsSignatureProof>::compute_y(tok_sig(&a[0]), a[1].num() as u64))),
        _ => format!("unknown-op:{op}"),
    }
}


        }
    };
}
per_impl!(g1, blsful::Bls12381G1Impl);
per_impl!(g2, blsful::Bls12381G2Impl);

pub fn run_line(line: &str) -> String {
    let w: Vec<&str> = line.split_whitespace().collect();
    let id = w[0];
    let imp = w[1];
    let op = w[2].to_string();
    let args = parse_args(&w[3..]);
    verif_hooks::set_known_dlog_hash(true);
    let r = std::panic::catch_unwind(|| match imp {
        "g1" => g1::run_op(&op, &args),
        "g2" => g2::run_op(&op, &args),
        _ => panic!("impl"),
    });
    verif_hooks::set_entropy_tap(false);
    match r {
        Ok(s) => format!("{id} {s}"),
        Err(_) => format!("{id} panic"),
    }
}

pub fn run_all() {
    use std::io::{BufRead, Write};
    std::panic::set_hook(Box::new(|_| {}));
    let stdin = std::io::stdin();
    let stdout = std::io::stdout();
    let mut out = stdout.lock();
    for line in stdin.lock().lines() {
        let line = line.unwrap();
        if line.trim().is_empty() || line.starts_with('#') {
            continue;
        }
        writeln!(out, "{}", run_line(&line)).unwrap();
    }
}
