//! C01 search (un-hooked API): honest tuples verify, are deterministic, match the reference,
//! and survive every encoding.
macro_rules! search_c01 {
    () => {
            pub fn c01(s: &mut Search, rng: &mut Prng, thorough: bool) {
                let mut keys = gen::edge_scalars();
                for _ in 0..(if thorough { 24 } else { 4 }) {
                    keys.push(rng.scalar());
                }
                let lens = gen::msg_lengths(thorough);
                for (ki, k) in keys.iter().enumerate() {
                    let sk = sk_of(k);
                    let pk = sk.public_key();
                    let pk_bytes = Vec::<u8>::from(&pk);
                    let ok_pk = pk_bytes == ref_sk_to_pk(G1, k);
                    s.case("public_key_matches_reference", gen::hs(k), ok_pk, json!({"impl": if G1 {"g1"} else {"g2"}, "sk": gen::hs(k)}));
                    for scheme in 0..3u8 {
                        for (li, &len) in lens.iter().enumerate() {
                            if ki >= 2 && (li + ki + scheme as usize) % 4 != 0 {
                                continue;
                            }
                            let m = gen::message(rng, len);
                            let det = json!({"impl": if G1 {"g1"} else {"g2"}, "sk": gen::hs(k), "scheme": gen::SCH[scheme as usize], "msg_len": len, "msg": if len <= 64 { gen::hx(&m) } else { format!("sha256:{}", gen::hx(&sha256(&m))) }});
                            let key = format!("{}|{}|{}|{}", G1, gen::hs(k), scheme, gen::hx(&sha256(&m)));
                            let sg = sk.sign(scheme_of(scheme), &m);
                            let sg2 = sk.sign(scheme_of(scheme), &m);
                            let (Ok(sg), Ok(sg2)) = (sg, sg2) else {
                                s.case("sign_succeeds", key, false, det);
                                continue;
                            };
                            s.case("sign_deterministic", key.clone(), sg == sg2, det.clone());
                            s.case("honest_verifies", key.clone(), sg.verify(&pk, &m).is_ok(), det.clone());
                            // reference verifier accepts, and bytes equal the reference signature
                            let raw = sg.as_raw_value().to_bytes().as_ref().to_vec();
                            let am = gen::amsg(G1, scheme, k, &m);
                            s.case("reference_accepts", key.clone(), ref_core_verify(G1, &pk_bytes, &raw, &am, &gen::dst(G1, scheme)), det.clone());
                            // through the encodings: bytes, bare, json of key, public key, signature
                            let skb = Vec::<u8>::from(&sk);
                            let sgb = Vec::<u8>::from(&sg);
                            let r = catch(|| {
                                let sk2 = SecretKey::<C>::try_from(skb.as_slice()).map_err(|_| ())?;
                                let pk2 = PublicKey::<C>::try_from(pk_bytes.as_slice()).map_err(|_| ())?;
                                let sg3 = Signature::<C>::try_from(sgb.as_slice()).map_err(|_| ())?;
                                let sgj: Signature<C> = serde_json::from_str(&serde_json::to_string(&sg).map_err(|_| ())?).map_err(|_| ())?;
                                let pkj: PublicKey<C> = serde_json::from_str(&serde_json::to_string(&pk).map_err(|_| ())?).map_err(|_| ())?;
                                let skj: SecretKey<C> = serde_json::from_str(&serde_json::to_string(&sk).map_err(|_| ())?).map_err(|_| ())?;
                                let skbare: SecretKey<C> = serde_bare::from_slice(&serde_bare::to_vec(&sk).map_err(|_| ())?).map_err(|_| ())?;
                                let ok = sk2 == sk && skj == sk && skbare == sk
                                    && sg3.verify(&pk2, &m).is_ok() && sgj.verify(&pkj, &m).is_ok()
                                    && sk2.sign(scheme_of(scheme), &m).map_err(|_| ())? == sg;
                                Ok::<bool, ()>(ok)
                            });
                            s.case("verifies_through_encodings", key, matches!(r, Ok(Ok(true))), det);
                        }
                    }
                    // the same bytes signed under one scheme right after another (and right after / before the
                    // proof of possession over the key's own bytes): the result must not depend on what was
                    // signed before, so the reference verifier must accept the second one
                    for (mi, m) in [gen::message(rng, 0), gen::message(rng, 33), pk_bytes.clone()].iter().enumerate() {
                        if ki >= 4 && (mi + ki) % 3 != 0 {
                            continue;
                        }
                        for a in 0..4u8 {
                            for b in 0..3u8 {
                                if a == b || (a == 3 && mi != 2) {
                                    continue;
                                }
                                let first = if a == 3 { sk.proof_of_possession().is_ok() } else { sk.sign(scheme_of(a), m).is_ok() };
                                let second = sk.sign(scheme_of(b), m);
                                let det = json!({"impl": if G1 {"g1"} else {"g2"}, "sk": gen::hs(k), "msg": gen::hx(m), "msg_len": m.len(),
                                    "signed_just_before": if a == 3 { "proof of possession" } else { gen::SCH[a as usize] }, "scheme": gen::SCH[b as usize]});
                                let key = format!("{}|{}|{}|{}|{}", G1, gen::hs(k), a, b, gen::hx(&sha256(m)));
                                let Ok(sg) = second else {
                                    s.case("sign_after_other_scheme_succeeds", key, false, det);
                                    continue;
                                };
                                let raw = sg.as_raw_value().to_bytes().as_ref().to_vec();
                                let am = gen::amsg(G1, b, k, m);
                                s.case("sign_after_other_scheme_reference_accepts", key, first && ref_core_verify(G1, &pk_bytes, &raw, &am, &gen::dst(G1, b)), det);
                            }
                        }
                    }
                }
            }
    };
}
