//! Miscellaneous searches: C03 (IETF ciphersuite conformance), C19 (backend interchangeability,
//! driven by the `c19-produce` / `c19-consume` subcommands) and C20 (fresh randomness).
//!
//! Plain functions (reference side, orchestration of C19, the C20 child process) live outside the
//! macro and are reached as `crate::search_misc::name`; everything that mentions `C` is inside.
use crate::gen::Prng;
use crate::search::Search;
use bls12_381_plus as rr;
use bls12_381_plus::group::Curve as _;
use serde_json::{json, Value};

// ---------------------------------------------------------------------------------------------
// RFC 9380 appendix J.9.1 / J.10.1 known answers (suites BLS12381G1_XMD:SHA-256_SSWU_RO_ and
// BLS12381G2_XMD:SHA-256_SSWU_RO_), copied from the test-suite of bls12_381_plus 0.8.18
// (src/tests/mod.rs, `hash_to_curve_g1_ro` / `hash_to_curve_g2_ro`): uncompressed points
// (G1: x || y, G2: x_c1 || x_c0 || y_c1 || y_c0).
// ---------------------------------------------------------------------------------------------
pub const MISC_KAT_DST_G1: &[u8] = b"QUUX-V01-CS02-with-BLS12381G1_XMD:SHA-256_SSWU_RO_";
pub const MISC_KAT_DST_G2: &[u8] = b"QUUX-V01-CS02-with-BLS12381G2_XMD:SHA-256_SSWU_RO_";
pub const MISC_KAT_G1: [&str; 5] = [
    "052926add2207b76ca4fa57a8734416c8dc95e24501772c814278700eed6d1e4e8cf62d9c09db0fac349612b759e79a108ba738453bfed09cb546dbb0783dbb3a5f1f566ed67bb6be0e8c67e2e81a4cc68ee29813bb7994998f3eae0c9c6a265",
    "03567bc5ef9c690c2ab2ecdf6a96ef1c139cc0b2f284dca0a9a7943388a49a3aee664ba5379a7655d3c68900be2f69030b9c15f3fe6e5cf4211f346271d7b01c8f3b28be689c8429c85b67af215533311f0b8dfaaa154fa6b88176c229f2885d",
    "11e0b079dea29a68f0383ee94fed1b940995272407e3bb916bbf268c263ddd57a6a27200a784cbc248e84f357ce82d9803a87ae2caf14e8ee52e51fa2ed8eefe80f02457004ba4d486d6aa1f517c0889501dc7413753f9599b099ebcbbd2d709",
    "15f68eaa693b95ccb85215dc65fa81038d69629f70aeee0d0f677cf22285e7bf58d7cb86eefe8f2e9bc3f8cb84fac4881807a1d50c29f430b8cafc4f8638dfeeadf51211e1602a5f184443076715f91bb90a48ba1e370edce6ae1062f5e6dd38",
    "082aabae8b7dedb0e78aeb619ad3bfd9277a2f77ba7fad20ef6aabdc6c31d19ba5a6d12283553294c1825c4b3ca2dcfe05b84ae5a942248eea39e1d91030458c40153f3b654ab7872d779ad1e942856a20c438e8d99bc8abfbf74729ce1f7ac8",
];
pub const MISC_KAT_G2: [&str; 5] = [
    "05cb8437535e20ecffaef7752baddf98034139c38452458baeefab379ba13dff5bf5dd71b72418717047f5b0f37da03d0141ebfbdca40eb85b87142e130ab689c673cf60f1a3e98d69335266f30d9b8d4ac44c1038e9dcdd5393faf5c41fb78a12424ac32561493f3fe3c260708a12b7c620e7be00099a974e259ddc7d1f6395c3c811cdd19f1e8dbf3e9ecfdcbab8d60503921d7f6a12805e72940b963c0cf3471c7b2a524950ca195d11062ee75ec076daf2d4bc358c4b190c0c98064fdd92",
    "139cddbccdc5e91b9623efd38c49f81a6f83f175e80b06fc374de9eb4b41dfe4ca3a230ed250fbe3a2acf73a41177fd802c2d18e033b960562aae3cab37a27ce00d80ccd5ba4b7fe0e7a210245129dbec7780ccc7954725f4168aff2787776e600aa65dae3c8d732d10ecd2c50f8a1baf3001578f71c694e03866e9f3d49ac1e1ce70dd94a733534f106d4cec0eddd161787327b68159716a37440985269cf584bcb1e621d3a7202be6ea05c4cfe244aeb197642555a0645fb87bf7466b2ba48",
    "190d119345b94fbd15497bcba94ecf7db2cbfd1e1fe7da034d26cbba169fb3968288b3fafb265f9ebd380512a71c3f2c121982811d2491fde9ba7ed31ef9ca474f0e1501297f68c298e9f4c0028add35aea8bb83d53c08cfc007c1e005723cd00bb5e7572275c567462d91807de765611490205a941a5a6af3b1691bfe596c31225d3aabdf15faff860cb4ef17c7c3be05571a0f8d3c08d094576981f4a3b8eda0a8e771fcdcc8ecceaf1356a6acf17574518acb506e435b639353c2e14827c8",
    "0934aba516a52d8ae479939a91998299c76d39cc0c035cd18813bec433f587e2d7a4fef038260eef0cef4d02aae3eb9119a84dd7248a1066f737cc34502ee5555bd3c19f2ecdb3c7d9e24dc65d4e25e50d83f0f77105e955d78f4762d33c17da09bcccfa036b4847c9950780733633f13619994394c23ff0b32fa6b795844f4a0673e20282d07bc69641cee04f5e566214f81cd421617428bc3b9fe25afbb751d934a00493524bc4e065635b0555084dd54679df1536101b2c979c0152d09192",
    "11fca2ff525572795a801eed17eb12785887c7b63fb77a42be46ce4a34131d71f7a73e95fee3f812aea3de78b4d0156901a6ba2f9a11fa5598b2d8ace0fbe0a0eacb65deceb476fbbcb64fd24557c2f4b18ecfc5663e54ae16a84f5ab7f6253403a47f8e6d1763ba0cad63d6114c0accbef65707825a511b251a660a9b3994249ae4e63fac38b23da0c398689ee2ab520b6798718c8aed24bc19cb27f866f1c9effcdbf92397ad6448b5c9db90d2b9da6cbabf48adc1adf59a1a28344e79d57e",
];

/// the five messages of the RFC 9380 suites
pub fn misc_kat_msgs() -> Vec<Vec<u8>> {
    let mut q = b"q128_".to_vec();
    q.extend(std::iter::repeat(b'q').take(128));
    let mut a = b"a512_".to_vec();
    a.extend(std::iter::repeat(b'a').take(512));
    vec![vec![], b"abc".to_vec(), b"abcdef0123456789".to_vec(), q, a]
}

/// compressed form of a known-answer point given in uncompressed hex (None: not a valid point)
pub fn misc_kat_compressed(in_g1: bool, hexs: &str) -> Option<Vec<u8>> {
    let b = hex::decode(hexs).ok()?;
    if in_g1 {
        let a: [u8; 96] = b.as_slice().try_into().ok()?;
        let p: Option<rr::G1Affine> = rr::G1Affine::from_uncompressed(&a).into();
        Some(p?.to_compressed().to_vec())
    } else {
        let a: [u8; 192] = b.as_slice().try_into().ok()?;
        let p: Option<rr::G2Affine> = rr::G2Affine::from_uncompressed(&a).into();
        Some(p?.to_compressed().to_vec())
    }
}

/// plain group sum of compressed points (reference backend)
pub fn misc_ref_sum(in_g1: bool, parts: &[Vec<u8>]) -> Option<Vec<u8>> {
    if in_g1 {
        let mut acc = rr::G1Projective::IDENTITY;
        for p in parts {
            acc += rr::G1Projective::from(crate::refs::dec_g1(p)?);
        }
        Some(acc.to_affine().to_compressed().to_vec())
    } else {
        let mut acc = rr::G2Projective::IDENTITY;
        for p in parts {
            acc += rr::G2Projective::from(crate::refs::dec_g2(p)?);
        }
        Some(acc.to_affine().to_compressed().to_vec())
    }
}

/// Reference CoreAggregateVerify of the draft (2.9): `pairs` = (compressed public key, message as
/// it is hashed, i.e. already prefixed for the AUG suite); e(g, sig) == prod e(pk_i, H(m_i)).
pub fn misc_ref_aggregate_verify(sig_in_g1: bool, pairs: &[(Vec<u8>, Vec<u8>)], sig: &[u8], dst: &[u8]) -> bool {
    if pairs.is_empty() {
        return false;
    }
    if sig_in_g1 {
        let Some(sg) = crate::refs::dec_g1(sig) else { return false };
        if bool::from(sg.is_identity()) {
            return false;
        }
        let lhs = rr::pairing(&sg, &rr::G2Affine::generator());
        let mut rhs = rr::Gt::IDENTITY;
        for (pk, m) in pairs {
            let Some(p) = crate::refs::dec_g2(pk) else { return false };
            if bool::from(p.is_identity()) {
                return false;
            }
            rhs += rr::pairing(&crate::refs::ref_hash_g1(m, dst).to_affine(), &p);
        }
        lhs == rhs
    } else {
        let Some(sg) = crate::refs::dec_g2(sig) else { return false };
        if bool::from(sg.is_identity()) {
            return false;
        }
        let lhs = rr::pairing(&rr::G1Affine::generator(), &sg);
        let mut rhs = rr::Gt::IDENTITY;
        for (pk, m) in pairs {
            let Some(p) = crate::refs::dec_g1(pk) else { return false };
            if bool::from(p.is_identity()) {
                return false;
            }
            rhs += rr::pairing(&p, &crate::refs::ref_hash_g2(m, dst).to_affine());
        }
        lhs == rhs
    }
}

pub fn misc_chacha(seed: &[u8; 32]) -> rand_chacha::ChaCha20Rng {
    use rand_core::SeedableRng;
    rand_chacha::ChaCha20Rng::from_seed(*seed)
}

pub fn misc_seed32(rng: &mut Prng) -> [u8; 32] {
    let mut a = [0u8; 32];
    a.copy_from_slice(&rng.bytes(32));
    a
}

pub fn misc_mh(m: &[u8]) -> String {
    if m.len() <= 64 { hex::encode(m) } else { format!("sha256:{}", hex::encode(crate::refs::sha256(m))) }
}

/// `base` extended with the fields of `extra` (both objects)
pub fn misc_jmerge(base: &Value, extra: Value) -> Value {
    let mut o = base.clone();
    if let (Some(m), Value::Object(e)) = (o.as_object_mut(), extra) {
        for (k, v) in e {
            m.insert(k, v);
        }
    }
    o
}

pub fn misc_backend() -> &'static str {
    if cfg!(feature = "blst") { "blst" } else { "rust" }
}

/// start `n` copies of this executable as `c20-child <impl>` at the same moment; their report lines
pub fn misc_c20_spawn_children(imp: &str, n: usize) -> Result<Vec<String>, String> {
    let exe = std::env::current_exe().map_err(|e| e.to_string())?;
    let mut kids = vec![];
    for _ in 0..n {
        kids.push(
            std::process::Command::new(&exe)
                .args(["c20-child", imp])
                .stdin(std::process::Stdio::null())
                .stdout(std::process::Stdio::piped())
                .stderr(std::process::Stdio::null())
                .spawn()
                .map_err(|e| e.to_string())?,
        );
    }
    let mut lines = vec![];
    for k in kids {
        let o = k.wait_with_output().map_err(|e| e.to_string())?;
        let text = String::from_utf8_lossy(&o.stdout).to_string();
        lines.push(text.lines().find(|l| l.starts_with("C20CHILD ")).unwrap_or("").to_string());
    }
    Ok(lines)
}

/// (label, value) pairs of a child's line for `imp`; empty if the line is malformed or a call failed
pub fn misc_c20_parse_child(line: &str, imp: &str) -> Vec<(String, Vec<u8>)> {
    let mut it = line.split(' ');
    if it.next() != Some("C20CHILD") || it.next() != Some(imp) {
        return vec![];
    }
    let mut out = vec![];
    for tok in it {
        let Some((l, h)) = tok.split_once('=') else { return vec![] };
        let Ok(v) = hex::decode(h) else { return vec![] };
        if v.is_empty() {
            return vec![];
        }
        out.push((l.to_string(), v));
    }
    out
}

pub fn c20_child(imp: Option<&str>) {
    std::panic::set_hook(Box::new(|_| {}));
    if imp != Some("g2") {
        println!("{}", crate::search::g1::misc_c20_child_line());
    }
    if imp != Some("g1") {
        println!("{}", crate::search::g2::misc_c20_child_line());
    }
}

// ---------------------------------------------------------------------------------------------
// C19: `c19-produce <tier> <seed>` under one backend, `c19-consume <file>` under the other
// ---------------------------------------------------------------------------------------------

/// the JSON document of one backend: deterministic transcript and randomized artefacts
pub fn c19_produce(thorough: bool, seed: u64) {
    std::panic::set_hook(Box::new(|_| {}));
    let mut det: Vec<Value> = vec![];
    let mut art: Vec<Value> = vec![];
    let mut rng = Prng(seed ^ 0xC19_0001);
    for (op, inputs) in crate::search::g1::misc_c19_det_inputs(&mut rng, thorough) {
        let o = crate::search::g1::misc_c19_eval_caught(&op, &inputs);
        det.push(json!({"op": op, "impl": "g1", "inputs": inputs, "output_hex": o}));
    }
    for (op, inputs) in crate::search::g2::misc_c19_det_inputs(&mut rng, thorough) {
        let o = crate::search::g2::misc_c19_eval_caught(&op, &inputs);
        det.push(json!({"op": op, "impl": "g2", "inputs": inputs, "output_hex": o}));
    }
    let mut rng = Prng(seed ^ 0xC19_0002);
    art.extend(crate::search::g1::misc_c19_artefacts(&mut rng, thorough));
    art.extend(crate::search::g2::misc_c19_artefacts(&mut rng, thorough));
    println!(
        "{}",
        json!({"property": "C19", "backend": misc_backend(), "tier": if thorough { "thorough" } else { "quick" }, "seed": seed,
               "deterministic": det, "artefacts": art})
    );
}

/// recompute the transcript and consume the artefacts of a document made by `c19-produce`
pub fn c19_consume(path: &str) {
    std::panic::set_hook(Box::new(|_| {}));
    let mut s = Search::new("C19");
    let doc: Value = match std::fs::read_to_string(path).map_err(|e| e.to_string()).and_then(|t| serde_json::from_str(&t).map_err(|e| e.to_string())) {
        Ok(d) => d,
        Err(e) => {
            eprintln!("c19-consume: cannot read {path}: {e}");
            std::process::exit(2);
        }
    };
    let producer = doc["backend"].as_str().unwrap_or("?").to_string();
    let empty = vec![];
    // the input lists are a function of (tier, seed) only: a producer whose list differs from the one this
    // build derives computed something else (the inputs themselves are backend independent)
    let thorough = doc["tier"].as_str() == Some("thorough");
    if let Some(seed) = doc["seed"].as_u64() {
        let mut rng = Prng(seed ^ 0xC19_0001);
        let mut mine: Vec<(String, &str, Value)> = vec![];
        for (op, i) in crate::search::g1::misc_c19_det_inputs(&mut rng, thorough) {
            mine.push((op, "g1", i));
        }
        for (op, i) in crate::search::g2::misc_c19_det_inputs(&mut rng, thorough) {
            mine.push((op, "g2", i));
        }
        let theirs = doc["deterministic"].as_array().unwrap_or(&empty);
        let same = mine.len() == theirs.len()
            && mine.iter().zip(theirs).all(|((op, imp, i), t)| t["op"].as_str() == Some(op.as_str()) && t["impl"].as_str() == Some(*imp) && &t["inputs"] == i);
        s.case("deterministic_input_list", format!("{}|{}", seed, thorough), same,
            json!({"producer": producer, "consumer": misc_backend(), "seed": seed, "producer_entries": theirs.len(), "consumer_entries": mine.len()}));
    }
    for (n, d) in doc["deterministic"].as_array().unwrap_or(&empty).iter().enumerate() {
        let op = d["op"].as_str().unwrap_or("?");
        let imp = d["impl"].as_str().unwrap_or("?");
        let mine = match imp {
            "g1" => crate::search::g1::misc_c19_eval_caught(op, &d["inputs"]),
            _ => crate::search::g2::misc_c19_eval_caught(op, &d["inputs"]),
        };
        let theirs = d["output_hex"].as_str().unwrap_or("?");
        let sub = match (op, d["inputs"]["what"].as_str(), d["inputs"]["format"].as_str()) {
            ("encode", Some(w), Some(f)) => format!("deterministic_encode_{f}_{w}"),
            _ => format!("deterministic_{op}"),
        };
        s.case(&sub, format!("{n}|{imp}"), mine == theirs,
            json!({"index": n, "op": op, "impl": imp, "inputs": d["inputs"], "producer": producer, "producer_output": theirs,
                   "consumer": misc_backend(), "consumer_output": mine}));
    }
    for (n, a) in doc["artefacts"].as_array().unwrap_or(&empty).iter().enumerate() {
        let kind = a["kind"].as_str().unwrap_or("?");
        let imp = a["impl"].as_str().unwrap_or("?");
        let g1 = imp == "g1";
        let r = std::panic::catch_unwind(|| if g1 { crate::search::g1::misc_c19_consume_one(a) } else { crate::search::g2::misc_c19_consume_one(a) });
        let expected = if g1 { crate::search::g1::misc_c19_expected(a) } else { crate::search::g2::misc_c19_expected(a) };
        let theirs = a["producer_outcome"].as_str().unwrap_or("?");
        let (ok, mine) = match r {
            Err(_) => (false, "!panic".to_string()),
            Ok(Err(e)) => (false, format!("!{e}")),
            Ok(Ok(o)) => (o == theirs, o),
        };
        let class = if mine == "!panic" { format!("artefact_{kind}_panicked") } else { format!("artefact_{kind}") };
        s.case(&class, format!("{n}|{imp}"), ok,
            json!({"index": n, "artefact": a, "producer": producer, "consumer": misc_backend(), "consumer_outcome": mine,
                   "honest_expectation": expected, "producer_met_honest_expectation": expected.as_deref() == Some(theirs)}));
    }
    s.finish();
}

macro_rules! search_misc {
    () => {
        search_misc_common!();
        search_misc_c03!();
        search_misc_c20!();
        search_misc_c19!();
    };
}

macro_rules! search_misc_common {
    () => {
        pub type MiscS = <C as Pairing>::Signature;
        pub type MiscP = <C as Pairing>::PublicKey;

        pub fn misc_imp() -> &'static str {
            if G1 { "g1" } else { "g2" }
        }
        fn misc_try<T>(f: impl FnOnce() -> T) -> Result<T, ()> {
            catch(std::panic::AssertUnwindSafe(f))
        }
        fn misc_sb(p: &MiscS) -> Vec<u8> {
            p.to_bytes().as_ref().to_vec()
        }
        fn misc_pb(p: &MiscP) -> Vec<u8> {
            p.to_bytes().as_ref().to_vec()
        }
        /// checked decoding of a compressed point of the signature group
        fn misc_sig_pt(b: &[u8]) -> Option<MiscS> {
            let mut repr = <MiscS as GroupEncoding>::Repr::default();
            if repr.as_ref().len() != b.len() {
                return None;
            }
            repr.as_mut().copy_from_slice(b);
            Option::from(MiscS::from_bytes(&repr))
        }
        fn misc_pk_pt(b: &[u8]) -> Option<MiscP> {
            let mut repr = <MiscP as GroupEncoding>::Repr::default();
            if repr.as_ref().len() != b.len() {
                return None;
            }
            repr.as_mut().copy_from_slice(b);
            Option::from(MiscP::from_bytes(&repr))
        }
        fn misc_mk_sig(scheme: u8, p: MiscS) -> Signature<C> {
            match scheme {
                0 => Signature::Basic(p),
                1 => Signature::MessageAugmentation(p),
                _ => Signature::ProofOfPossession(p),
            }
        }
        fn misc_mk_agg(scheme: u8, p: MiscS) -> AggregateSignature<C> {
            match scheme {
                0 => AggregateSignature::Basic(p),
                1 => AggregateSignature::MessageAugmentation(p),
                _ => AggregateSignature::ProofOfPossession(p),
            }
        }
        fn misc_agg_raw(a: &AggregateSignature<C>) -> (u8, MiscS) {
            match a {
                AggregateSignature::Basic(p) => (0, *p),
                AggregateSignature::MessageAugmentation(p) => (1, *p),
                AggregateSignature::ProofOfPossession(p) => (2, *p),
            }
        }
        fn misc_sig_scheme(a: &Signature<C>) -> u8 {
            match a {
                Signature::Basic(_) => 0,
                Signature::MessageAugmentation(_) => 1,
                Signature::ProofOfPossession(_) => 2,
            }
        }
        fn misc_sk_from_be(b: &[u8]) -> Option<SecretKey<C>> {
            let a: [u8; 32] = b.try_into().ok()?;
            let mut le = a;
            le.reverse();
            let mut repr = <Scalar as PrimeField>::Repr::default();
            repr.as_mut().copy_from_slice(&le);
            let o: Option<Scalar> = Scalar::from_repr(repr).into();
            o.map(SecretKey::<C>)
        }
    };
}

macro_rules! search_misc_c03 {
    () => {
        /// C03: keys, signatures, proofs of possession and aggregates are the IETF values
        pub fn c03(s: &mut Search, rng: &mut Prng, thorough: bool) {
            misc_c03_keygen(s, rng, thorough);
            misc_c03_sigs(s, rng, thorough);
            misc_c03_pop(s, rng, thorough);
            misc_c03_aggregates(s, rng, thorough);
            misc_c03_kat(s);
        }

        const MISC_KEYGEN_SALT: &[u8] = b"BLS-SIG-KEYGEN-SALT-";

        fn misc_c03_keygen(s: &mut Search, rng: &mut Prng, thorough: bool) {
            let mut lens = vec![0usize, 1, 31, 32, 33, 64, 200];
            if thorough {
                lens.extend_from_slice(&[2, 16, 48, 55, 56, 63, 65, 119, 120, 255, 256, 1000, 4096, 65536]);
            }
            let per = if thorough { 8 } else { 2 };
            for &len in &lens {
                let mut seeds: Vec<Vec<u8>> = vec![vec![0u8; len], vec![0xffu8; len], (0..len).map(|i| i as u8).collect()];
                for _ in 0..per {
                    seeds.push(rng.bytes(len));
                }
                let mut uniq = std::collections::HashSet::new();
                seeds.retain(|x| uniq.insert(x.clone()));
                for seed in seeds {
                    let key = format!("{}|{}|{}", G1, len, gen::hx(&sha256(&seed)));
                    let expect = hkdf_scalar(MISC_KEYGEN_SALT, &seed);
                    let det = json!({"impl": misc_imp(), "seed_len": len, "seed": crate::search_misc::misc_mh(&seed), "reference_sk": gen::hs(&expect)});
                    let r = misc_try(|| SecretKey::<C>::from_hash(&seed));
                    let Ok(sk) = r else {
                        s.case("keygen_panicked", key, false, det);
                        continue;
                    };
                    let got = sk.to_be_bytes();
                    s.case("keygen_matches_reference", key.clone(), got == sc_be(&expect),
                        crate::search_misc::misc_jmerge(&det, json!({"library_sk": gen::hx(&got)})));
                    // the other entry points for seed-derived keys give the same key
                    let r2 = misc_try(|| {
                        let a = BlsSignature::<C>::secret_key_from_hash(&seed);
                        let b = SecretKeyEnum::from_hash(if G1 { Bls12381::G1 } else { Bls12381::G2 }, &seed);
                        let bb = match &b {
                            SecretKeyEnum::G1(k) => k.to_be_bytes(),
                            SecretKeyEnum::G2(k) => k.to_be_bytes(),
                        };
                        a.to_be_bytes() == got && bb == got
                    });
                    s.case("keygen_entry_points_agree", key.clone(), r2 == Ok(true), det.clone());
                    let pkb = Vec::<u8>::from(&sk.public_key());
                    s.case("keygen_public_key_matches_reference", key, pkb == ref_sk_to_pk(G1, &expect),
                        crate::search_misc::misc_jmerge(&det, json!({"library_pk": gen::hx(&pkb)})));
                }
            }
            // keys drawn from a caller-supplied generator: 32 bytes of its output through KeyGen
            for _ in 0..(if thorough { 64 } else { 8 }) {
                let seed = crate::search_misc::misc_seed32(rng);
                let expect = hkdf_scalar(MISC_KEYGEN_SALT, &rng_bytes32(&seed));
                let det = json!({"impl": misc_imp(), "chacha20_seed": gen::hx(&seed), "reference_sk": gen::hs(&expect)});
                let r = misc_try(|| {
                    let a = SecretKey::<C>::random(crate::search_misc::misc_chacha(&seed));
                    let b = BlsSignature::<C>::random_secret_key(crate::search_misc::misc_chacha(&seed));
                    (a.to_be_bytes(), b.to_be_bytes())
                });
                match r {
                    Err(()) => s.case("keygen_panicked", gen::hx(&seed), false, det),
                    Ok((a, b)) => s.case("keygen_from_generator_matches_reference", format!("{}|{}", G1, gen::hx(&seed)),
                        a == sc_be(&expect) && b == a, crate::search_misc::misc_jmerge(&det, json!({"library_sk": gen::hx(&a)}))),
                }
            }
        }

        fn misc_c03_sigs(s: &mut Search, rng: &mut Prng, thorough: bool) {
            let mut keys = gen::edge_scalars();
            for _ in 0..(if thorough { 24 } else { 4 }) {
                keys.push(rng.scalar());
            }
            // and seed-derived keys, as another implementation would create them
            for _ in 0..(if thorough { 8 } else { 2 }) {
                keys.push(hkdf_scalar(MISC_KEYGEN_SALT, &rng.bytes(32)));
            }
            let lens = gen::msg_lengths(thorough);
            for (ki, k) in keys.iter().enumerate() {
                let sk = sk_of(k);
                let ref_pk = ref_sk_to_pk(G1, k);
                let pk = sk.public_key();
                let pk_bytes = Vec::<u8>::from(&pk);
                let pk2 = Vec::<u8>::from(&PublicKey::<C>::from(&sk));
                s.case("public_key_matches_reference", format!("{}|{}", G1, gen::hs(k)), pk_bytes == ref_pk && pk2 == ref_pk,
                    json!({"impl": misc_imp(), "sk": gen::hs(k), "library_pk": gen::hx(&pk_bytes), "reference_pk": gen::hx(&ref_pk)}));
                // the key another implementation would hand over
                let pk_in = misc_try(|| PublicKey::<C>::try_from(ref_pk.as_slice()).ok()).ok().flatten();
                for scheme in 0..3u8 {
                    for (li, &len) in lens.iter().enumerate() {
                        if ki >= 2 && (li + ki + scheme as usize) % 4 != 0 {
                            continue;
                        }
                        let m = gen::message(rng, len);
                        let det = json!({"impl": misc_imp(), "sk": gen::hs(k), "scheme": gen::SCH[scheme as usize], "msg_len": len, "msg": crate::search_misc::misc_mh(&m)});
                        let key = format!("{}|{}|{}|{}", G1, gen::hs(k), scheme, gen::hx(&sha256(&m)));
                        let dstv = gen::dst(G1, scheme);
                        let am = gen::amsg(G1, scheme, k, &m);
                        let ref_sig = ref_core_sign(G1, k, &am, &dstv);
                        match misc_try(|| sk.sign(scheme_of(scheme), &m)) {
                            Err(()) => s.case("sign_panicked", key.clone(), false, det.clone()),
                            Ok(Err(_)) => s.case("sign_succeeds", key.clone(), false, det.clone()),
                            Ok(Ok(sg)) => {
                                let raw = misc_sb(sg.as_raw_value());
                                s.case("signature_matches_reference", key.clone(), raw == ref_sig && misc_sig_scheme(&sg) == scheme,
                                    crate::search_misc::misc_jmerge(&det, json!({"library_sig": gen::hx(&raw), "reference_sig": gen::hx(&ref_sig)})));
                                s.case("reference_accepts_library_signature", key.clone(), ref_core_verify(G1, &ref_pk, &raw, &am, &dstv), det.clone());
                            }
                        }
                        // a signature made by the reference, handed to the library as bytes
                        let r = misc_try(|| {
                            let p = misc_sig_pt(&ref_sig)?;
                            let pkx = pk_in?;
                            Some(misc_mk_sig(scheme, p).verify(&pkx, &m).is_ok())
                        });
                        match r {
                            Err(()) => s.case("verify_panicked", key.clone(), false, det.clone()),
                            Ok(None) => s.case("library_decodes_reference_values", key.clone(), false, det.clone()),
                            Ok(Some(acc)) => s.case("library_accepts_reference_signature", key.clone(), acc, det.clone()),
                        }
                    }
                }
            }
        }

        fn misc_c03_pop(s: &mut Search, rng: &mut Prng, thorough: bool) {
            let mut keys = gen::edge_scalars();
            for _ in 0..(if thorough { 64 } else { 8 }) {
                keys.push(rng.scalar());
            }
            let dstv = gen::dst_pop(G1);
            for k in &keys {
                let sk = sk_of(k);
                let ref_pk = ref_sk_to_pk(G1, k);
                let ref_pop = ref_core_sign(G1, k, &ref_pk, &dstv);
                let key = format!("{}|{}", G1, gen::hs(k));
                let det = json!({"impl": misc_imp(), "sk": gen::hs(k), "reference_pop": gen::hx(&ref_pop)});
                match misc_try(|| sk.proof_of_possession()) {
                    Err(()) => s.case("pop_panicked", key.clone(), false, det.clone()),
                    Ok(Err(_)) => s.case("pop_succeeds", key.clone(), false, det.clone()),
                    Ok(Ok(p)) => {
                        let b = Vec::<u8>::from(&p);
                        s.case("pop_matches_reference", key.clone(), b == ref_pop, crate::search_misc::misc_jmerge(&det, json!({"library_pop": gen::hx(&b)})));
                        s.case("reference_accepts_library_pop", key.clone(), ref_core_verify(G1, &ref_pk, &b, &ref_pk, &dstv), det.clone());
                    }
                }
                let r = misc_try(|| {
                    let p = ProofOfPossession::<C>::try_from(ref_pop.as_slice()).ok()?;
                    let pkx = PublicKey::<C>::try_from(ref_pk.as_slice()).ok()?;
                    Some(p.verify(pkx).is_ok())
                });
                match r {
                    Err(()) => s.case("verify_panicked", key, false, det),
                    Ok(None) => s.case("library_decodes_reference_values", key, false, det),
                    Ok(Some(acc)) => s.case("library_accepts_reference_pop", key, acc, det),
                }
            }
        }

        fn misc_c03_aggregates(s: &mut Search, rng: &mut Prng, thorough: bool) {
            let mut sizes = vec![2usize, 3, 5, 16];
            if thorough {
                sizes.extend_from_slice(&[4, 8, 32, 64, 128]);
            }
            let edges = gen::edge_scalars();
            for (si, &n) in sizes.iter().enumerate() {
                for scheme in 0..3u8 {
                    // distinct keys, pairwise distinct messages (their index is part of them)
                    let ks: Vec<RScalar> = (0..n).map(|i| if i == 0 && si < edges.len() { edges[si] } else { rng.scalar() }).collect();
                    let ms: Vec<Vec<u8>> = (0..n).map(|i| {
                        let mut m = (i as u32).to_be_bytes().to_vec();
                        let l = rng.below(70) as usize;
                        m.extend(rng.bytes(l));
                        m
                    }).collect();
                    let dstv = gen::dst(G1, scheme);
                    let ref_sigs: Vec<Vec<u8>> = ks.iter().zip(&ms).map(|(k, m)| ref_core_sign(G1, k, &gen::amsg(G1, scheme, k, m), &dstv)).collect();
                    let ref_agg = crate::search_misc::misc_ref_sum(G1, &ref_sigs).expect("reference points");
                    let pairs: Vec<(Vec<u8>, Vec<u8>)> = ks.iter().zip(&ms).map(|(k, m)| (ref_sk_to_pk(G1, k), gen::amsg(G1, scheme, k, m))).collect();
                    let det = json!({"impl": misc_imp(), "scheme": gen::SCH[scheme as usize], "n": n,
                        "sks": ks.iter().map(gen::hs).collect::<Vec<_>>(), "msgs": ms.iter().map(|m| gen::hx(m)).collect::<Vec<_>>(),
                        "reference_aggregate": gen::hx(&ref_agg)});
                    let key = format!("{}|{}|{}|{}", G1, scheme, n, gen::hs(&ks[n - 1]));
                    let r = misc_try(|| {
                        let sigs: Vec<Signature<C>> = ks.iter().zip(&ms).map(|(k, m)| sk_of(k).sign(scheme_of(scheme), m)).collect::<Result<_, _>>().ok()?;
                        AggregateSignature::<C>::from_signatures(&sigs).ok()
                    });
                    match r {
                        Err(()) => s.case("aggregate_panicked", key.clone(), false, det.clone()),
                        Ok(None) => s.case("aggregate_succeeds", key.clone(), false, det.clone()),
                        Ok(Some(a)) => {
                            let (sc, p) = misc_agg_raw(&a);
                            let b = misc_sb(&p);
                            s.case("aggregate_matches_reference", key.clone(), b == ref_agg && sc == scheme,
                                crate::search_misc::misc_jmerge(&det, json!({"library_aggregate": gen::hx(&b)})));
                            s.case("reference_accepts_library_aggregate", key.clone(),
                                crate::search_misc::misc_ref_aggregate_verify(G1, &pairs, &b, &dstv), det.clone());
                        }
                    }
                    let r = misc_try(|| {
                        let p = misc_sig_pt(&ref_agg)?;
                        let data: Vec<(PublicKey<C>, Vec<u8>)> = ks.iter().zip(&ms)
                            .map(|(k, m)| PublicKey::<C>::try_from(ref_sk_to_pk(G1, k).as_slice()).ok().map(|pk| (pk, m.clone())))
                            .collect::<Option<_>>()?;
                        Some(misc_mk_agg(scheme, p).verify(&data).is_ok())
                    });
                    match r {
                        Err(()) => s.case("verify_panicked", key.clone(), false, det.clone()),
                        Ok(None) => s.case("library_decodes_reference_values", key.clone(), false, det.clone()),
                        Ok(Some(acc)) => s.case("library_accepts_reference_aggregate", key.clone(), acc, det.clone()),
                    }
                    // same message under all keys: the sums the draft uses for FastAggregateVerify
                    if scheme == 1 {
                        continue;
                    }
                    let m = &ms[0];
                    let ref_ms: Vec<Vec<u8>> = ks.iter().map(|k| ref_core_sign(G1, k, m, &dstv)).collect();
                    let ref_msum = crate::search_misc::misc_ref_sum(G1, &ref_ms).expect("reference points");
                    let ref_pks: Vec<Vec<u8>> = ks.iter().map(|k| ref_sk_to_pk(G1, k)).collect();
                    let ref_apk = crate::search_misc::misc_ref_sum(!G1, &ref_pks).expect("reference points");
                    let det = json!({"impl": misc_imp(), "scheme": gen::SCH[scheme as usize], "n": n,
                        "sks": ks.iter().map(gen::hs).collect::<Vec<_>>(), "msg": gen::hx(m),
                        "reference_multi_signature": gen::hx(&ref_msum), "reference_multi_public_key": gen::hx(&ref_apk)});
                    let r = misc_try(|| {
                        let sigs: Vec<Signature<C>> = ks.iter().map(|k| sk_of(k).sign(scheme_of(scheme), m)).collect::<Result<_, _>>().ok()?;
                        let ms_ = MultiSignature::<C>::from_signatures(&sigs).ok()?;
                        let pks: Vec<PublicKey<C>> = ks.iter().map(|k| sk_of(k).public_key()).collect();
                        let mpk = MultiPublicKey::<C>::from_public_keys(&pks);
                        Some((misc_sb(ms_.as_raw_value()), misc_pb(&mpk.0)))
                    });
                    match r {
                        Err(()) => s.case("aggregate_panicked", key.clone(), false, det.clone()),
                        Ok(None) => s.case("aggregate_succeeds", key.clone(), false, det.clone()),
                        Ok(Some((sb, pb))) => {
                            s.case("multi_signature_matches_reference", key.clone(), sb == ref_msum,
                                crate::search_misc::misc_jmerge(&det, json!({"library_multi_signature": gen::hx(&sb)})));
                            s.case("multi_public_key_matches_reference", key.clone(), pb == ref_apk,
                                crate::search_misc::misc_jmerge(&det, json!({"library_multi_public_key": gen::hx(&pb)})));
                            s.case("reference_accepts_library_multi_signature", key.clone(), ref_core_verify(G1, &pb, &sb, m, &dstv), det.clone());
                        }
                    }
                    let r = misc_try(|| {
                        let p = misc_sig_pt(&ref_msum)?;
                        let apk = MultiPublicKey::<C>::try_from(ref_apk.as_slice()).ok()?;
                        let msig = match scheme {
                            0 => MultiSignature::<C>::Basic(p),
                            _ => MultiSignature::<C>::ProofOfPossession(p),
                        };
                        Some(msig.verify(apk, m).is_ok())
                    });
                    match r {
                        Err(()) => s.case("verify_panicked", key.clone(), false, det.clone()),
                        Ok(None) => s.case("library_decodes_reference_values", key.clone(), false, det.clone()),
                        Ok(Some(acc)) => s.case("library_accepts_reference_multi_signature", key.clone(), acc, det.clone()),
                    }
                }
            }
        }

        /// RFC 9380 known answers through the library's own hash-to-point entry points:
        /// the signature group via `C`, the public-key group via the ElGamal hasher
        fn misc_c03_kat(s: &mut Search) {
            let msgs = crate::search_misc::misc_kat_msgs();
            for (i, m) in msgs.iter().enumerate() {
                // signature group
                let (dstv, vec_hex) = if G1 { (crate::search_misc::MISC_KAT_DST_G1, crate::search_misc::MISC_KAT_G1[i]) } else { (crate::search_misc::MISC_KAT_DST_G2, crate::search_misc::MISC_KAT_G2[i]) };
                let expect = crate::search_misc::misc_kat_compressed(G1, vec_hex).expect("known answer decodes");
                let det = json!({"impl": misc_imp(), "group": if G1 { "G1" } else { "G2" }, "via": "HashToPoint for the implementation",
                    "dst": String::from_utf8_lossy(dstv), "msg": String::from_utf8_lossy(m), "expected_compressed": gen::hx(&expect)});
                match misc_try(|| misc_sb(&<C as HashToPoint>::hash_to_point(m, dstv))) {
                    Err(()) => s.case("hash_to_point_panicked", format!("{}|sig|{}", G1, i), false, det),
                    Ok(b) => s.case("rfc9380_hash_to_curve_vector", format!("{}|sig|{}", G1, i), b == expect,
                        crate::search_misc::misc_jmerge(&det, json!({"library": gen::hx(&b)}))),
                }
                // public-key group
                let (dstv, vec_hex) = if !G1 { (crate::search_misc::MISC_KAT_DST_G1, crate::search_misc::MISC_KAT_G1[i]) } else { (crate::search_misc::MISC_KAT_DST_G2, crate::search_misc::MISC_KAT_G2[i]) };
                let expect = crate::search_misc::misc_kat_compressed(!G1, vec_hex).expect("known answer decodes");
                let det = json!({"impl": misc_imp(), "group": if !G1 { "G1" } else { "G2" }, "via": "BlsElGamal::PublicKeyHasher",
                    "dst": String::from_utf8_lossy(dstv), "msg": String::from_utf8_lossy(m), "expected_compressed": gen::hx(&expect)});
                match misc_try(|| misc_pb(&<<C as BlsElGamal>::PublicKeyHasher as HashToPoint>::hash_to_point(m, dstv))) {
                    Err(()) => s.case("hash_to_point_panicked", format!("{}|pk|{}", G1, i), false, det),
                    Ok(b) => s.case("rfc9380_hash_to_curve_vector", format!("{}|pk|{}", G1, i), b == expect,
                        crate::search_misc::misc_jmerge(&det, json!({"library": gen::hx(&b)}))),
                }
            }
        }
    };
}

macro_rules! search_misc_c20 {
    () => {
        /// fixed arguments of a run of identical calls
        pub struct MiscC20Ctx {
            sk: SecretKey<C>,
            pk: PublicKey<C>,
            target: SecretKey<C>,
            sig: Signature<C>,
            msg: Vec<u8>,
            id: Vec<u8>,
            scheme: u8,
        }

        pub const MISC_C20_ENTRIES: [&str; 11] = [
            "secret_key_new", "new_secret_key", "split", "sign_crypt", "encrypt_time_lock", "encrypt_key_el_gamal",
            "encrypt_key_el_gamal_with_proof", "proof_commitment_generate", "pok_timestamp_generate",
            "proof_commitment_challenge_new", "new_proof_challenge",
        ];

        fn misc_c20_ctx(kb: &[u8; 32], tb: &[u8; 32], msg: &[u8], id: &[u8], scheme: u8) -> MiscC20Ctx {
            let sk = SecretKey::<C>(bsc(kb));
            let pk = sk.public_key();
            let sig = sk.sign(scheme_of(scheme), msg).expect("honest signature");
            MiscC20Ctx { sk, pk, target: SecretKey::<C>(bsc(tb)), sig, msg: msg.to_vec(), id: id.to_vec(), scheme }
        }

        /// one call of a randomized entry point; the ephemeral components of its result
        fn misc_c20_call(entry: usize, cx: &MiscC20Ctx) -> Result<Vec<(&'static str, Vec<u8>)>, String> {
            let e = |x: BlsError| format!("{x:?}");
            Ok(match entry {
                0 => vec![("key", SecretKey::<C>::new().to_be_bytes().to_vec())],
                1 => vec![("key", BlsSignature::<C>::new_secret_key().to_be_bytes().to_vec())],
                2 => {
                    let sh = cx.sk.split(2, 3).map_err(e)?;
                    const N: [&str; 3] = ["share1", "share2", "share3"];
                    sh.iter().enumerate().map(|(i, x)| (N[i], blsful::vsss_rs::Share::value_vec(&x.0))).collect()
                }
                3 => {
                    let c = cx.pk.sign_crypt(scheme_of(cx.scheme), &cx.msg);
                    vec![("u", misc_pb(&c.u)), ("v", c.v.clone()), ("w", misc_sb(&c.w))]
                }
                4 => {
                    let c = cx.pk.encrypt_time_lock(scheme_of(cx.scheme), &cx.msg, &cx.id).map_err(e)?;
                    vec![("u", misc_pb(&c.u)), ("v", c.v.to_vec()), ("w", c.w.clone())]
                }
                5 => {
                    let c = cx.pk.encrypt_key_el_gamal(&cx.target).map_err(e)?;
                    vec![("c1", misc_pb(&c.c1)), ("c2", misc_pb(&c.c2))]
                }
                6 => {
                    let p = cx.pk.encrypt_key_el_gamal_with_proof(&cx.target).map_err(e)?;
                    vec![("c1", misc_pb(&p.ciphertext.c1)), ("c2", misc_pb(&p.ciphertext.c2)),
                         ("message_proof", bsc_be(&p.message_proof).to_vec()), ("blinder_proof", bsc_be(&p.blinder_proof).to_vec()),
                         ("challenge", bsc_be(&p.challenge).to_vec())]
                }
                7 => {
                    let (c, x) = ProofCommitment::<C>::generate(&cx.msg, cx.sig).map_err(e)?;
                    let u = match c {
                        ProofCommitment::Basic(u) | ProofCommitment::MessageAugmentation(u) | ProofCommitment::ProofOfPossession(u) => u,
                    };
                    vec![("u", misc_sb(&u)), ("x", x.to_be_bytes().to_vec())]
                }
                8 => {
                    let p = ProofOfKnowledgeTimestamp::<C>::generate(&cx.msg, cx.sig).map_err(e)?;
                    let (u, v) = match p.proof {
                        ProofOfKnowledge::Basic { u, v } | ProofOfKnowledge::MessageAugmentation { u, v } | ProofOfKnowledge::ProofOfPossession { u, v } => (u, v),
                    };
                    vec![("u", misc_sb(&u)), ("v", misc_sb(&v))]
                }
                9 => vec![("y", ProofCommitmentChallenge::<C>::new().to_be_bytes().to_vec())],
                _ => vec![("y", BlsSignature::<C>::new_proof_challenge().to_be_bytes().to_vec())],
            })
        }

        fn misc_c20_run(entry: usize, n: usize, kb: &[u8; 32], tb: &[u8; 32], msg: &[u8], id: &[u8], scheme: u8)
            -> Vec<Result<Result<Vec<(&'static str, Vec<u8>)>, String>, ()>> {
            let Ok(cx) = misc_try(|| misc_c20_ctx(kb, tb, msg, id, scheme)) else { return (0..n).map(|_| Err(())).collect() };
            (0..n).map(|_| misc_try(|| misc_c20_call(entry, &cx))).collect()
        }

        /// C20: no two calls of a randomized entry point share an ephemeral value
        pub fn c20(s: &mut Search, rng: &mut Prng, thorough: bool) {
            use std::collections::HashMap;
            let n: usize = if thorough { 4096 } else { 128 };
            const THREADS: usize = 8;
            let kb = sc_be(&rng.scalar());
            let tb = sc_be(&rng.scalar());
            let msg = rng.bytes(40);
            let id = rng.bytes(16);
            // every ephemeral value seen in this process (and in the child processes), with where it came from
            let mut seen: HashMap<Vec<u8>, String> = HashMap::new();
            for (entry, name) in MISC_C20_ENTRIES.iter().enumerate() {
                let scheme = rng.below(3) as u8;
                let base = json!({"impl": misc_imp(), "entry_point": name, "scheme": gen::SCH[scheme as usize], "sk": gen::hx(&kb),
                    "elgamal_message_key": gen::hx(&tb), "msg": gen::hx(&msg), "id": gen::hx(&id), "calls": n});
                // one thread
                let outs = misc_c20_run(entry, n, &kb, &tb, &msg, &id, scheme);
                for (i, o) in outs.into_iter().enumerate() {
                    misc_c20_record(s, &mut seen, name, "1t", format!("{i}"), o, &base);
                }
                // the same number of calls split over 8 threads running at the same time
                let per = n / THREADS;
                let outs: Vec<Vec<_>> = std::thread::scope(|sc| {
                    let hs: Vec<_> = (0..THREADS).map(|_| {
                        let (kb, tb, msg, id) = (&kb, &tb, &msg, &id);
                        sc.spawn(move || misc_c20_run(entry, per, kb, tb, msg, id, scheme))
                    }).collect();
                    hs.into_iter().map(|h| h.join().unwrap_or_else(|_| (0..per).map(|_| Err(())).collect())).collect()
                });
                for (t, v) in outs.into_iter().enumerate() {
                    for (i, o) in v.into_iter().enumerate() {
                        misc_c20_record(s, &mut seen, name, "8t", format!("thread{t}:{i}"), o, &base);
                    }
                }
            }
            // independent process executions with fixed arguments, started at the same moment
            let children = if thorough { 6 } else { 2 };
            match crate::search_misc::misc_c20_spawn_children(misc_imp(), children) {
                Err(e) => eprintln!("C20: cross-process check skipped: {e}"),
                Ok(lines) => {
                    for (ci, line) in lines.iter().enumerate() {
                        let comps = crate::search_misc::misc_c20_parse_child(line, misc_imp());
                        let det = json!({"impl": misc_imp(), "child": ci, "children": children, "arguments": "fixed (c20-child)"});
                        if comps.is_empty() {
                            s.case("child_process_reports", format!("{}|{}", G1, ci), false, crate::search_misc::misc_jmerge(&det, json!({"line": line})));
                        }
                        for (label, val) in comps {
                            let me = format!("{}/process{}/{}", misc_imp(), ci, label);
                            let prev = seen.get(&val).cloned();
                            let ok = prev.is_none();
                            if ok {
                                seen.insert(val.clone(), me.clone());
                            }
                            s.case("fresh_across_processes", format!("{}|{}|{}", G1, ci, label), ok,
                                crate::search_misc::misc_jmerge(&det, json!({"component": label, "value": gen::hx(&val), "same_value_at": prev})));
                        }
                    }
                }
            }
        }

        fn misc_c20_record(s: &mut Search, seen: &mut std::collections::HashMap<Vec<u8>, String>, name: &str, mode: &str, idx: String,
            o: Result<Result<Vec<(&'static str, Vec<u8>)>, String>, ()>, base: &serde_json::Value) {
            let key = format!("{}|{}|{}|{}", G1, name, mode, idx);
            match o {
                Err(()) => s.case(&format!("{name}_panicked"), key, false, crate::search_misc::misc_jmerge(base, json!({"mode": mode, "call": idx}))),
                Ok(Err(e)) => eprintln!("C20: {} {} call {} returned an error ({}); not counted", misc_imp(), name, idx, e),
                Ok(Ok(comps)) => {
                    let mut clash = serde_json::Value::Null;
                    for (c, val) in comps {
                        let me = format!("{}/{}/{}/{}/{}", misc_imp(), name, mode, idx, c);
                        match seen.get(&val) {
                            Some(prev) => {
                                if clash.is_null() {
                                    clash = json!({"component": c, "value": gen::hx(&val), "this_call": me, "same_value_at": prev});
                                }
                            }
                            None => {
                                seen.insert(val, me);
                            }
                        }
                    }
                    let ok = clash.is_null();
                    let det = if ok { crate::search_misc::misc_jmerge(base, json!({"mode": mode, "call": idx})) }
                        else { crate::search_misc::misc_jmerge(base, json!({"mode": mode, "call": idx, "collision": clash})) };
                    s.case(&format!("fresh_{name}_{mode}"), key, ok, det);
                }
            }
        }

        /// `c20-child`: one call of every entry point with FIXED arguments, ephemerals as one line
        pub fn misc_c20_child_line() -> String {
            let kb = sc_be(&hkdf_scalar(b"BLS-SIG-KEYGEN-SALT-", b"c20-child-key"));
            let tb = sc_be(&hkdf_scalar(b"BLS-SIG-KEYGEN-SALT-", b"c20-child-message-key"));
            let mut line = format!("C20CHILD {}", misc_imp());
            for (entry, name) in MISC_C20_ENTRIES.iter().enumerate() {
                let o = misc_c20_run(entry, 1, &kb, &tb, b"c20 cross-process message", b"c20-id", 2).pop();
                match o {
                    Some(Ok(Ok(comps))) => {
                        for (c, v) in comps {
                            line.push_str(&format!(" {}.{}={}", name, c, hex::encode(v)));
                        }
                    }
                    _ => line.push_str(&format!(" {}.failed=", name)),
                }
            }
            line
        }
    };
}
macro_rules! search_misc_c19 {
    () => {
        search_misc_c19_eval!();
        search_misc_c19_gen!();
        search_misc_c19_art!();
    };
}

macro_rules! search_misc_c19_eval {
    () => {
        fn misc_jh(inp: &serde_json::Value, k: &str) -> Result<Vec<u8>, String> {
            hex::decode(inp[k].as_str().ok_or_else(|| format!("missing {k}"))?).map_err(|e| format!("{k}: {e}"))
        }
        fn misc_jhl(inp: &serde_json::Value, k: &str) -> Result<Vec<Vec<u8>>, String> {
            inp[k].as_array().ok_or_else(|| format!("missing {k}"))?.iter()
                .map(|v| hex::decode(v.as_str().ok_or_else(|| format!("{k}: not a string"))?).map_err(|e| format!("{k}: {e}")))
                .collect()
        }
        fn misc_jsk(inp: &serde_json::Value, k: &str) -> Result<SecretKey<C>, String> {
            misc_sk_from_be(&misc_jh(inp, k)?).ok_or_else(|| format!("{k}: not a scalar"))
        }
        fn misc_jscheme(inp: &serde_json::Value) -> Result<u8, String> {
            let n = inp["scheme"].as_u64().ok_or("missing scheme")?;
            if n > 2 { Err("scheme".into()) } else { Ok(n as u8) }
        }
        fn misc_jshare(b: &[u8]) -> Result<SecretKeyShare<C>, String> {
            let a: [u8; 33] = b.try_into().map_err(|_| "share: length".to_string())?;
            Ok(SecretKeyShare::<C>(a))
        }
        fn misc_jseed(inp: &serde_json::Value, k: &str) -> Result<[u8; 32], String> {
            misc_jh(inp, k)?.as_slice().try_into().map_err(|_| format!("{k}: length"))
        }
        fn misc_dst_of(scheme: u8) -> &'static [u8] {
            match scheme {
                0 => <C as BlsSignatureBasic>::DST,
                1 => <C as BlsSignatureMessageAugmentation>::DST,
                _ => <C as BlsSignaturePop>::SIG_DST,
            }
        }
        fn misc_enc<T: serde::Serialize>(v: &T, format: &str) -> Result<Vec<u8>, String> {
            match format {
                "json" => serde_json::to_string(v).map(|s| s.into_bytes()).map_err(|e| e.to_string()),
                "bare" => serde_bare::to_vec(v).map_err(|e| e.to_string()),
                _ => Err("format".into()),
            }
        }

        /// one deterministic operation of the library, from inputs given as JSON; the hex of its output
        pub fn misc_c19_eval(op: &str, inp: &serde_json::Value) -> Result<String, String> {
            let e = |x: BlsError| format!("{x:?}");
            let out: Vec<u8> = match op {
                "keygen" => SecretKey::<C>::from_hash(misc_jh(inp, "seed")?).to_be_bytes().to_vec(),
                "keygen_from_generator" => SecretKey::<C>::random(crate::search_misc::misc_chacha(&misc_jseed(inp, "rng_seed")?)).to_be_bytes().to_vec(),
                "challenge_from_hash" => ProofCommitmentChallenge::<C>::from_hash(misc_jh(inp, "data")?).to_be_bytes().to_vec(),
                "challenge_from_generator" => ProofCommitmentChallenge::<C>::random(crate::search_misc::misc_chacha(&misc_jseed(inp, "rng_seed")?)).to_be_bytes().to_vec(),
                "public_key" => Vec::<u8>::from(&misc_jsk(inp, "sk")?.public_key()),
                "sign" => Vec::<u8>::from(&misc_jsk(inp, "sk")?.sign(scheme_of(misc_jscheme(inp)?), &misc_jh(inp, "msg")?).map_err(e)?),
                "pop" => Vec::<u8>::from(&misc_jsk(inp, "sk")?.proof_of_possession().map_err(e)?),
                "aggregate" => {
                    let sc = misc_jscheme(inp)?;
                    let ms = misc_jhl(inp, "msgs")?;
                    let mut sigs = vec![];
                    for (k, m) in misc_jhl(inp, "sks")?.iter().zip(&ms) {
                        sigs.push(misc_sk_from_be(k).ok_or("sk")?.sign(scheme_of(sc), m).map_err(e)?);
                    }
                    Vec::<u8>::from(&AggregateSignature::<C>::from_signatures(&sigs).map_err(e)?)
                }
                "multi_signature" => {
                    let sc = misc_jscheme(inp)?;
                    let m = misc_jh(inp, "msg")?;
                    let mut sigs = vec![];
                    for k in misc_jhl(inp, "sks")? {
                        sigs.push(misc_sk_from_be(&k).ok_or("sk")?.sign(scheme_of(sc), &m).map_err(e)?);
                    }
                    Vec::<u8>::from(&MultiSignature::<C>::from_signatures(&sigs).map_err(e)?)
                }
                "multi_public_key" => {
                    let mut pks = vec![];
                    for k in misc_jhl(inp, "sks")? {
                        pks.push(misc_sk_from_be(&k).ok_or("sk")?.public_key());
                    }
                    Vec::<u8>::from(&MultiPublicKey::<C>::from_public_keys(&pks))
                }
                "key_from_shares" => {
                    let sh: Vec<SecretKeyShare<C>> = misc_jhl(inp, "shares")?.iter().map(|b| misc_jshare(b)).collect::<Result<_, _>>()?;
                    SecretKey::<C>::combine(&sh).map_err(e)?.to_be_bytes().to_vec()
                }
                "public_key_share" => Vec::<u8>::from(&misc_jshare(&misc_jh(inp, "share")?)?.public_key().map_err(e)?),
                "public_key_from_shares" => {
                    let mut pks = vec![];
                    for b in misc_jhl(inp, "shares")? {
                        pks.push(misc_jshare(&b)?.public_key().map_err(e)?);
                    }
                    Vec::<u8>::from(&PublicKey::<C>::from_shares(&pks).map_err(e)?)
                }
                "partial_sign" => Vec::<u8>::from(&misc_jshare(&misc_jh(inp, "share")?)?.sign(scheme_of(misc_jscheme(inp)?), misc_jh(inp, "msg")?).map_err(e)?),
                "signature_from_shares" => {
                    let sc = misc_jscheme(inp)?;
                    let m = misc_jh(inp, "msg")?;
                    let mut ps = vec![];
                    for b in misc_jhl(inp, "shares")? {
                        ps.push(misc_jshare(&b)?.sign(scheme_of(sc), &m).map_err(e)?);
                    }
                    Vec::<u8>::from(&Signature::<C>::from_shares(&ps).map_err(e)?)
                }
                // splitting draws polynomial coefficients with the backend's own sampler, so only what every
                // conforming split must satisfy is compared: the shares recombine to the key and its public key
                "split_with_generator_recombine" => {
                    let sk = misc_jsk(inp, "sk")?;
                    let t = inp["t"].as_u64().ok_or("t")? as usize;
                    let n = inp["n"].as_u64().ok_or("n")? as usize;
                    let sh = sk.split_with_rng(t, n, crate::search_misc::misc_chacha(&misc_jseed(inp, "rng_seed")?)).map_err(e)?;
                    let mut o = SecretKey::<C>::combine(&sh[n - t..]).map_err(e)?.to_be_bytes().to_vec();
                    let pks: Vec<PublicKeyShare<C>> = sh[..t].iter().map(|x| x.public_key()).collect::<Result<_, _>>().map_err(e)?;
                    o.extend(Vec::<u8>::from(&PublicKey::<C>::from_shares(&pks).map_err(e)?));
                    o.push(sh.len() as u8);
                    o
                }
                "pok_challenge" => {
                    let u = misc_sig_pt(&misc_jh(inp, "u")?).ok_or("u: not a point")?;
                    let t = inp["t"].as_str().ok_or("t")?.parse::<u64>().map_err(|x| x.to_string())?;
                    bsc_be(&<C as BlsSignatureProof>::compute_y(u, t)).to_vec()
                }
                "pok_finalize" => {
                    let sc = misc_jscheme(inp)?;
                    let m = misc_jh(inp, "msg")?;
                    let sig = misc_jsk(inp, "sk")?.sign(scheme_of(sc), &m).map_err(e)?;
                    let x = misc_jsk(inp, "x")?.0;
                    let y = misc_jsk(inp, "y")?.0;
                    let u = <C as HashToPoint>::hash_to_point(&m, misc_dst_of(sc)) * x;
                    let c = match sc {
                        0 => ProofCommitment::<C>::Basic(u),
                        1 => ProofCommitment::<C>::MessageAugmentation(u),
                        _ => ProofCommitment::<C>::ProofOfPossession(u),
                    };
                    Vec::<u8>::from(&c.finalize(ProofCommitmentSecret(x), ProofCommitmentChallenge(y), sig).map_err(e)?)
                }
                "message_generator" => misc_pb(&<C as BlsElGamal>::message_generator()),
                "hash_to_point" => misc_sb(&<C as HashToPoint>::hash_to_point(misc_jh(inp, "msg")?, misc_jh(inp, "dst")?)),
                "hash_to_public_key_point" => misc_pb(&<<C as BlsElGamal>::PublicKeyHasher as HashToPoint>::hash_to_point(misc_jh(inp, "msg")?, misc_jh(inp, "dst")?)),
                "hash_to_scalar" => bsc_be(&<C as HashToScalar>::hash_to_scalar(misc_jh(inp, "msg")?, misc_jh(inp, "dst")?)).to_vec(),
                "scalar_from_bytes_wide" => {
                    let b: [u8; 64] = misc_jh(inp, "bytes")?.as_slice().try_into().map_err(|_| "bytes: length".to_string())?;
                    bsc_be(&<C as BlsElGamal>::scalar_from_bytes_wide(&b)).to_vec()
                }
                "elgamal_seal_with_blinder" => {
                    let pk = misc_jsk(inp, "recipient_sk")?.public_key();
                    let (c1, c2) = <C as BlsElGamal>::seal_scalar(pk.0, misc_jsk(inp, "message_sk")?.0, None, Some(misc_jsk(inp, "blinder")?.0),
                        crate::search_misc::misc_chacha(&[0u8; 32])).map_err(e)?;
                    Vec::<u8>::from(&ElGamalCiphertext::<C> { c1, c2 })
                }
                "elgamal_decrypt" => {
                    let ct = ElGamalCiphertext::<C>::try_from(misc_jh(inp, "ciphertext")?.as_slice()).map_err(e)?;
                    misc_pb(&ct.decrypt(&misc_jsk(inp, "sk")?))
                }
                "sign_decryption_share" => {
                    let u = misc_pk_pt(&misc_jh(inp, "u")?).ok_or("u: not a point")?;
                    let sh = misc_jshare(&misc_jh(inp, "share")?)?;
                    let ct = SignCryptCiphertext::<C> { u, v: vec![0u8; 32], w: MiscS::generator(), scheme: SignatureSchemes::Basic };
                    Vec::<u8>::from(&ct.create_decryption_share(&sh).map_err(e)?)
                }
                "signcrypt_w_base" => {
                    let u = misc_pk_pt(&misc_jh(inp, "u")?).ok_or("u: not a point")?;
                    misc_sb(&<C as BlsSignCrypt>::compute_w(u, &misc_jh(inp, "v")?, misc_dst_of(misc_jscheme(inp)?)))
                }
                "encode" => {
                    let f = inp["format"].as_str().ok_or("format")?;
                    let sk = misc_jsk(inp, "sk")?;
                    let sc = misc_jscheme(inp)?;
                    let m = misc_jh(inp, "msg")?;
                    let sh = misc_jshare(&misc_jh(inp, "share")?)?;
                    let psc = if sc == 1 { 0 } else { sc };
                    match inp["what"].as_str().ok_or("what")? {
                        "secret_key" => misc_enc(&sk, f)?,
                        "secret_key_enum" => misc_enc(&if G1 { SecretKeyEnum::G1(SecretKey(sk.0)) } else { SecretKeyEnum::G2(SecretKey(sk.0)) }, f)?,
                        "public_key" => misc_enc(&sk.public_key(), f)?,
                        "signature" => misc_enc(&sk.sign(scheme_of(sc), &m).map_err(e)?, f)?,
                        "proof_of_possession" => misc_enc(&sk.proof_of_possession().map_err(e)?, f)?,
                        "secret_key_share" => misc_enc(&sh, f)?,
                        "public_key_share" => misc_enc(&sh.public_key().map_err(e)?, f)?,
                        "signature_share" => misc_enc(&sh.sign(scheme_of(psc), &m).map_err(e)?, f)?,
                        "challenge" => misc_enc(&ProofCommitmentChallenge::<C>(sk.0), f)?,
                        "multi_public_key" => misc_enc(&MultiPublicKey::<C>::from_public_keys(&[sk.public_key(), misc_sk_from_be(&sh.0[1..]).ok_or("share value")?.public_key()]), f)?,
                        "elgamal_ciphertext" => {
                            let (c1, c2) = <C as BlsElGamal>::seal_scalar(sk.public_key().0, sk.0, None, Some(sk.0), crate::search_misc::misc_chacha(&[0u8; 32])).map_err(e)?;
                            misc_enc(&ElGamalCiphertext::<C> { c1, c2 }, f)?
                        }
                        "signcrypt_ciphertext" => misc_enc(&SignCryptCiphertext::<C> { u: sk.public_key().0, v: m.clone(), w: *sk.sign(scheme_of(sc), &m).map_err(e)?.as_raw_value(), scheme: scheme_of(sc) }, f)?,
                        "timelock_ciphertext" => {
                            let mut v = [0u8; 32];
                            v.copy_from_slice(&sk.to_le_bytes());
                            misc_enc(&TimeCryptCiphertext::<C> { u: sk.public_key().0, v, w: m.clone(), scheme: scheme_of(sc) }, f)?
                        }
                        _ => return Err("what".into()),
                    }
                }
                _ => return Err(format!("unknown op {op}")),
            };
            Ok(hex::encode(out))
        }

        /// `misc_c19_eval` with panics reported as an error value
        pub fn misc_c19_eval_caught(op: &str, inp: &serde_json::Value) -> String {
            match misc_try(|| misc_c19_eval(op, inp)) {
                Ok(Ok(h)) => h,
                Ok(Err(e)) => format!("!error:{e}"),
                Err(()) => "!panic".to_string(),
            }
        }
    };
}

macro_rules! search_misc_c19_gen {
    () => {
        /// Shamir shares of `k` with explicit coefficients, computed with the reference arithmetic:
        /// identifier byte followed by the value in the field's canonical (little-endian) representation
        fn misc_ref_shares(k: &RScalar, t: usize, n: usize, rng: &mut Prng) -> Vec<Vec<u8>> {
            let mut coeffs = vec![*k];
            for _ in 1..t {
                coeffs.push(rng.scalar());
            }
            (1..=n as u64).map(|id| {
                let mut le = sc_be(&gen::shamir_eval(&coeffs, id));
                le.reverse();
                let mut v = vec![id as u8];
                v.extend_from_slice(&le);
                v
            }).collect()
        }

        /// the (operation, inputs) list of the deterministic transcript; everything derives from `rng`
        /// and the reference arithmetic, so both builds produce the same list
        pub fn misc_c19_det_inputs(rng: &mut Prng, thorough: bool) -> Vec<(String, serde_json::Value)> {
            let mut out: Vec<(String, serde_json::Value)> = vec![];
            let mut push = |op: &str, v: serde_json::Value| out.push((op.to_string(), v));
            let reps = if thorough { 8 } else { 1 };
            // key derivation
            for &len in &[0usize, 1, 31, 32, 33, 64, 200] {
                for _ in 0..reps {
                    push("keygen", json!({"seed": gen::hx(&rng.bytes(len))}));
                    push("challenge_from_hash", json!({"data": gen::hx(&rng.bytes(len))}));
                }
            }
            for _ in 0..4 * reps {
                push("keygen_from_generator", json!({"rng_seed": gen::hx(&rng.bytes(32))}));
                push("challenge_from_generator", json!({"rng_seed": gen::hx(&rng.bytes(32))}));
            }
            // generators, hashing
            push("message_generator", json!({}));
            for &len in &[0usize, 1, 32, 48, 96, 133, 517] {
                for scheme in 0..3u8 {
                    let m = rng.bytes(len);
                    push("hash_to_point", json!({"msg": gen::hx(&m), "dst": gen::hx(&gen::dst(G1, scheme))}));
                }
                let m = rng.bytes(len);
                push("hash_to_point", json!({"msg": gen::hx(&m), "dst": gen::hx(&gen::dst_pop(G1))}));
                push("hash_to_public_key_point", json!({"msg": gen::hx(&m), "dst": gen::hx(&rng.bytes(1 + len % 60))}));
                push("hash_to_scalar", json!({"msg": gen::hx(&m), "dst": gen::hx(&rng.bytes(len % 70))}));
            }
            for _ in 0..4 * reps {
                push("scalar_from_bytes_wide", json!({"bytes": gen::hx(&rng.bytes(64))}));
            }
            push("scalar_from_bytes_wide", json!({"bytes": gen::hx(&[0xffu8; 64])}));
            push("scalar_from_bytes_wide", json!({"bytes": gen::hx(&[0u8; 64])}));
            // keys, signatures, proofs of possession
            let mut keys = gen::edge_scalars();
            for _ in 0..(if thorough { 16 } else { 3 }) {
                keys.push(rng.scalar());
            }
            let lens = gen::msg_lengths(false);
            for (ki, k) in keys.iter().enumerate() {
                push("public_key", json!({"sk": gen::hs(k)}));
                push("pop", json!({"sk": gen::hs(k)}));
                for scheme in 0..3u8 {
                    for (li, &len) in lens.iter().enumerate() {
                        if (li + ki + scheme as usize) % (if thorough { 2 } else { 5 }) != 0 {
                            continue;
                        }
                        let m = gen::message(rng, len);
                        push("sign", json!({"sk": gen::hs(k), "scheme": scheme, "msg": gen::hx(&m)}));
                    }
                }
            }
            // accumulation
            for &n in (if thorough { &[2usize, 3, 5, 16, 64][..] } else { &[2usize, 3, 8][..] }) {
                for scheme in 0..3u8 {
                    let ks: Vec<String> = (0..n).map(|_| gen::hs(&rng.scalar())).collect();
                    let ms: Vec<String> = (0..n).map(|i| { let mut m = vec![i as u8]; m.extend(rng.bytes(20)); gen::hx(&m) }).collect();
                    push("aggregate", json!({"sks": ks, "scheme": scheme, "msgs": ms}));
                    if scheme != 1 {
                        push("multi_signature", json!({"sks": ks, "scheme": scheme, "msg": gen::hx(&rng.bytes(33))}));
                    }
                }
                let ks: Vec<String> = (0..n).map(|_| gen::hs(&rng.scalar())).collect();
                push("multi_public_key", json!({"sks": ks}));
            }
            // share recombination from fixed share sets
            let grid: &[(usize, usize)] = if thorough { &[(2, 2), (2, 3), (3, 5), (5, 5), (4, 9), (16, 20), (128, 255), (255, 255)] } else { &[(2, 3), (3, 5), (7, 10), (64, 64)] };
            for &(t, n) in grid {
                let k = rng.scalar();
                let shares = misc_ref_shares(&k, t, n, rng);
                // the last `t`, the first `t` in reverse, all of them
                let sets: Vec<Vec<String>> = vec![
                    shares[n - t..].iter().map(|x| gen::hx(x)).collect(),
                    shares[..t].iter().rev().map(|x| gen::hx(x)).collect(),
                    shares.iter().map(|x| gen::hx(x)).collect(),
                ];
                for (si, set) in sets.iter().enumerate() {
                    if t > 32 && si == 2 {
                        continue;
                    }
                    push("key_from_shares", json!({"shares": set, "t": t, "n": n, "sk": gen::hs(&k)}));
                    push("public_key_from_shares", json!({"shares": set, "t": t, "n": n, "sk": gen::hs(&k)}));
                    let scheme = if si % 2 == 0 { 0 } else { 2 };
                    push("signature_from_shares", json!({"shares": set, "t": t, "n": n, "sk": gen::hs(&k), "scheme": scheme, "msg": gen::hx(&rng.bytes(24))}));
                }
                push("public_key_share", json!({"share": gen::hx(&shares[0])}));
                push("partial_sign", json!({"share": gen::hx(&shares[n - 1]), "scheme": 0, "msg": gen::hx(&rng.bytes(17))}));
                push("partial_sign", json!({"share": gen::hx(&shares[0]), "scheme": 2, "msg": gen::hx(&rng.bytes(70))}));
                push("sign_decryption_share", json!({"share": gen::hx(&shares[0]), "u": gen::hx(&sc_enc_pk(G1, &rng.scalar()))}));
                if n <= 64 {
                    push("split_with_generator_recombine", json!({"sk": gen::hs(&k), "t": t, "n": n, "rng_seed": gen::hx(&rng.bytes(32))}));
                }
            }
            // proof-of-knowledge challenges and responses
            for i in 0..(if thorough { 24u64 } else { 6 }) {
                let u = if G1 { enc_g1(&rng.scalar()) } else { enc_g2(&rng.scalar()) };
                let t: u64 = match i % 4 { 0 => 0, 1 => u64::MAX, 2 => 1_790_000_000_000 + rng.below(1 << 30), _ => rng.next() };
                push("pok_challenge", json!({"u": gen::hx(&u), "t": t.to_string()}));
                push("pok_finalize", json!({"sk": gen::hs(&rng.scalar()), "scheme": (i % 3) as u8, "msg": gen::hx(&rng.bytes(i as usize * 7)),
                    "x": gen::hs(&rng.scalar()), "y": gen::hs(&rng.scalar())}));
            }
            // ElGamal with an explicit blinder, decryption, signcryption hashing
            for _ in 0..(if thorough { 16 } else { 4 }) {
                let (r, m, b) = (rng.scalar(), rng.scalar(), rng.scalar());
                push("elgamal_seal_with_blinder", json!({"recipient_sk": gen::hs(&r), "message_sk": gen::hs(&m), "blinder": gen::hs(&b)}));
                let mut ct = sc_enc_pk(G1, &rng.scalar());
                ct.extend(sc_enc_pk(G1, &rng.scalar()));
                push("elgamal_decrypt", json!({"sk": gen::hs(&r), "ciphertext": gen::hx(&ct)}));
                let vl = 32 + rng.below(40) as usize;
                push("signcrypt_w_base", json!({"u": gen::hx(&sc_enc_pk(G1, &b)), "v": gen::hx(&rng.bytes(vl)), "scheme": rng.below(3)}));
            }
            // encodings of fixed values
            for (i, k) in [keys[2], keys[6], keys[keys.len() - 1]].iter().enumerate() {
                let share = misc_ref_shares(k, 2, 3, rng)[i].clone();
                let m = rng.bytes(32 + i * 9);
                for what in ["secret_key", "secret_key_enum", "public_key", "signature", "proof_of_possession", "secret_key_share", "public_key_share",
                    "signature_share", "challenge", "multi_public_key", "elgamal_ciphertext", "signcrypt_ciphertext", "timelock_ciphertext"] {
                    for format in ["json", "bare"] {
                        push("encode", json!({"what": what, "format": format, "sk": gen::hs(k), "scheme": i as u8, "msg": gen::hx(&m), "share": gen::hx(&share)}));
                    }
                }
            }
            out
        }
    };
}
macro_rules! search_misc_c19_art {
    () => {
        fn misc_opt_hex(o: subtle::CtOption<Vec<u8>>) -> String {
            let o: Option<Vec<u8>> = o.into();
            match o {
                Some(v) => format!("some:{}", hex::encode(v)),
                None => "none".into(),
            }
        }
        fn misc_verdict(r: &BlsResult<()>) -> String {
            match r {
                Ok(()) => "accept".into(),
                Err(_) => "reject".into(),
            }
        }

        /// randomized outputs of THIS backend, each with what a consumer needs and with the outcome
        /// this backend itself obtains from consuming it (`producer_outcome`)
        pub fn misc_c19_artefacts(rng: &mut Prng, thorough: bool) -> Vec<serde_json::Value> {
            let mut out = vec![];
            let rounds = if thorough { 8 } else { 2 };
            for round in 0..rounds {
                for scheme in 0..3u8 {
                    let k = if round == 0 { gen::edge_scalars()[(scheme as usize) * 2 + 1] } else { rng.scalar() };
                    let len = [0usize, 1, 31, 32, 33, 100, 1000][(round * 3 + scheme as usize) % 7];
                    let msg = gen::message(rng, len);
                    let id = rng.bytes(8 + round);
                    let other = rng.scalar();
                    let base = json!({"impl": misc_imp(), "scheme": scheme, "sk": gen::hs(&k), "msg": gen::hx(&msg)});
                    let r = misc_try(|| misc_c19_make(&k, &other, scheme, &msg, &id, &base));
                    match r {
                        Ok(v) => out.extend(v),
                        Err(()) => out.push(crate::search_misc::misc_jmerge(&base, json!({"kind": "producer_panicked"}))),
                    }
                }
            }
            out
        }

        fn misc_c19_make(k: &RScalar, other: &RScalar, scheme: u8, msg: &[u8], id: &[u8], base: &serde_json::Value) -> Vec<serde_json::Value> {
            let mut out = vec![];
            let mut push = |kind: &str, v: serde_json::Value| out.push(crate::search_misc::misc_jmerge(base, crate::search_misc::misc_jmerge(&v, json!({"kind": kind}))));
            let sk = sk_of(k);
            let pk = sk.public_key();
            let pkb = Vec::<u8>::from(&pk);
            let sch = scheme_of(scheme);
            // signcryption, whole key
            let ct = pk.sign_crypt(sch, msg);
            push("signcrypt", json!({"ciphertext": gen::hx(&Vec::<u8>::from(&ct)), "plaintext": gen::hx(msg),
                "producer_outcome": format!("{}|{}", bool::from(ct.is_valid()), misc_opt_hex(ct.decrypt(&sk)))}));
            // signcryption, opened by shares created with split()
            if let Ok(shares) = sk.split(2, 3) {
                let pks: Vec<PublicKeyShare<C>> = shares.iter().filter_map(|x| x.public_key().ok()).collect();
                let ds: Vec<SignDecryptionShare<C>> = shares.iter().filter_map(|x| ct.create_decryption_share(x).ok()).collect();
                if pks.len() == 3 && ds.len() == 3 {
                    let verdicts: Vec<String> = ds.iter().zip(&pks).map(|(d, p)| misc_verdict(&d.verify(p, &ct))).collect();
                    let opened = misc_opt_hex(ct.decrypt_with_shares(&ds[1..]));
                    let viakey = match SignCryptDecryptionKey::<C>::from_shares(&ds[..2]) {
                        Ok(dk) => misc_opt_hex(dk.decrypt(&ct)),
                        Err(_) => "error".into(),
                    };
                    push("signcrypt_shares", json!({"ciphertext": gen::hx(&Vec::<u8>::from(&ct)), "plaintext": gen::hx(msg),
                        "public_key_shares": pks.iter().map(|x| gen::hx(&Vec::<u8>::from(x))).collect::<Vec<_>>(),
                        "decryption_shares": ds.iter().map(|x| gen::hx(&Vec::<u8>::from(x))).collect::<Vec<_>>(),
                        "producer_outcome": format!("{}|{}|{}", verdicts.join(","), opened, viakey)}));
                }
                // the share set itself, with partial signatures (not defined for message augmentation)
                let psc = if scheme == 1 { 0 } else { scheme };
                let parts: Vec<SignatureShare<C>> = shares.iter().filter_map(|x| x.sign(scheme_of(psc), msg).ok()).collect();
                if let (3, Ok(whole)) = (parts.len(), sk.sign(scheme_of(psc), msg)) {
                    push("share_set", json!({"t": 2, "n": 3, "partial_scheme": psc, "pk": gen::hx(&pkb),
                        "shares": shares.iter().map(|x| gen::hx(&Vec::<u8>::from(x))).collect::<Vec<_>>(),
                        "partial_signatures": parts.iter().map(|x| gen::hx(&Vec::<u8>::from(x))).collect::<Vec<_>>(),
                        "signature": gen::hx(&Vec::<u8>::from(&whole)),
                        "producer_outcome": misc_c19_share_set_outcome(&shares, &parts, msg)}));
                }
            }
            // time lock: opened by the signature over the identifier
            if let (Ok(ct), Ok(sig)) = (pk.encrypt_time_lock(sch, msg, id), sk.sign(sch, id)) {
                push("timelock", json!({"id": gen::hx(id), "ciphertext": gen::hx(&Vec::<u8>::from(&ct)), "opening_signature": gen::hx(&Vec::<u8>::from(&sig)),
                    "plaintext": gen::hx(msg), "producer_outcome": misc_opt_hex(ct.decrypt(&sig))}));
            }
            // ElGamal: the key `other` encrypted to `sk`
            let target = sk_of(other);
            let expected = misc_pb(&(<C as BlsElGamal>::message_generator() * target.0));
            if let Ok(ct) = pk.encrypt_key_el_gamal(&target) {
                push("elgamal", json!({"message_sk": gen::hs(other), "ciphertext": gen::hx(&Vec::<u8>::from(&ct)), "expected_decryption": gen::hx(&expected),
                    "producer_outcome": gen::hx(&misc_pb(&ct.decrypt(&sk)))}));
            }
            if let Ok(p) = pk.encrypt_key_el_gamal_with_proof(&target) {
                let mut bad = p;
                bad.challenge += Scalar::ONE;
                for (label, q) in [("honest", p), ("challenge_plus_one", bad)] {
                    let dec = match q.verify_and_decrypt(&sk) {
                        Ok(pt) => format!("ok:{}", gen::hx(&misc_pb(&pt))),
                        Err(_) => "reject".into(),
                    };
                    push("elgamal_proof", json!({"variant": label, "message_sk": gen::hs(other), "pk": gen::hx(&pkb), "proof": gen::hx(&Vec::<u8>::from(&q)),
                        "expected_decryption": gen::hx(&expected), "producer_outcome": format!("{}|{}", misc_verdict(&q.verify(pk)), dec)}));
                }
            }
            // proofs of knowledge of a signature; for message augmentation the proved message is the
            // one that was hashed (public key || message)
            let pm = gen::amsg(G1, scheme, k, msg);
            if let Ok(sig) = sk.sign(sch, msg) {
                if let Ok((c, x)) = ProofCommitment::<C>::generate(&pm, sig) {
                    let y = ProofCommitmentChallenge::<C>::new();
                    if let Ok(proof) = c.finalize(x, y, sig) {
                        let mut other_msg = pm.clone();
                        other_msg.push(1);
                        for (label, m2) in [("honest", &pm), ("other_message", &other_msg)] {
                            push("pok", json!({"variant": label, "pk": gen::hx(&pkb), "proved_msg": gen::hx(m2), "challenge": gen::hx(&y.to_be_bytes()),
                                "proof": gen::hx(&Vec::<u8>::from(&proof)), "producer_outcome": misc_verdict(&proof.verify(pk, m2, y))}));
                        }
                    }
                }
                if let Ok(tp) = ProofOfKnowledgeTimestamp::<C>::generate(&pm, sig) {
                    push("pok_timestamp", json!({"pk": gen::hx(&pkb), "proved_msg": gen::hx(&pm), "proof": gen::hx(&Vec::<u8>::from(&tp)),
                        "timestamp": tp.timestamp.to_string(), "producer_outcome": misc_verdict(&tp.verify(pk, &pm, None))}));
                }
            }
            out
        }

        /// what a holder of a share set obtains from it: recombined key, public key, verdicts of the
        /// partial signatures, recombined signature
        fn misc_c19_share_set_outcome(shares: &[SecretKeyShare<C>], parts: &[SignatureShare<C>], msg: &[u8]) -> String {
            let key = match SecretKey::<C>::combine(&shares[1..]) {
                Ok(k) => gen::hx(&k.to_be_bytes()),
                Err(_) => "error".into(),
            };
            let key_all = match SecretKey::<C>::combine(shares) {
                Ok(k) => gen::hx(&k.to_be_bytes()),
                Err(_) => "error".into(),
            };
            let pks: Vec<PublicKeyShare<C>> = shares.iter().filter_map(|x| x.public_key().ok()).collect();
            let pk = match PublicKey::<C>::from_shares(&pks[..pks.len().min(2)]) {
                Ok(p) => gen::hx(&Vec::<u8>::from(&p)),
                Err(_) => "error".into(),
            };
            let verdicts: Vec<String> = parts.iter().zip(&pks).map(|(p, k)| misc_verdict(&p.verify(k, msg))).collect();
            let sig = match Signature::<C>::from_shares(&parts[parts.len().saturating_sub(2)..]) {
                Ok(sg) => gen::hx(&Vec::<u8>::from(&sg)),
                Err(_) => "error".into(),
            };
            format!("{key}|{key_all}|{pk}|{}|{sig}", verdicts.join(","))
        }

        /// consume one artefact under THIS backend: Ok(outcome in the producer's format) or Err(why it does not parse)
        pub fn misc_c19_consume_one(a: &serde_json::Value) -> Result<String, String> {
            let e = |x: BlsError| format!("parse: {x:?}");
            let sk = misc_jsk(a, "sk")?;
            let kind = a["kind"].as_str().ok_or("kind")?;
            Ok(match kind {
                "signcrypt" => {
                    let ct = SignCryptCiphertext::<C>::try_from(misc_jh(a, "ciphertext")?.as_slice()).map_err(e)?;
                    format!("{}|{}", bool::from(ct.is_valid()), misc_opt_hex(ct.decrypt(&sk)))
                }
                "signcrypt_shares" => {
                    let ct = SignCryptCiphertext::<C>::try_from(misc_jh(a, "ciphertext")?.as_slice()).map_err(e)?;
                    let pks: Vec<PublicKeyShare<C>> = misc_jhl(a, "public_key_shares")?.iter().map(|b| PublicKeyShare::<C>::try_from(b.as_slice())).collect::<Result<_, _>>().map_err(e)?;
                    let ds: Vec<SignDecryptionShare<C>> = misc_jhl(a, "decryption_shares")?.iter().map(|b| SignDecryptionShare::<C>::try_from(b.as_slice())).collect::<Result<_, _>>().map_err(e)?;
                    if pks.len() != 3 || ds.len() != 3 {
                        return Err("share count".into());
                    }
                    let verdicts: Vec<String> = ds.iter().zip(&pks).map(|(d, p)| misc_verdict(&d.verify(p, &ct))).collect();
                    let opened = misc_opt_hex(ct.decrypt_with_shares(&ds[1..]));
                    let viakey = match SignCryptDecryptionKey::<C>::from_shares(&ds[..2]) {
                        Ok(dk) => misc_opt_hex(dk.decrypt(&ct)),
                        Err(_) => "error".into(),
                    };
                    format!("{}|{}|{}", verdicts.join(","), opened, viakey)
                }
                "share_set" => {
                    let shares: Vec<SecretKeyShare<C>> = misc_jhl(a, "shares")?.iter().map(|b| SecretKeyShare::<C>::try_from(b.as_slice())).collect::<Result<_, _>>().map_err(e)?;
                    let parts: Vec<SignatureShare<C>> = misc_jhl(a, "partial_signatures")?.iter().map(|b| SignatureShare::<C>::try_from(b.as_slice())).collect::<Result<_, _>>().map_err(e)?;
                    if shares.len() != 3 || parts.len() != 3 {
                        return Err("share count".into());
                    }
                    misc_c19_share_set_outcome(&shares, &parts, &misc_jh(a, "msg")?)
                }
                "timelock" => {
                    let ct = TimeCryptCiphertext::<C>::try_from(misc_jh(a, "ciphertext")?.as_slice()).map_err(e)?;
                    let sig = Signature::<C>::try_from(misc_jh(a, "opening_signature")?.as_slice()).map_err(e)?;
                    misc_opt_hex(ct.decrypt(&sig))
                }
                "elgamal" => {
                    let ct = ElGamalCiphertext::<C>::try_from(misc_jh(a, "ciphertext")?.as_slice()).map_err(e)?;
                    gen::hx(&misc_pb(&ct.decrypt(&sk)))
                }
                "elgamal_proof" => {
                    let q = ElGamalProof::<C>::try_from(misc_jh(a, "proof")?.as_slice()).map_err(e)?;
                    let pk = PublicKey::<C>::try_from(misc_jh(a, "pk")?.as_slice()).map_err(e)?;
                    let dec = match q.verify_and_decrypt(&sk) {
                        Ok(pt) => format!("ok:{}", gen::hx(&misc_pb(&pt))),
                        Err(_) => "reject".into(),
                    };
                    format!("{}|{}", misc_verdict(&q.verify(pk)), dec)
                }
                "pok" => {
                    let proof = ProofOfKnowledge::<C>::try_from(misc_jh(a, "proof")?.as_slice()).map_err(e)?;
                    let pk = PublicKey::<C>::try_from(misc_jh(a, "pk")?.as_slice()).map_err(e)?;
                    let y = ProofCommitmentChallenge::<C>::try_from(misc_jh(a, "challenge")?.as_slice()).map_err(e)?;
                    misc_verdict(&proof.verify(pk, misc_jh(a, "proved_msg")?, y))
                }
                "pok_timestamp" => {
                    let tp = ProofOfKnowledgeTimestamp::<C>::try_from(misc_jh(a, "proof")?.as_slice()).map_err(e)?;
                    let pk = PublicKey::<C>::try_from(misc_jh(a, "pk")?.as_slice()).map_err(e)?;
                    misc_verdict(&tp.verify(pk, misc_jh(a, "proved_msg")?, None))
                }
                _ => return Err(format!("unknown kind {kind}")),
            })
        }

        /// the outcome the property text demands for an honest artefact, where it prescribes one
        pub fn misc_c19_expected(a: &serde_json::Value) -> Option<String> {
            let pt = a["plaintext"].as_str().map(|h| format!("some:{h}"));
            match (a["kind"].as_str()?, a["variant"].as_str()) {
                ("signcrypt", _) => Some(format!("true|{}", pt?)),
                ("signcrypt_shares", _) => Some(format!("accept,accept,accept|{}|{}", pt.clone()?, pt?)),
                ("timelock", _) => pt,
                ("elgamal", _) => a["expected_decryption"].as_str().map(|x| x.to_string()),
                ("elgamal_proof", Some("honest")) => Some(format!("accept|ok:{}", a["expected_decryption"].as_str()?)),
                ("elgamal_proof", _) => Some("reject|reject".into()),
                ("pok", Some("honest")) | ("pok_timestamp", _) => Some("accept".into()),
                ("pok", _) => Some("reject".into()),
                ("share_set", _) => Some(format!("{0}|{0}|{1}|accept,accept,accept|{2}", a["sk"].as_str()?, a["pk"].as_str()?, a["signature"].as_str()?)),
                _ => None,
            }
        }
    };
}
