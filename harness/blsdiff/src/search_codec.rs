//! Codec / decoding / no-panic searches: C15 C16 C17
macro_rules! search_codec {
    () => {
        pub fn c15(_s: &mut Search, _rng: &mut Prng, _thorough: bool) {}
        pub fn c16(_s: &mut Search, _rng: &mut Prng, _thorough: bool) {}
        pub fn c17(_s: &mut Search, _rng: &mut Prng, _thorough: bool) {}
    };
}
