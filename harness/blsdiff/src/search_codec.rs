//! Codec / decoding / no-panic searches: C15 C16 C17
//!
//! Layout: the first half of this file is impl-agnostic machinery (a type-erased description of
//! "one data type with its three codecs", bad-point generators, the generic runners of the three
//! properties); the `search_codec!` macro at the end instantiates it for `C` (samples, companions,
//! consumers of every generic data type) and adds the entry points that need the concrete types.
#![allow(dead_code, unused_imports, unused_variables, unused_macros)]

use crate::gen::{self, Prng};
use crate::refs::*;
use crate::search::Search;
use blsful::*;
use serde::{de::DeserializeOwned, Serialize};
use serde_json::json;
use std::collections::HashMap;
use std::panic::{catch_unwind, AssertUnwindSafe};
use std::rc::Rc;

pub fn codec_catch<T>(f: impl FnOnce() -> T) -> Result<T, ()> {
    catch_unwind(AssertUnwindSafe(f)).map_err(|_| ())
}

/// run a list of named consumers, each under catch: `(name, returned normally)`
macro_rules! codec_consume {
    ($( $name:literal => $body:expr ),* $(,)?) => {{
        let mut out: Vec<(&'static str, bool)> = Vec::new();
        $( out.push(($name, crate::search_codec::codec_catch(|| { let _ = $body; }).is_ok())); )*
        out
    }};
}


/// C15: big/little-endian codecs of one of the three scalar wrappers
macro_rules! codec_c15_scalar_type {
    ($rec:ident, $k:expr, $T:ident, $name:literal) => {{
        let v = $T::<C>(bsc(&sc_be($k)));
        let key = gen::hs($k);
        let r = crate::search_codec::codec_catch(|| {
            let be = v.to_be_bytes();
            let le = v.to_le_bytes();
            let b2: Option<$T<C>> = $T::<C>::from_be_bytes(&be).into();
            let l2: Option<$T<C>> = $T::<C>::from_le_bytes(&le).into();
            let mut rev = le;
            rev.reverse();
            (b2.as_ref() == Some(&v), l2.as_ref() == Some(&v), be == rev && be == sc_be($k), hex::encode(be), hex::encode(le))
        });
        match r {
            Ok((a, b, c, be, le)) => {
                let det = json!({"impl": CODEC_IMPL, "type": $name, "scalar": gen::hs($k), "to_be_bytes": be, "to_le_bytes": le});
                $rec.case(concat!($name, "_be_bytes_roundtrip"), key.clone(), a, det.clone());
                $rec.case(concat!($name, "_le_bytes_roundtrip"), key.clone(), b, det.clone());
                $rec.case(concat!($name, "_be_is_reversed_le"), key.clone(), c, det);
            }
            Err(()) => $rec.case(concat!($name, "_be_le_bytes_panicked"), key.clone(), false, json!({"impl": CODEC_IMPL, "type": $name, "scalar": gen::hs($k)})),
        }
    }};
}

/// the three byte entry points of a scalar wrapper on a 32-byte big-endian string:
/// Err(()) = panicked, Ok(None) = rejected, Ok(Some(is_zero)) = accepted
macro_rules! codec_scalar_entry {
    ($T:ident, $entry:expr, $be:expr) => {{
        let be: [u8; 32] = $be;
        let mut le = be;
        le.reverse();
        crate::search_codec::codec_catch(|| -> Option<bool> {
            let r: Option<$T<C>> = match $entry {
                0 => $T::<C>::try_from(&be[..]).ok(),
                1 => $T::<C>::from_be_bytes(&be).into(),
                2 => $T::<C>::from_le_bytes(&le).into(),
                3 => $T::<C>::try_from(be.to_vec()).ok(),
                4 => $T::<C>::try_from(&be.to_vec()).ok(),
                _ => $T::<C>::try_from(be.to_vec().into_boxed_slice()).ok(),
            };
            r.map(|k| k.0 == <Scalar as Field>::ZERO)
        })
    }};
}

pub const CODEC_SCALAR_ENTRIES: [&str; 6] = ["try_from", "from_be_bytes", "from_le_bytes", "try_from_vec", "try_from_vec_ref", "try_from_box"];

/// C16: zero and unreduced scalars are rejected; nothing accepted is zero
macro_rules! codec_c16_scalar_type {
    ($rec:ident, $rng:ident, $thorough:ident, $T:ident, $name:literal) => {{
        let r_be = crate::search_codec::codec_r_be();
        let mut r1 = r_be;
        r1[31] += 1;
        let mut r2 = r_be;
        r2[0] += 1;
        let mut top = [0u8; 32];
        top[0] = 0x80;
        let mut rshift = [0u8; 32];
        rshift[..31].copy_from_slice(&r_be[1..]);
        // 2r < 2^256: an importer that reduces instead of rejecting must still not return zero for it
        let mut r_twice = [0u8; 32];
        let mut carry = 0u16;
        for i in (0..32).rev() {
            let t = 2 * r_be[i] as u16 + carry;
            r_twice[i] = t as u8;
            carry = t >> 8;
        }
        let must_reject: Vec<(&str, [u8; 32])> = vec![("zero", [0u8; 32]), ("r", r_be)];
        for (lab, be) in &must_reject {
            for e in 0..6usize {
                let class = format!("{}_{}_rejects_zero_and_r", $name, crate::search_codec::CODEC_SCALAR_ENTRIES[e]);
                let det = json!({"impl": CODEC_IMPL, "type": $name, "entry": crate::search_codec::CODEC_SCALAR_ENTRIES[e], "value": lab, "big_endian": hex::encode(be)});
                match codec_scalar_entry!($T, e, *be) {
                    Ok(None) => $rec.case(&class, lab.to_string(), true, det),
                    Ok(Some(z)) => {
                        let mut d = det;
                        d["outcome"] = json!(if z { "accepted, value is zero" } else { "accepted" });
                        $rec.case(&class, lab.to_string(), false, d)
                    }
                    Err(()) => $rec.case(&format!("{class}_panicked"), lab.to_string(), false, det),
                }
            }
        }
        let mut inputs: Vec<[u8; 32]> = vec![rshift, [0u8; 32], r_be, r_twice, r1, r2, top, [0xff; 32]];
        for i in 0..32 {
            for b in [1u8, 0x80] {
                let mut a = [0u8; 32];
                a[i] = b;
                inputs.push(a);
            }
        }
        for _ in 0..(if $thorough { 512 } else { 64 }) {
            let mut a = [0u8; 32];
            a.copy_from_slice(&$rng.bytes(32));
            if $rng.below(2) == 0 {
                a[0] &= 0x3f;
            }
            inputs.push(a);
        }
        for be in &inputs {
            for e in 0..3usize {
                let class = format!("{}_{}_never_zero", $name, crate::search_codec::CODEC_SCALAR_ENTRIES[e]);
                let det = json!({"impl": CODEC_IMPL, "type": $name, "entry": crate::search_codec::CODEC_SCALAR_ENTRIES[e], "big_endian": hex::encode(be)});
                match codec_scalar_entry!($T, e, *be) {
                    Ok(r) => $rec.case(&class, hex::encode(be), r != Some(true), det),
                    Err(()) => $rec.case(&format!("{class}_panicked"), hex::encode(be), false, det),
                }
            }
        }
    }};
}

/// C17: 32-byte strings whose bytes OR to each of the 256 values
macro_rules! codec_c17_scalar_type {
    ($rec:ident, $T:ident, $name:literal) => {{
        for b in 0..=255u8 {
            let mut pats: Vec<(&str, [u8; 32])> = vec![];
            let mut a = [0u8; 32];
            a[31] = b;
            pats.push(("last", a));
            let mut a = [0u8; 32];
            a[0] = b;
            pats.push(("first", a));
            let mut a = [0u8; 32];
            a[5] = b & 0xf0;
            a[20] = b & 0x0f;
            pats.push(("split", a));
            let mut a = [0u8; 32];
            for (i, x) in a.iter_mut().enumerate() {
                *x = b & (1u8 << (i % 8));
            }
            pats.push(("one_bit_per_byte", a));
            pats.push(("all", [b; 32]));
            for (lab, be) in pats {
                for e in 0..3usize {
                    let class = format!("{}_{}_or_value", $name, crate::search_codec::CODEC_SCALAR_ENTRIES[e]);
                    let det = json!({"impl": CODEC_IMPL, "type": $name, "entry": crate::search_codec::CODEC_SCALAR_ENTRIES[e], "or_value": b, "pattern": lab, "big_endian": hex::encode(be)});
                    let ok = codec_scalar_entry!($T, e, be).is_ok();
                    $rec.case(&class, format!("{b}|{lab}"), ok, det);
                }
            }
        }
    }};
}

/// hex, or length + sha256 when long
pub fn codec_hexs(b: &[u8]) -> String {
    if b.len() <= 700 {
        hex::encode(b)
    } else {
        format!("len:{}:sha256:{}", b.len(), hex::encode(sha256(b)))
    }
}

pub fn codec_strs(b: &[u8]) -> String {
    if b.len() > 1600 {
        return format!("len:{}:sha256:{}", b.len(), hex::encode(sha256(b)));
    }
    match std::str::from_utf8(b) {
        Ok(s) => s.to_string(),
        Err(_) => format!("hex:{}", hex::encode(b)),
    }
}

/// the group order r, big-endian
pub fn codec_r_be() -> [u8; 32] {
    let mut b = sc_be(&(-RScalar::ONE));
    b[31] |= 1;
    b
}

/// Recorder: `Search` plus a per-class cap on *recorded* failures. Every input is evaluated; the
/// first `cap` failures of a class go to the harness (FAIL lines), further failures of the same
/// class are only counted and reported by `finish` in one summary case, so that the bounded FAIL
/// list of the harness shows every failing class instead of many witnesses of one.
pub struct CodecRec<'a> {
    pub s: &'a mut Search,
    pub fails: HashMap<String, u32>,
    pub suppressed: std::collections::BTreeMap<String, u32>,
    pub cap: u32,
    pub imp: &'static str,
}

impl<'a> CodecRec<'a> {
    pub fn new(s: &'a mut Search, imp: &'static str, cap: u32) -> Self {
        CodecRec { s, fails: HashMap::new(), suppressed: Default::default(), cap, imp }
    }
    pub fn open(&self, _class: &str) -> bool {
        true
    }
    pub fn case(&mut self, class: &str, key: String, ok: bool, detail: serde_json::Value) {
        if !ok {
            let n = self.fails.entry(class.to_string()).or_insert(0);
            *n += 1;
            if *n > self.cap {
                *self.suppressed.entry(class.to_string()).or_insert(0) += 1;
                if std::env::var_os("CODEC_LIST_ALL_FAILURES").is_some() {
                    eprintln!("REPEAT-FAIL {} {}", class, detail);
                }
                return;
            }
        }
        self.s.case(class, format!("{}|{}", self.imp, key), ok, detail);
    }
    pub fn finish(self) {
        if !self.suppressed.is_empty() {
            let total: u32 = self.suppressed.values().sum();
            eprintln!("codec[{}]: {} further failing inputs in already reported classes: {:?}", self.imp, total, self.suppressed);
            self.s.case(
                "codec_repeat_failures_not_listed",
                format!("{}|suppressed", self.imp),
                true,
                json!({"impl": self.imp, "note": "further failing inputs of classes already reported (evaluated, not listed)", "total": total, "per_class": self.suppressed}),
            );
        }
    }
}

// ---------------------------------------------------------------------------------------------
// type-erased description of one data type
// ---------------------------------------------------------------------------------------------

pub struct CodecByteOps<T> {
    pub to: fn(&T) -> Vec<u8>,
    pub into: fn(T) -> Vec<u8>,
    pub from_slice: fn(&[u8]) -> Result<T, String>,
    pub from_vec: fn(Vec<u8>) -> Result<T, String>,
    pub from_vec_ref: fn(&Vec<u8>) -> Result<T, String>,
    pub from_box: fn(Box<[u8]>) -> Result<T, String>,
}
impl<T> Clone for CodecByteOps<T> {
    fn clone(&self) -> Self {
        *self
    }
}
impl<T> Copy for CodecByteOps<T> {}

pub fn codec_byte_ops<T>() -> CodecByteOps<T>
where
    T: for<'a> TryFrom<&'a [u8], Error = BlsError>
        + TryFrom<Vec<u8>, Error = BlsError>
        + for<'a> TryFrom<&'a Vec<u8>, Error = BlsError>
        + TryFrom<Box<[u8]>, Error = BlsError>,
    Vec<u8>: for<'a> From<&'a T> + From<T>,
{
    fn to<T>(v: &T) -> Vec<u8>
    where
        Vec<u8>: for<'a> From<&'a T>,
    {
        Vec::<u8>::from(v)
    }
    fn into<T>(v: T) -> Vec<u8>
    where
        Vec<u8>: From<T>,
    {
        Vec::<u8>::from(v)
    }
    fn from_slice<T: for<'a> TryFrom<&'a [u8], Error = BlsError>>(b: &[u8]) -> Result<T, String> {
        T::try_from(b).map_err(|e| e.to_string())
    }
    fn from_vec<T: TryFrom<Vec<u8>, Error = BlsError>>(b: Vec<u8>) -> Result<T, String> {
        T::try_from(b).map_err(|e| e.to_string())
    }
    fn from_vec_ref<T: for<'a> TryFrom<&'a Vec<u8>, Error = BlsError>>(b: &Vec<u8>) -> Result<T, String> {
        T::try_from(b).map_err(|e| e.to_string())
    }
    fn from_box<T: TryFrom<Box<[u8]>, Error = BlsError>>(b: Box<[u8]>) -> Result<T, String> {
        T::try_from(b).map_err(|e| e.to_string())
    }
    CodecByteOps {
        to: to::<T>,
        into: into::<T>,
        from_slice: from_slice::<T>,
        from_vec: from_vec::<T>,
        from_vec_ref: from_vec_ref::<T>,
        from_box: from_box::<T>,
    }
}

/// one compressed point contained in a value: (is a G1 point, 48/96 bytes)
pub type CodecPoint = (bool, Vec<u8>);

pub struct CodecSample {
    pub label: String,
    pub bytes: Option<Vec<u8>>,
    pub bare: Vec<u8>,
    pub json: String,
    pub points: Vec<CodecPoint>,
}

pub struct CodecVal {
    /// re-encodings (bytes, bare, json) of the decoded value; None if re-encoding failed or panicked
    pub reenc: Option<(Option<Vec<u8>>, Vec<u8>, String)>,
    pub points: Vec<CodecPoint>,
    /// (consumer name, returned normally)
    pub consumed: Vec<(&'static str, bool)>,
}

pub enum CodecDec {
    Panic,
    Err(String),
    Ok(CodecVal),
}

pub const CODEC_BYTES: u8 = 0;
pub const CODEC_BARE: u8 = 1;
pub const CODEC_JSON: u8 = 2;
pub const CODEC_BYTES_VEC: u8 = 3;
pub const CODEC_BYTES_VECREF: u8 = 4;
pub const CODEC_BYTES_BOX: u8 = 5;

pub fn codec_form_name(f: u8) -> &'static str {
    match f {
        CODEC_BYTES => "try_from_bytes",
        CODEC_BARE => "bare_from_slice",
        CODEC_JSON => "json_from_str",
        CODEC_BYTES_VEC => "try_from_vec",
        CODEC_BYTES_VECREF => "try_from_vec_ref",
        _ => "try_from_box",
    }
}

pub struct CodecTy {
    pub name: &'static str,
    pub has_bytes: bool,
    /// byte and bare lengths depend only on (type, group)
    pub fixed: bool,
    /// the byte decoder accepts exactly one length
    pub exact: bool,
    /// the decoders parse (and must validate) the contained points
    pub checked: bool,
    pub samples: Vec<CodecSample>,
    /// (form, input, run the consumers on an Ok value)
    pub decode: Box<dyn Fn(u8, &[u8], bool) -> CodecDec>,
    /// C15 checks of sample i: (check name, ok, note)
    pub roundtrip: Box<dyn Fn(usize) -> Vec<(String, bool, String)>>,
}

impl CodecTy {
    pub fn forms(&self) -> Vec<u8> {
        if self.has_bytes {
            vec![CODEC_BYTES, CODEC_BARE, CODEC_JSON]
        } else {
            vec![CODEC_BARE, CODEC_JSON]
        }
    }
    pub fn enc<'a>(&self, sm: &'a CodecSample, form: u8) -> &'a [u8] {
        match form {
            CODEC_BARE => &sm.bare,
            CODEC_JSON => sm.json.as_bytes(),
            _ => sm.bytes.as_deref().unwrap_or(&[]),
        }
    }
}

#[allow(clippy::too_many_arguments)]
pub fn codec_ty<T, P, K>(
    name: &'static str,
    fixed: bool,
    exact: bool,
    checked: bool,
    ops: Option<CodecByteOps<T>>,
    samples: Vec<(String, T)>,
    points: P,
    consume: K,
) -> CodecTy
where
    T: Serialize + DeserializeOwned + PartialEq + Clone + 'static,
    P: Fn(&T) -> Vec<CodecPoint> + 'static,
    K: Fn(&T) -> Vec<(&'static str, bool)> + 'static,
{
    let points = Rc::new(points);
    let mut smp = Vec::new();
    for (label, v) in &samples {
        let bytes = ops.and_then(|o| codec_catch(|| (o.to)(v)).ok());
        let bare = codec_catch(|| serde_bare::to_vec(v).ok()).ok().flatten().unwrap_or_default();
        let json = codec_catch(|| serde_json::to_string(v).ok()).ok().flatten().unwrap_or_default();
        let pts = codec_catch(|| points(v)).unwrap_or_default();
        smp.push(CodecSample { label: label.clone(), bytes, bare, json, points: pts });
    }
    let vals: Rc<Vec<T>> = Rc::new(samples.into_iter().map(|(_, v)| v).collect());

    let pts2 = points.clone();
    let decode = move |form: u8, input: &[u8], run_consumers: bool| -> CodecDec {
        let r: Result<Result<T, String>, ()> = codec_catch(|| match form {
            CODEC_BARE => serde_bare::from_slice::<T>(input).map_err(|e| e.to_string()),
            CODEC_JSON => match std::str::from_utf8(input) {
                Ok(st) => serde_json::from_str::<T>(st).map_err(|e| e.to_string()),
                Err(_) => serde_json::from_slice::<T>(input).map_err(|e| e.to_string()),
            },
            _ => match ops {
                None => Err("no byte form".to_string()),
                Some(o) => match form {
                    CODEC_BYTES => (o.from_slice)(input),
                    CODEC_BYTES_VEC => (o.from_vec)(input.to_vec()),
                    CODEC_BYTES_VECREF => (o.from_vec_ref)(&input.to_vec()),
                    _ => (o.from_box)(input.to_vec().into_boxed_slice()),
                },
            },
        });
        match r {
            Err(()) => CodecDec::Panic,
            Ok(Err(e)) => CodecDec::Err(e),
            Ok(Ok(v)) => {
                let reenc = codec_catch(|| {
                    let b = ops.map(|o| (o.to)(&v));
                    let bare = serde_bare::to_vec(&v).ok()?;
                    let js = serde_json::to_string(&v).ok()?;
                    Some((b, bare, js))
                })
                .ok()
                .flatten();
                let points = codec_catch(|| pts2(&v)).unwrap_or_else(|_| vec![(true, vec![])]);
                let consumed = if run_consumers { consume(&v) } else { vec![] };
                CodecDec::Ok(CodecVal { reenc, points, consumed })
            }
        }
    };

    let roundtrip = move |i: usize| -> Vec<(String, bool, String)> {
        let v = &vals[i];
        let mut out: Vec<(String, bool, String)> = Vec::new();
        let mut push = |name: &str, r: Result<(bool, String), ()>| match r {
            Ok((ok, note)) => out.push((name.to_string(), ok, note)),
            Err(()) => out.push((format!("{name}_panicked"), false, "panicked".to_string())),
        };
        if let Some(o) = ops {
            push(
                "bytes_roundtrip",
                codec_catch(|| {
                    let b = (o.to)(v);
                    match (o.from_slice)(&b) {
                        Ok(v2) => {
                            let b2 = (o.to)(&v2);
                            if v2 != *v {
                                (false, format!("decoded value differs (re-encodes to {})", codec_hexs(&b2)))
                            } else if b2 != b {
                                (false, "re-encoding differs".to_string())
                            } else {
                                (true, String::new())
                            }
                        }
                        Err(e) => (false, format!("decode error: {e}")),
                    }
                }),
            );
            push(
                "bytes_containers",
                codec_catch(|| {
                    let b = (o.to)(v);
                    let mut notes: Vec<String> = vec![];
                    if (o.into)(v.clone()) != b {
                        notes.push("From<T> differs from From<&T>".into());
                    }
                    let mut chk = |what: &str, r: Result<T, String>| match r {
                        Ok(v2) if v2 == *v => {}
                        Ok(_) => notes.push(format!("{what}: value differs")),
                        Err(e) => notes.push(format!("{what}: {e}")),
                    };
                    chk("Vec<u8>", (o.from_vec)(b.clone()));
                    chk("&Vec<u8>", (o.from_vec_ref)(&b));
                    chk("Box<[u8]>", (o.from_box)(b.clone().into_boxed_slice()));
                    (notes.is_empty(), notes.join("; "))
                }),
            );
        }
        push(
            "bare_roundtrip",
            codec_catch(|| {
                let b = match serde_bare::to_vec(v) {
                    Ok(b) => b,
                    Err(e) => return (false, format!("encode error: {e}")),
                };
                match serde_bare::from_slice::<T>(&b) {
                    Ok(v2) => {
                        let same = serde_bare::to_vec(&v2).map(|b2| b2 == b).unwrap_or(false);
                        (v2 == *v && same, if v2 != *v { "decoded value differs".into() } else { String::new() })
                    }
                    Err(e) => (false, format!("decode error: {e}")),
                }
            }),
        );
        push(
            "json_roundtrip",
            codec_catch(|| {
                let b = match serde_json::to_string(v) {
                    Ok(b) => b,
                    Err(e) => return (false, format!("encode error: {e}")),
                };
                match serde_json::from_str::<T>(&b) {
                    Ok(v2) => {
                        let same = serde_json::to_string(&v2).map(|b2| b2 == b).unwrap_or(false);
                        (v2 == *v && same, if v2 != *v { "decoded value differs".into() } else { String::new() })
                    }
                    Err(e) => (false, format!("decode error: {e}")),
                }
            }),
        );
        push(
            "encoding_deterministic",
            codec_catch(|| {
                let mut notes: Vec<&str> = vec![];
                if let Some(o) = ops {
                    if (o.to)(v) != (o.to)(v) {
                        notes.push("bytes");
                    }
                }
                if serde_bare::to_vec(v).ok() != serde_bare::to_vec(&v.clone()).ok() {
                    notes.push("bare");
                }
                if serde_json::to_string(v).ok() != serde_json::to_string(&v.clone()).ok() {
                    notes.push("json");
                }
                (notes.is_empty(), notes.join(","))
            }),
        );
        out
    };

    CodecTy {
        name,
        has_bytes: ops.is_some(),
        fixed,
        exact,
        checked,
        samples: smp,
        decode: Box::new(decode),
        roundtrip: Box::new(roundtrip),
    }
}

// ---------------------------------------------------------------------------------------------
// invalid point encodings
// ---------------------------------------------------------------------------------------------

pub struct CodecBad {
    pub kind: &'static str,
    pub bytes: Vec<u8>,
}

/// reference validity of a compressed point (on curve, in the subgroup; identity allowed)
pub fn codec_point_valid(p: &CodecPoint) -> bool {
    if p.0 {
        dec_g1(&p.1).is_some()
    } else {
        dec_g2(&p.1).is_some()
    }
}

/// `p + T` for a valid compressed point `p` of G1 (g1 = true) or G2, where T is a non-trivial point of the curve whose
/// order divides the cofactor: a different curve point outside the prime-order subgroup that pairs like `p`.
pub fn codec_torsion_shift(rng: &mut Prng, g1: bool, pb: &[u8]) -> Option<Vec<u8>> {
    use bls12_381_plus as r;
    for bad in codec_bad_points(rng, g1, 4) {
        if bad.kind != "off_subgroup" {
            continue;
        }
        if g1 {
            let a: [u8; 48] = bad.bytes.clone().try_into().ok()?;
            let q: Option<r::G1Affine> = r::G1Affine::from_compressed_unchecked(&a).into();
            let q = r::G1Projective::from(q?);
            let t = q * (-r::Scalar::ONE) + q; // [r-1]Q + Q = [r]Q
            if bool::from(t.is_identity()) {
                continue;
            }
            let pa: [u8; 48] = pb.try_into().ok()?;
            let p: Option<r::G1Affine> = r::G1Affine::from_compressed(&pa).into();
            return Some(r::G1Affine::from(r::G1Projective::from(p?) + t).to_compressed().to_vec());
        } else {
            let a: [u8; 96] = bad.bytes.clone().try_into().ok()?;
            let q: Option<r::G2Affine> = r::G2Affine::from_compressed_unchecked(&a).into();
            let q = r::G2Projective::from(q?);
            let t = q * (-r::Scalar::ONE) + q;
            if bool::from(t.is_identity()) {
                continue;
            }
            let pa: [u8; 96] = pb.try_into().ok()?;
            let p: Option<r::G2Affine> = r::G2Affine::from_compressed(&pa).into();
            return Some(r::G2Affine::from(r::G2Projective::from(p?) + t).to_compressed().to_vec());
        }
    }
    None
}

pub fn codec_bad_points(rng: &mut Prng, g1: bool, n: usize) -> Vec<CodecBad> {
    use bls12_381_plus as r;
    let len = if g1 { 48 } else { 96 };
    let mut out = Vec::new();
    let (mut off, mut nox, mut guard) = (0usize, 0usize, 0usize);
    while (off < n || nox < n) && guard < 100_000 {
        guard += 1;
        let mut b = rng.bytes(len);
        let sign = b[0] & 0x20;
        // compression flag set, infinity clear; top byte of every coordinate < 0x1a, hence x < p
        b[0] = 0x80 | sign | (rng.below(0x1a) as u8);
        if !g1 {
            b[48] = rng.below(0x1a) as u8;
        }
        let (decoded, torsion_free) = if g1 {
            let a: [u8; 48] = b.clone().try_into().unwrap();
            let p: Option<r::G1Affine> = r::G1Affine::from_compressed_unchecked(&a).into();
            (p.is_some(), p.map(|p| bool::from(p.is_torsion_free())).unwrap_or(false))
        } else {
            let a: [u8; 96] = b.clone().try_into().unwrap();
            let p: Option<r::G2Affine> = r::G2Affine::from_compressed_unchecked(&a).into();
            (p.is_some(), p.map(|p| bool::from(p.is_torsion_free())).unwrap_or(false))
        };
        if decoded && !torsion_free {
            if off < n {
                out.push(CodecBad { kind: "off_subgroup", bytes: b });
                off += 1;
            }
        } else if !decoded && nox < n {
            out.push(CodecBad { kind: "no_curve_point", bytes: b });
            nox += 1;
        }
    }
    let k = rng.scalar();
    let good = if g1 { enc_g1(&k) } else { enc_g2(&k) };
    let mut c = good.clone();
    c[0] &= 0x7f;
    out.push(CodecBad { kind: "flag_compression_cleared", bytes: c });
    let mut c = good.clone();
    c[0] |= 0x40;
    out.push(CodecBad { kind: "flag_infinity_on_nonzero_body", bytes: c });
    let mut c = vec![0u8; len];
    c[0] = 0xe0;
    out.push(CodecBad { kind: "flag_infinity_with_sign", bytes: c });
    let mut c = vec![0u8; len];
    c[0] = 0x40;
    out.push(CodecBad { kind: "flag_infinity_without_compression", bytes: c });
    out.push(CodecBad { kind: "flag_all_zero", bytes: vec![0u8; len] });
    out
}

pub fn codec_find(hay: &[u8], needle: &[u8]) -> Option<usize> {
    if needle.is_empty() || needle.len() > hay.len() {
        return None;
    }
    hay.windows(needle.len()).position(|w| w == needle)
}

pub fn codec_splice(hay: &[u8], at: usize, old_len: usize, new: &[u8]) -> Vec<u8> {
    let mut v = hay[..at].to_vec();
    v.extend_from_slice(new);
    v.extend_from_slice(&hay[at + old_len..]);
    v
}

/// (start, end) of the content of every JSON string token made of >= 8 hex digits only
pub fn codec_json_hex_fields(js: &str) -> Vec<(usize, usize)> {
    let b = js.as_bytes();
    let mut out = vec![];
    let mut i = 0;
    while i < b.len() {
        if b[i] == b'"' {
            let st = i + 1;
            let mut j = st;
            while j < b.len() && b[j] != b'"' {
                j += 1;
            }
            if j - st >= 8 && b[st..j].iter().all(|c| c.is_ascii_hexdigit()) {
                out.push((st, j));
            }
            i = j + 1;
        } else {
            i += 1;
        }
    }
    out
}

// ---------------------------------------------------------------------------------------------
// C15 generic runner
// ---------------------------------------------------------------------------------------------

pub fn codec_run_c15(rec: &mut CodecRec, tys: &[CodecTy]) {
    for ty in tys {
        let mut len0: Option<(Option<usize>, usize)> = None;
        for (i, sm) in ty.samples.iter().enumerate() {
            let key = format!("{}|{}", ty.name, sm.label);
            let det = json!({"impl": rec.imp, "type": ty.name, "sample": sm.label, "bare": codec_hexs(&sm.bare), "bytes": sm.bytes.as_ref().map(|b| codec_hexs(b))});
            for (check, ok, note) in (ty.roundtrip)(i) {
                let mut d = det.clone();
                if !note.is_empty() {
                    d["note"] = json!(note);
                }
                rec.case(&format!("{}_{}", ty.name, check), key.clone(), ok, d);
            }
            if ty.fixed {
                let l = (sm.bytes.as_ref().map(|b| b.len()), sm.bare.len());
                let ok = match len0 {
                    None => {
                        len0 = Some(l);
                        true
                    }
                    Some(l0) => l0 == l,
                };
                let mut d = det.clone();
                d["lengths_bytes_bare"] = json!([l.0, l.1]);
                d["first_lengths"] = json!([len0.unwrap().0, len0.unwrap().1]);
                rec.case(&format!("{}_fixed_length", ty.name), key.clone(), ok, d);
            }
        }
    }
}

// ---------------------------------------------------------------------------------------------
// C16 generic runner
// ---------------------------------------------------------------------------------------------

fn codec_c16_expect_err(rec: &mut CodecRec, ty: &CodecTy, form: u8, what: &str, key: String, input: &[u8], mut det: serde_json::Value) {
    let class = format!("{}_{}_{}", ty.name, codec_form_name(form), what);
    let pclass = format!("{class}_panicked");
    if !rec.open(&class) || !rec.open(&pclass) {
        return;
    }
    det["impl"] = json!(rec.imp);
    det["type"] = json!(ty.name);
    det["decoder"] = json!(codec_form_name(form));
    det["input"] = json!(if form == CODEC_JSON { codec_strs(input) } else { codec_hexs(input) });
    match (ty.decode)(form, input, false) {
        CodecDec::Err(_) => rec.case(&class, key, true, det),
        CodecDec::Ok(v) => {
            det["outcome"] = json!("decoded Ok");
            if let Some((_, bare, _)) = &v.reenc {
                det["decoded_reencodes_to"] = json!(codec_hexs(bare));
            }
            rec.case(&class, key, false, det)
        }
        CodecDec::Panic => rec.case(&pclass, key, false, det),
    }
}

/// Ok values must re-encode and contain only valid points
fn codec_c16_ok_is_valid(rec: &mut CodecRec, ty: &CodecTy, form: u8, key: String, input: &[u8], mut det: serde_json::Value) {
    let class = format!("{}_{}_ok_value_is_valid", ty.name, codec_form_name(form));
    let pclass = format!("{}_{}_arbitrary_input_panicked", ty.name, codec_form_name(form));
    if !rec.open(&class) || !rec.open(&pclass) {
        return;
    }
    det["impl"] = json!(rec.imp);
    det["type"] = json!(ty.name);
    det["decoder"] = json!(codec_form_name(form));
    det["input"] = json!(if form == CODEC_JSON { codec_strs(input) } else { codec_hexs(input) });
    match (ty.decode)(form, input, false) {
        CodecDec::Err(_) => rec.case(&class, key, true, det),
        CodecDec::Ok(v) => {
            let bad: Vec<String> = v.points.iter().filter(|p| !codec_point_valid(p)).map(|p| hex::encode(&p.1)).collect();
            let ok = v.reenc.is_some() && bad.is_empty();
            if !ok {
                det["invalid_points"] = json!(bad);
                det["reencodes"] = json!(v.reenc.is_some());
            }
            rec.case(&class, key, ok, det)
        }
        CodecDec::Panic => rec.case(&pclass, key, false, det),
    }
}

pub fn codec_run_c16(rec: &mut CodecRec, rng: &mut Prng, tys: &[CodecTy], bad_g1: &[CodecBad], bad_g2: &[CodecBad], thorough: bool) {
    for ty in tys {
        // --- invalid points at every point position, all three decoders
        if ty.checked {
            let nsm = if thorough { 2 } else { 1 };
            for sm in ty.samples.iter().take(nsm) {
                for (pi, (is_g1, pb)) in sm.points.iter().enumerate() {
                    let bads = if *is_g1 { bad_g1 } else { bad_g2 };
                    let phex = hex::encode(pb);
                    for (bi, bad) in bads.iter().enumerate() {
                        for form in ty.forms() {
                            let enc = ty.enc(sm, form);
                            let (needle, repl): (Vec<u8>, Vec<u8>) = if form == CODEC_JSON {
                                (phex.clone().into_bytes(), hex::encode(&bad.bytes).into_bytes())
                            } else {
                                (pb.clone(), bad.bytes.clone())
                            };
                            let Some(at) = codec_find(enc, &needle) else {
                                eprintln!("codec: point {pi} of {} not found in its {} encoding", ty.name, codec_form_name(form));
                                continue;
                            };
                            let input = codec_splice(enc, at, needle.len(), &repl);
                            let key = format!("{}|{}|{}|p{}|{}#{}", ty.name, form, sm.label, pi, bad.kind, bi);
                            let det = json!({"base": sm.label, "point_index": pi, "offset": at, "kind": bad.kind, "bad_point": hex::encode(&bad.bytes)});
                            codec_c16_expect_err(rec, ty, form, "rejects_invalid_point", key, &input, det);
                        }
                    }
                    // (d) the hex string of the point shortened / extended by one byte
                    let enc = sm.json.as_bytes();
                    if let Some(at) = codec_find(enc, phex.as_bytes()) {
                        for (lab, repl) in [("point_hex_minus_1_byte", phex[..phex.len() - 2].to_string()), ("point_hex_plus_1_byte", format!("{phex}00")), ("point_hex_plus_1_byte_front", format!("00{phex}"))] {
                            let input = codec_splice(enc, at, phex.len(), repl.as_bytes());
                            let key = format!("{}|json|{}|p{}|{}", ty.name, sm.label, pi, lab);
                            let det = json!({"base": sm.label, "point_index": pi, "kind": lab});
                            codec_c16_expect_err(rec, ty, CODEC_JSON, "rejects_invalid_point", key, &input, det);
                        }
                    }
                }
            }
        }
        // --- human-readable form: every hex field (points, scalars, share containers - all of fixed size)
        //     shortened or lengthened by whole bytes must be refused, never padded or cut
        if ty.forms().contains(&CODEC_JSON) {
            for sm in ty.samples.iter().take(if thorough { 3 } else { 1 }) {
                for (ml, input) in codec_json_hex_mutations(&sm.json) {
                    let lab = ml.split(':').nth(1).unwrap_or("");
                    if lab == "uppercase" {
                        continue; // upper-case hex is a valid spelling of the same bytes
                    }
                    let key = format!("{}|json|{}|{}", ty.name, sm.label, ml);
                    let det = json!({"base": sm.label, "kind": ml});
                    codec_c16_expect_err(rec, ty, CODEC_JSON, "json_rejects_malformed_hex", key, &input, det);
                }
            }
        }
        // --- human-readable form, structure: a document with its last array element or any one object field
        //     removed is a truncated document and must be refused (never completed with a default value)
        if ty.forms().contains(&CODEC_JSON) {
            for sm in ty.samples.iter().take(if thorough { 3 } else { 1 }) {
                for (lab, doc) in codec_json_structural_truncations(&sm.json) {
                    let key = format!("{}|json|{}|{}", ty.name, sm.label, lab);
                    let det = json!({"base": sm.label, "kind": lab});
                    codec_c16_expect_err(rec, ty, CODEC_JSON, "json_rejects_truncated_document", key, doc.as_bytes(), det);
                }
            }
        }
        // --- truncation: every proper prefix (byte and bare forms)
        let nsm = if thorough { 3 } else { 1 };
        for sm in ty.samples.iter().take(nsm) {
            for form in ty.forms() {
                if form == CODEC_JSON {
                    continue;
                }
                let enc = ty.enc(sm, form);
                if enc.len() > 2048 {
                    continue;
                }
                for k in 0..enc.len() {
                    let key = format!("{}|{}|{}|trunc{}", ty.name, form, sm.label, k);
                    let det = json!({"base": sm.label, "kept": k, "of": enc.len()});
                    codec_c16_expect_err(rec, ty, form, "rejects_truncation", key, &enc[..k], det);
                }
            }
        }
        // --- exact-length types: every other length is rejected
        if ty.exact && ty.has_bytes {
            for sm in ty.samples.iter().take(nsm) {
                let enc = ty.enc(sm, CODEC_BYTES);
                for d in [1usize, 2, 16] {
                    if enc.len() >= d {
                        let key = format!("{}|{}|shorter{}", ty.name, sm.label, d);
                        codec_c16_expect_err(rec, ty, CODEC_BYTES, "rejects_wrong_length", key, &enc[..enc.len() - d], json!({"base": sm.label, "delta": -(d as i64)}));
                        let key = format!("{}|{}|shorter_front{}", ty.name, sm.label, d);
                        codec_c16_expect_err(rec, ty, CODEC_BYTES, "rejects_wrong_length", key, &enc[d..], json!({"base": sm.label, "delta": -(d as i64), "cut": "front"}));
                    }
                    for (fill, ext) in [("zeros", vec![0u8; d]), ("ff", vec![0xffu8; d]), ("random", rng.bytes(d))] {
                        let mut input = enc.to_vec();
                        input.extend_from_slice(&ext);
                        let key = format!("{}|{}|longer{}{}", ty.name, sm.label, d, fill);
                        codec_c16_expect_err(rec, ty, CODEC_BYTES, "rejects_wrong_length", key, &input, json!({"base": sm.label, "delta": d, "fill": fill}));
                        let mut input = ext.clone();
                        input.extend_from_slice(enc);
                        let key = format!("{}|{}|longer_front{}{}", ty.name, sm.label, d, fill);
                        codec_c16_expect_err(rec, ty, CODEC_BYTES, "rejects_wrong_length", key, &input, json!({"base": sm.label, "delta": d, "fill": fill, "where": "front"}));
                    }
                }
            }
        }
        // --- arbitrary inputs: whatever decodes is valid
        let sm = &ty.samples[0];
        let nrand = if thorough { 256 } else { 48 };
        for form in ty.forms() {
            let enc = ty.enc(sm, form).to_vec();
            if form == CODEC_JSON {
                // structurally valid documents with random hex of the right length in every hex field
                let fields = codec_json_hex_fields(&sm.json);
                for t in 0..nrand.min(32) {
                    let mut doc = enc.clone();
                    for (st, en) in &fields {
                        if t % 2 == 0 || rng.below(2) == 0 {
                            let h = hex::encode(rng.bytes((en - st) / 2));
                            doc[*st..*en].copy_from_slice(h.as_bytes());
                        }
                    }
                    let key = format!("{}|json|randhex{}", ty.name, t);
                    codec_c16_ok_is_valid(rec, ty, form, key, &doc, json!({"kind": "random hex in hex fields", "base": sm.label}));
                }
                let key = format!("{}|json|randbytes", ty.name);
                codec_c16_ok_is_valid(rec, ty, form, key, &rng.bytes(40), json!({"kind": "random bytes"}));
                continue;
            }
            let mut lens = vec![0usize, 1, 2, 16, 31, 32, 33, 34, 47, 48, 49, 50, 64, 95, 96, 97, 98, 128, 192, 193];
            lens.push(enc.len());
            lens.push(enc.len() + 1);
            for t in 0..nrand {
                let l = lens[t % lens.len()];
                let input = rng.bytes(l);
                let key = format!("{}|{}|rand{}", ty.name, form, t);
                codec_c16_ok_is_valid(rec, ty, form, key, &input, json!({"kind": "random bytes", "len": l}));
            }
            // valid encodings with a random byte / bit changed (these do decode now and then)
            if !enc.is_empty() {
                for t in 0..nrand {
                    let mut input = enc.clone();
                    let at = rng.below(input.len() as u64) as usize;
                    if t % 2 == 0 {
                        input[at] ^= 1 << rng.below(8);
                    } else {
                        input[at] = rng.next() as u8;
                    }
                    let key = format!("{}|{}|mut{}", ty.name, form, t);
                    codec_c16_ok_is_valid(rec, ty, form, key, &input, json!({"kind": "valid encoding with one byte changed", "base": sm.label, "at": at}));
                }
            }
        }
    }
}

// ---------------------------------------------------------------------------------------------
// C17 generic runner
// ---------------------------------------------------------------------------------------------

pub fn codec_mutations(rng: &mut Prng, enc: &[u8], thorough: bool) -> Vec<(String, Vec<u8>)> {
    let mut out: Vec<(String, Vec<u8>)> = vec![];
    let n = enc.len();
    for k in 1..n {
        out.push((format!("truncate@{k}"), enc[..k].to_vec()));
    }
    let all_bits = thorough && n <= 320;
    for i in 0..n {
        let bits: Vec<u32> = if all_bits || i < 2 || i + 1 == n {
            (0..8).collect()
        } else if thorough {
            vec![rng.below(8) as u32, 7]
        } else {
            vec![rng.below(8) as u32]
        };
        for b in bits {
            let mut v = enc.to_vec();
            v[i] ^= 1u8 << b;
            out.push((format!("flip@{i}.{b}"), v));
        }
    }
    for (lab, ext) in [("extend+1x00", vec![0u8]), ("extend+1xff", vec![0xff]), ("extend+2", rng.bytes(2)), ("extend+16", rng.bytes(16)), ("extend+16x00", vec![0u8; 16])] {
        let mut v = enc.to_vec();
        v.extend_from_slice(&ext);
        out.push((lab.to_string(), v));
    }
    for l in [1usize, 2, 3, 16, 31, 32, 33, 34, 47, 48, 49, 50, 64, 95, 96, 97, 98, 128, n, n + 1] {
        out.push((format!("random{l}"), rng.bytes(l)));
    }
    out.push(("zeros".into(), vec![0u8; n]));
    out.push(("ones".into(), vec![0xffu8; n]));
    out.push(("empty".into(), vec![]));
    out
}

/// a JSON document with the last element of every array, or one field of every object, removed (at any depth)
pub fn codec_json_structural_truncations(js: &str) -> Vec<(String, String)> {
    fn walk(v: &serde_json::Value, path: &mut Vec<String>, root: &serde_json::Value, out: &mut Vec<(String, String)>) {
        fn set_at(root: &serde_json::Value, path: &[String], new: serde_json::Value) -> serde_json::Value {
            if path.is_empty() {
                return new;
            }
            let mut r = root.clone();
            {
                let mut cur = &mut r;
                for p in &path[..path.len() - 1] {
                    cur = match cur {
                        serde_json::Value::Array(a) => &mut a[p.parse::<usize>().unwrap()],
                        serde_json::Value::Object(o) => o.get_mut(p).unwrap(),
                        _ => unreachable!(),
                    };
                }
                let last = &path[path.len() - 1];
                match cur {
                    serde_json::Value::Array(a) => a[last.parse::<usize>().unwrap()] = new,
                    serde_json::Value::Object(o) => {
                        o.insert(last.clone(), new);
                    }
                    _ => unreachable!(),
                }
            }
            r
        }
        match v {
            serde_json::Value::Array(a) => {
                // arrays of numbers are byte strings (variable-length payloads among them): a shorter one is another value
                if !a.is_empty() && !a.iter().all(|x| x.is_number()) {
                    let mut b = a.clone();
                    b.pop();
                    let doc = set_at(root, path, serde_json::Value::Array(b));
                    out.push((format!("array_at_{}_minus_last", path.join(".")), doc.to_string()));
                }
                for (i, x) in a.iter().enumerate().take(4) {
                    path.push(i.to_string());
                    walk(x, path, root, out);
                    path.pop();
                }
            }
            serde_json::Value::Object(o) => {
                for k in o.keys() {
                    let mut b = o.clone();
                    b.remove(k);
                    let doc = set_at(root, path, serde_json::Value::Object(b));
                    out.push((format!("object_at_{}_minus_{}", path.join("."), k), doc.to_string()));
                }
                for (k, x) in o.iter() {
                    path.push(k.clone());
                    walk(x, path, root, out);
                    path.pop();
                }
            }
            _ => {}
        }
    }
    let mut out = vec![];
    if let Ok(root) = serde_json::from_str::<serde_json::Value>(js) {
        walk(&root, &mut vec![], &root, &mut out);
    }
    out
}

/// mutations of every hex-encoded field of a JSON document
pub fn codec_json_hex_mutations(js: &str) -> Vec<(String, Vec<u8>)> {
    let mut out = vec![];
    let b = js.as_bytes();
    for (fi, (st, en)) in codec_json_hex_fields(js).into_iter().enumerate() {
        let f = &js[st..en];
        let l = f.len();
        let mut reps: Vec<(&str, String)> = vec![];
        reps.push(("nonhex_first", format!("g{}", &f[1..])));
        reps.push(("nonhex_middle", format!("{}z{}", &f[..l / 2], &f[l / 2 + 1..])));
        reps.push(("nonhex_last", format!("{} ", &f[..l - 1])));
        reps.push(("nonhex_all", "zz".repeat(l / 2)));
        reps.push(("uppercase", f.to_uppercase()));
        reps.push(("odd_minus_1", f[..l - 1].to_string()));
        reps.push(("odd_plus_1", format!("{f}0")));
        reps.push(("short_minus_2", f[..l - 2].to_string()));
        reps.push(("short_half", f[..l / 2].to_string()));
        reps.push(("short_2", f[..2].to_string()));
        reps.push(("short_1", f[..1].to_string()));
        reps.push(("short_empty", String::new()));
        reps.push(("long_plus_2", format!("{f}00")));
        reps.push(("long_double", format!("{f}{f}")));
        reps.push(("prefix_0x", format!("0x{f}")));
        for (lab, r) in reps {
            out.push((format!("hexfield{fi}:{lab}"), codec_splice(b, st, l, r.as_bytes())));
        }
    }
    out
}

fn codec_c17_one(rec: &mut CodecRec, ty: &CodecTy, form: u8, base: &str, mlabel: &str, input: &[u8]) {
    let class = format!("{}_{}_mutated", ty.name, codec_form_name(if form > CODEC_JSON { CODEC_BYTES } else { form }));
    let key = format!("{}|{}|{}|{}", ty.name, form, base, mlabel);
    let instr = if form == CODEC_JSON { codec_strs(input) } else { codec_hexs(input) };
    let det = json!({"impl": rec.imp, "type": ty.name, "call": codec_form_name(form), "base": base, "mutation": mlabel, "input": instr});
    match (ty.decode)(form, input, true) {
        CodecDec::Panic => rec.case(&class, key, false, det),
        CodecDec::Err(_) => rec.case(&class, key, true, det),
        CodecDec::Ok(v) => {
            rec.case(&class, key.clone(), true, det.clone());
            let rclass = format!("{}_reencode_decoded", ty.name);
            rec.case(&rclass, key.clone(), v.reenc.is_some(), det.clone());
            for (cname, ok) in v.consumed {
                let cclass = format!("{}_consume_{}", ty.name, cname);
                let mut d = det.clone();
                d["consumer"] = json!(cname);
                rec.case(&cclass, key.clone(), ok, d);
            }
        }
    }
}

/// byte / bare / JSON-text mutations (truncation, flips, extension, random, empty) + consumers
pub fn codec_run_c17_binary(rec: &mut CodecRec, rng: &mut Prng, tys: &[CodecTy], thorough: bool) {
    for ty in tys {
        let nsm = if thorough { 3 } else { 1 };
        for (si, sm) in ty.samples.iter().take(nsm).enumerate() {
            for form in ty.forms() {
                if form == CODEC_JSON {
                    continue;
                }
                let enc = ty.enc(sm, form).to_vec();
                if enc.len() > 1024 {
                    continue;
                }
                for (ml, input) in codec_mutations(rng, &enc, thorough) {
                    codec_c17_one(rec, ty, form, &sm.label, &ml, &input);
                }
            }
            // the valid value itself through the consumers, and the container variants on edge inputs
            if ty.has_bytes && si == 0 {
                let enc = ty.enc(sm, CODEC_BYTES).to_vec();
                for form in [CODEC_BYTES, CODEC_BYTES_VEC, CODEC_BYTES_VECREF, CODEC_BYTES_BOX] {
                    codec_c17_one(rec, ty, form, &sm.label, "unchanged", &enc);
                    codec_c17_one(rec, ty, form, &sm.label, "empty", &[]);
                    codec_c17_one(rec, ty, form, &sm.label, "one_byte", &[1]);
                    if !enc.is_empty() {
                        codec_c17_one(rec, ty, form, &sm.label, "minus_1", &enc[..enc.len() - 1]);
                    }
                }
            }
        }
    }
}

pub fn codec_run_c17_json(rec: &mut CodecRec, rng: &mut Prng, tys: &[CodecTy], thorough: bool) {
    for ty in tys {
        let nsm = if thorough { 2 } else { 1 };
        for sm in ty.samples.iter().take(nsm) {
            let enc = sm.json.as_bytes().to_vec();
            if enc.len() > 2048 {
                continue;
            }
            codec_c17_one(rec, ty, CODEC_JSON, &sm.label, "unchanged", &enc);
            for (ml, input) in codec_json_hex_mutations(&sm.json) {
                codec_c17_one(rec, ty, CODEC_JSON, &sm.label, &ml, &input);
            }
            for (ml, input) in codec_mutations(rng, &enc, thorough) {
                codec_c17_one(rec, ty, CODEC_JSON, &sm.label, &ml, &input);
            }
            for doc in ["", "null", "0", "\"\"", "[]", "{}", "[0]", "\"00\"", "{\"Basic\":\"\"}", "[1,\"\"]", "true", "\"zz\""] {
                codec_c17_one(rec, ty, CODEC_JSON, &sm.label, &format!("doc:{doc}"), doc.as_bytes());
            }
        }
    }
}

// ---------------------------------------------------------------------------------------------
// the non-generic data types (run once, from the g1 instantiation)
// ---------------------------------------------------------------------------------------------

pub fn codec_nongeneric_types(rng: &mut Prng, level: u8, thorough: bool) -> Vec<CodecTy> {
    use blsful::vsss_rs::Share;
    let mut tys = vec![];
    let mut keys: Vec<RScalar> = vec![rng.scalar()];
    if level >= 1 {
        keys.push(RScalar::ONE);
        keys.push(-RScalar::ONE);
    }
    if level >= 2 {
        keys.extend(gen::edge_scalars());
        for _ in 0..(if thorough { 8 } else { 2 }) {
            keys.push(rng.scalar());
        }
    }
    // ---- SecretKeyEnum
    {
        let mut smp: Vec<(String, SecretKeyEnum)> = vec![];
        for k in &keys {
            smp.push((format!("G1(sk={})", gen::hs(k)), SecretKeyEnum::G1(SecretKey::<Bls12381G1Impl>(crate::bl::bsc(&sc_be(k))))));
            smp.push((format!("G2(sk={})", gen::hs(k)), SecretKeyEnum::G2(SecretKey::<Bls12381G2Impl>(crate::bl::bsc(&sc_be(k))))));
        }
        tys.push(codec_ty("secret_key_enum", true, false, true, Some(codec_byte_ops::<SecretKeyEnum>()), smp, |_| vec![], |v: &SecretKeyEnum| {
            codec_consume![
                "to_be_bytes" => v.to_be_bytes(),
                "to_le_bytes" => v.to_le_bytes(),
                "to_vec" => Vec::<u8>::from(v),
                "public_key" => match v { SecretKeyEnum::G1(k) => { let _ = k.public_key(); } SecretKeyEnum::G2(k) => { let _ = k.public_key(); } },
                "debug" => format!("{:?}", v),
            ]
        }));
    }
    // ---- InnerPointShareG1 / InnerPointShareG2
    {
        let ids: Vec<u8> = if level < 2 { vec![1, 255] } else if thorough { (1..=255).collect() } else { vec![1, 2, 3, 127, 128, 129, 254, 255, 1 + rng.below(255) as u8] };
        let mut s1: Vec<(String, InnerPointShareG1)> = vec![];
        let mut s2: Vec<(String, InnerPointShareG2)> = vec![];
        for (n, &id) in ids.iter().enumerate() {
            let k = keys[n % keys.len()];
            let mut a = [0u8; 49];
            a[0] = id;
            a[1..].copy_from_slice(&enc_g1(&k));
            s1.push((format!("id={id},point={}", gen::hs(&k)), InnerPointShareG1(a)));
            let mut a = [0u8; 97];
            a[0] = id;
            a[1..].copy_from_slice(&enc_g2(&k));
            s2.push((format!("id={id},point={}", gen::hs(&k)), InnerPointShareG2(a)));
        }
        if level >= 2 {
            s1.push(("default".into(), InnerPointShareG1::default()));
            s1.push(("all_ff".into(), InnerPointShareG1([0xff; 49])));
            s2.push(("default".into(), InnerPointShareG2::default()));
            s2.push(("all_ff".into(), InnerPointShareG2([0xff; 97])));
        }
        tys.push(codec_ty("inner_point_share_g1", true, true, false, Some(codec_byte_ops::<InnerPointShareG1>()), s1, |_| vec![], |v: &InnerPointShareG1| {
            codec_consume![
                "identifier" => v.identifier(),
                "value_vec" => v.value_vec(),
                "is_zero" => Share::is_zero(v),
                "as_group_element" => v.as_group_element::<blsful::inner_types::G1Projective>(),
                "as_wrong_group_element" => v.as_group_element::<blsful::inner_types::G2Projective>(),
                "display" => format!("{} {:x} {:X} {:?}", v, v, v, v),
            ]
        }));
        tys.push(codec_ty("inner_point_share_g2", true, true, false, Some(codec_byte_ops::<InnerPointShareG2>()), s2, |_| vec![], |v: &InnerPointShareG2| {
            codec_consume![
                "identifier" => v.identifier(),
                "value_vec" => v.value_vec(),
                "is_zero" => Share::is_zero(v),
                "as_group_element" => v.as_group_element::<blsful::inner_types::G2Projective>(),
                "as_wrong_group_element" => v.as_group_element::<blsful::inner_types::G1Projective>(),
                "display" => format!("{} {:x} {:X} {:?}", v, v, v, v),
            ]
        }));
    }
    // ---- SignatureSchemes / Bls12381 (serde forms only; u8 / string forms are checked separately)
    {
        let smp: Vec<(String, SignatureSchemes)> = vec![("Basic".into(), SignatureSchemes::Basic), ("MessageAugmentation".into(), SignatureSchemes::MessageAugmentation), ("ProofOfPossession".into(), SignatureSchemes::ProofOfPossession)];
        tys.push(codec_ty("signature_schemes", true, false, true, None, smp, |_| vec![], |v: &SignatureSchemes| {
            codec_consume!["display" => format!("{} {:?}", v, v)]
        }));
        let smp: Vec<(String, Bls12381)> = vec![("G1".into(), Bls12381::G1), ("G2".into(), Bls12381::G2)];
        tys.push(codec_ty("bls12381", true, false, true, None, smp, |_| vec![], |v: &Bls12381| {
            codec_consume!["display" => format!("{} {:?} {}", v, v, u8::from(v))]
        }));
    }
    tys
}

/// u8 and string forms of the two small enums, SecretKeyEnum's extra byte forms
pub fn codec_c15_small(rec: &mut CodecRec, rng: &mut Prng, thorough: bool) {
    use std::str::FromStr;
    for (v, name, n) in [(SignatureSchemes::Basic, "Basic", 0u8), (SignatureSchemes::MessageAugmentation, "MessageAugmentation", 1), (SignatureSchemes::ProofOfPossession, "ProofOfPossession", 2)] {
        let det = json!({"type": "SignatureSchemes", "variant": name});
        rec.case("signature_schemes_u8_roundtrip", name.into(), codec_catch(|| SignatureSchemes::from(v as u8) == v && v as u8 == n).unwrap_or(false), det.clone());
        rec.case(
            "signature_schemes_string_roundtrip",
            name.into(),
            codec_catch(|| v.to_string() == name && SignatureSchemes::from(v.to_string().as_str()) == v && SignatureSchemes::from_str(&v.to_string()).ok() == Some(v)).unwrap_or(false),
            det,
        );
    }
    for (v, name, n) in [(Bls12381::G1, "BLS12381G1", 1u8), (Bls12381::G2, "BLS12381G2", 2)] {
        let det = json!({"type": "Bls12381", "variant": name});
        rec.case("bls12381_u8_roundtrip", name.into(), codec_catch(|| u8::from(v) == n && u8::from(&v) == n && Bls12381::try_from(n).ok() == Some(v) && Bls12381::try_from(&n).ok() == Some(v)).unwrap_or(false), det.clone());
        rec.case("bls12381_string_roundtrip", name.into(), codec_catch(|| v.to_string() == name && Bls12381::from_str(&v.to_string()).ok() == Some(v)).unwrap_or(false), det);
    }
    // SecretKeyEnum: to_be_bytes/from_be_bytes, to_le_bytes/from_le_bytes must return the same variant and key
    let mut keys = gen::edge_scalars();
    for _ in 0..(if thorough { 8 } else { 2 }) {
        keys.push(rng.scalar());
    }
    for k in &keys {
        for g1 in [true, false] {
            let v = if g1 {
                SecretKeyEnum::G1(SecretKey::<Bls12381G1Impl>(crate::bl::bsc(&sc_be(k))))
            } else {
                SecretKeyEnum::G2(SecretKey::<Bls12381G2Impl>(crate::bl::bsc(&sc_be(k))))
            };
            let variant = if g1 { "G1" } else { "G2" };
            let key = format!("{}|{}", variant, gen::hs(k));
            for (class, be) in [("secret_key_enum_be_bytes_roundtrip", true), ("secret_key_enum_le_bytes_roundtrip", false)] {
                if !rec.open(class) {
                    continue;
                }
                let r = codec_catch(|| {
                    let b = if be { v.to_be_bytes() } else { v.to_le_bytes() };
                    let back: Option<SecretKeyEnum> = if be { SecretKeyEnum::from_be_bytes(&b).into() } else { SecretKeyEnum::from_le_bytes(&b).into() };
                    let note = match &back {
                        None => "rejected".to_string(),
                        Some(SecretKeyEnum::G1(_)) => "came back as G1".to_string(),
                        Some(SecretKeyEnum::G2(_)) => "came back as G2".to_string(),
                    };
                    (back.as_ref() == Some(&v), hex::encode(b), note)
                });
                match r {
                    Ok((ok, enc, note)) => rec.case(class, key.clone(), ok, json!({"type": "SecretKeyEnum", "variant": variant, "sk": gen::hs(k), "encoded": enc, "outcome": note})),
                    Err(()) => rec.case(&format!("{class}_panicked"), key.clone(), false, json!({"type": "SecretKeyEnum", "variant": variant, "sk": gen::hs(k)})),
                }
            }
        }
    }
}

fn codec_ske_entry(e: usize, input: &[u8]) -> Result<Option<SecretKeyEnum>, ()> {
    codec_catch(|| match e {
        0 => SecretKeyEnum::try_from(input).ok(),
        1 => SecretKeyEnum::from_be_bytes(input).into(),
        2 => SecretKeyEnum::from_le_bytes(input).into(),
        3 => SecretKeyEnum::try_from(input.to_vec()).ok(),
        4 => SecretKeyEnum::try_from(&input.to_vec()).ok(),
        _ => SecretKeyEnum::try_from(input.to_vec().into_boxed_slice()).ok(),
    })
}

/// zero and unreduced keys behind either tag are rejected by the three byte entry points
pub fn codec_c16_secret_key_enum(rec: &mut CodecRec) {
    let r_be = codec_r_be();
    for (lab, be) in [("zero", [0u8; 32]), ("r", r_be)] {
        for tag in [0u8, 1, 2] {
            for e in 0..3usize {
                let mut input = vec![tag];
                if e == 2 {
                    let mut le = be;
                    le.reverse();
                    input.extend_from_slice(&le);
                } else {
                    input.extend_from_slice(&be);
                }
                let class = format!("secret_key_enum_{}_rejects_zero_and_r", CODEC_SCALAR_ENTRIES[e]);
                let det = json!({"type": "SecretKeyEnum", "entry": CODEC_SCALAR_ENTRIES[e], "value": lab, "tag": tag, "input": hex::encode(&input)});
                let key = format!("{lab}|{tag}");
                match codec_ske_entry(e, &input) {
                    Ok(None) => rec.case(&class, key, true, det),
                    Ok(Some(_)) => rec.case(&class, key, false, det),
                    Err(()) => rec.case(&format!("{class}_panicked"), key, false, det),
                }
            }
        }
    }
}

/// empty and short slices into the three (six) byte entry points of SecretKeyEnum
pub fn codec_c17_secret_key_enum(rec: &mut CodecRec, rng: &mut Prng) {
    for e in 0..3usize {
        let class = format!("secret_key_enum_{}_empty", CODEC_SCALAR_ENTRIES[e]);
        let det = json!({"type": "SecretKeyEnum", "entry": CODEC_SCALAR_ENTRIES[e], "input": ""});
        rec.case(&class, "empty".into(), codec_ske_entry(e, &[]).is_ok(), det);
        let class = format!("secret_key_enum_{}_short", CODEC_SCALAR_ENTRIES[e]);
        let mut inputs: Vec<Vec<u8>> = vec![];
        for tag in [0u8, 1, 2, 3, 0x80, 0xff] {
            for l in [0usize, 1, 2, 16, 31, 32, 33, 64] {
                let mut v = vec![tag];
                v.extend_from_slice(&rng.bytes(l));
                if l == 32 {
                    v[1] &= 0x3f;
                }
                inputs.push(v);
            }
        }
        for input in inputs {
            let det = json!({"type": "SecretKeyEnum", "entry": CODEC_SCALAR_ENTRIES[e], "input": hex::encode(&input)});
            rec.case(&class, hex::encode(&input), codec_ske_entry(e, &input).is_ok(), det);
        }
    }
}

macro_rules! search_codec {
    () => {
        use crate::search_codec::*;
        use blsful::vsss_rs::Share as CodecShare;
        use std::rc::Rc as CodecRc;

        pub const CODEC_IMPL: &str = if G1 { "g1" } else { "g2" };
        pub type CodecPk = <C as Pairing>::PublicKey;
        pub type CodecSg = <C as Pairing>::Signature;
        pub type CodecPkShare = <C as Pairing>::PublicKeyShare;
        pub type CodecSgShare = <C as Pairing>::SignatureShare;

        pub fn codec_pkpt(p: &CodecPk) -> CodecPoint {
            (!G1, p.to_bytes().as_ref().to_vec())
        }
        pub fn codec_sgpt(p: &CodecSg) -> CodecPoint {
            (G1, p.to_bytes().as_ref().to_vec())
        }
        pub fn codec_pk_of(k: &RScalar) -> CodecPk {
            <CodecPk as Group>::generator() * bsc(&sc_be(k))
        }
        pub fn codec_sg_of(k: &RScalar) -> CodecSg {
            <CodecSg as Group>::generator() * bsc(&sc_be(k))
        }
        /// share container (identifier, payload) of the public-key group; payload of any length
        pub fn codec_pk_share(id: u8, payload: &[u8]) -> Option<CodecPkShare> {
            let mut b = vec![id];
            b.extend_from_slice(payload);
            serde_bare::from_slice::<CodecPkShare>(&b).ok()
        }
        pub fn codec_sg_share(id: u8, payload: &[u8]) -> Option<CodecSgShare> {
            let mut b = vec![id];
            b.extend_from_slice(payload);
            serde_bare::from_slice::<CodecSgShare>(&b).ok()
        }
        pub fn codec_chacha(rng: &mut Prng) -> rand_chacha::ChaCha20Rng {
            use rand_core::SeedableRng;
            let mut seed = [0u8; 32];
            seed.copy_from_slice(&rng.bytes(32));
            rand_chacha::ChaCha20Rng::from_seed(seed)
        }

        /// valid companions for the consumers
        pub struct CodecCtx {
            pub k1: RScalar,
            pub k2: RScalar,
            pub sk: SecretKey<C>,
            pub pk: PublicKey<C>,
            pub sk2: SecretKey<C>,
            pub pk2: PublicKey<C>,
            pub msg: Vec<u8>,
            pub msg2: Vec<u8>,
            pub sigs: Vec<Signature<C>>,
            pub sigs2: Vec<Signature<C>>,
            pub pop: ProofOfPossession<C>,
            pub x: ProofCommitmentSecret<C>,
            pub y: ProofCommitmentChallenge<C>,
            pub commitment: ProofCommitment<C>,
            pub pok: ProofOfKnowledge<C>,
            pub pokt: ProofOfKnowledgeTimestamp<C>,
            pub shares: Vec<SecretKeyShare<C>>,
            pub pkshares: Vec<PublicKeyShare<C>>,
            pub sigshares: Vec<SignatureShare<C>>,
            pub sc: SignCryptCiphertext<C>,
            pub sds: Vec<SignDecryptionShare<C>>,
            pub sdk: SignCryptDecryptionKey<C>,
            pub tc_id: Vec<u8>,
            pub tc: TimeCryptCiphertext<C>,
            pub tc_sig: Signature<C>,
            pub eg: ElGamalCiphertext<C>,
            pub egp: ElGamalProof<C>,
            pub egds: Vec<ElGamalDecryptionShare<C>>,
            pub egdk: ElGamalDecryptionKey<C>,
            pub mpk: MultiPublicKey<C>,
            pub msig: MultiSignature<C>,
            pub agg: AggregateSignature<C>,
        }

        pub fn codec_ctx(rng: &mut Prng) -> Option<CodecRc<CodecCtx>> {
            let k1 = rng.scalar();
            let k2 = rng.scalar();
            let seed = codec_chacha(rng);
            catch(move || {
                let sk = sk_of(&k1);
                let sk2 = sk_of(&k2);
                let pk = sk.public_key();
                let pk2 = sk2.public_key();
                let msg = b"codec companion message".to_vec();
                let msg2 = b"another companion message".to_vec();
                let sigs: Vec<Signature<C>> = (0..3u8).map(|i| sk.sign(scheme_of(i), &msg).unwrap()).collect();
                let sigs2: Vec<Signature<C>> = (0..3u8).map(|i| sk2.sign(scheme_of(i), &msg2).unwrap()).collect();
                let pop = sk.proof_of_possession().unwrap();
                let y = ProofCommitmentChallenge::<C>::from_hash(b"codec challenge");
                let (commitment, x) = ProofCommitment::<C>::generate(&msg, sigs[0]).unwrap();
                let pok = commitment.finalize(x, y, sigs[0]).unwrap();
                let pokt = ProofOfKnowledgeTimestamp::<C>::generate(&msg, sigs[0]).unwrap();
                let shares = sk.split_with_rng(2, 3, seed).unwrap();
                let pkshares: Vec<PublicKeyShare<C>> = shares.iter().map(|s| s.public_key().unwrap()).collect();
                let sigshares: Vec<SignatureShare<C>> = shares.iter().map(|s| s.sign(SignatureSchemes::Basic, &msg).unwrap()).collect();
                let sc = pk.sign_crypt(SignatureSchemes::Basic, b"signcrypt companion");
                let sds: Vec<SignDecryptionShare<C>> = shares.iter().map(|s| sc.create_decryption_share(s).unwrap()).collect();
                let sdk = sk.sign_decryption_key::<&[u8]>(&sc);
                let tc_id = b"codec time lock id".to_vec();
                let tc = pk.encrypt_time_lock(SignatureSchemes::Basic, b"time lock companion", &tc_id).unwrap();
                let tc_sig = sk.sign(SignatureSchemes::Basic, &tc_id).unwrap();
                let eg = pk.encrypt_key_el_gamal(&sk2).unwrap();
                let egp = pk.encrypt_key_el_gamal_with_proof(&sk2).unwrap();
                let egds: Vec<ElGamalDecryptionShare<C>> = shares
                    .iter()
                    .map(|s| ElGamalDecryptionShare::<C>(<C as BlsSignatureCore>::public_key_share_with_generator(&s.0, eg.c1).unwrap()))
                    .collect();
                let egdk = ElGamalDecryptionKey::<C>::from_shares(&egds[..2]).unwrap();
                let mpk = MultiPublicKey::<C>::from_public_keys([pk, pk2]);
                let both = [sigs[0], sk2.sign(SignatureSchemes::Basic, &msg).unwrap()];
                let msig = MultiSignature::<C>::from_signatures(both).unwrap();
                let agg = AggregateSignature::<C>::from_signatures([sigs[0], sigs2[0]]).unwrap();
                CodecRc::new(CodecCtx {
                    k1, k2, sk, pk, sk2, pk2, msg, msg2, sigs, sigs2, pop, x, y, commitment, pok, pokt, shares, pkshares,
                    sigshares, sc, sds, sdk, tc_id, tc, tc_sig, eg, egp, egds, egdk, mpk, msig, agg,
                })
            })
            .ok()
        }

        pub fn codec_share_ids(rng: &mut Prng, level: u8, thorough: bool) -> Vec<u8> {
            if level < 2 {
                vec![1, 255]
            } else if thorough {
                (1..=255u8).collect()
            } else {
                let mut v = vec![1u8, 2, 3, 4, 15, 16, 17, 63, 64, 65, 127, 128, 129, 191, 192, 200, 253, 254, 255];
                for _ in 0..5 {
                    v.push(1 + rng.below(255) as u8);
                }
                v
            }
        }

        /// Every generic data type with samples (sample 0 is always a "typical" random-valued one
        /// with pairwise distinct points), the points it contains and its consumers.
        /// level 0: minimal, 1: a few, 2: full edge set (C15).
        pub fn codec_types(rng: &mut Prng, level: u8, thorough: bool, ctx: &CodecRc<CodecCtx>) -> Vec<CodecTy> {
            let mut tys: Vec<CodecTy> = Vec::new();
            let mut keys: Vec<RScalar> = vec![ctx.k2];
            if level >= 1 {
                keys.push(RScalar::ONE);
                keys.push(-RScalar::ONE);
            }
            if level >= 2 {
                keys.extend(gen::edge_scalars());
                for _ in 0..(if thorough { 48 } else { 8 }) {
                    keys.push(rng.scalar());
                }
            }
            let edge = level >= 2;
            let pk_id = <CodecPk as Group>::identity();
            let sg_id = <CodecSg as Group>::identity();
            let ids = codec_share_ids(rng, level, thorough);
            let msgs: Vec<Vec<u8>> = if level >= 2 {
                let mut l = vec![0usize, 1, 31, 32, 33, 1000];
                l.push(if thorough { 200_000 } else { 20_000 });
                l.iter().map(|&n| gen::message(rng, n)).collect()
            } else {
                vec![b"payload".to_vec()]
            };

            // ---- SecretKey
            {
                let smp: Vec<(String, SecretKey<C>)> = keys.iter().map(|k| (format!("sk={}", gen::hs(k)), sk_of(k))).collect();
                let c = ctx.clone();
                tys.push(codec_ty("secret_key", true, true, true, Some(codec_byte_ops::<SecretKey<C>>()), smp, |_| vec![], move |v: &SecretKey<C>| {
                    codec_consume![
                        "public_key" => v.public_key(),
                        "to_be_bytes" => v.to_be_bytes(),
                        "to_le_bytes" => v.to_le_bytes(),
                        "sign_basic" => v.sign(SignatureSchemes::Basic, &c.msg),
                        "sign_aug" => v.sign(SignatureSchemes::MessageAugmentation, &c.msg),
                        "sign_pop" => v.sign(SignatureSchemes::ProofOfPossession, &c.msg),
                        "proof_of_possession" => v.proof_of_possession(),
                        "sign_crypt_decrypt" => c.sc.decrypt(v),
                        "sign_decryption_key" => v.sign_decryption_key::<&[u8]>(&c.sc),
                        "el_gamal_decrypt" => c.eg.decrypt(v),
                        "el_gamal_verify_and_decrypt" => c.egp.verify_and_decrypt(v),
                    ]
                }));
            }
            // ---- PublicKey
            {
                let mut smp: Vec<(String, PublicKey<C>)> = keys.iter().map(|k| (format!("pk_of={}", gen::hs(k)), sk_of(k).public_key())).collect();
                if edge {
                    smp.push(("identity".into(), PublicKey::<C>(pk_id)));
                }
                let c = ctx.clone();
                tys.push(codec_ty("public_key", true, true, true, Some(codec_byte_ops::<PublicKey<C>>()), smp, |v: &PublicKey<C>| vec![codec_pkpt(&v.0)], move |v: &PublicKey<C>| {
                    codec_consume![
                        "signature_verify" => c.sigs2[0].verify(v, &c.msg2),
                        "signature_verify_aug" => c.sigs2[1].verify(v, &c.msg2),
                        "pop_verify" => c.pop.verify(*v),
                        "aggregate_verify" => c.agg.verify(&[(c.pk, c.msg.clone()), (*v, c.msg2.clone())]),
                        "pok_verify" => c.pok.verify(*v, &c.msg, c.y),
                        "pok_timestamp_verify" => c.pokt.verify(*v, &c.msg, None),
                        "el_gamal_proof_verify" => c.egp.verify(*v),
                        "multi_public_key" => MultiPublicKey::<C>::from_public_keys([c.pk, *v]),
                        "display" => format!("{} {:?}", v, v),
                    ]
                }));
            }
            // ---- Signature / AggregateSignature / MultiSignature / ProofCommitment (scheme-tagged point)
            {
                let mut smp: Vec<(String, Signature<C>)> = vec![];
                for (ki, k) in keys.iter().enumerate() {
                    for sch in 0..3u8 {
                        for (mi, m) in msgs.iter().enumerate() {
                            if (ki > 0 || mi > 0) && (ki + mi + sch as usize) % 3 != 0 {
                                continue;
                            }
                            if let Ok(sg) = sk_of(k).sign(scheme_of(sch), m) {
                                smp.push((format!("sign(sk={},{},msg={})", gen::hs(k), gen::SCH[sch as usize], codec_hexs(&m[..m.len().min(64)])), sg));
                            }
                        }
                    }
                }
                if edge {
                    smp.push(("identity_basic".into(), Signature::<C>::Basic(sg_id)));
                    smp.push(("identity_aug".into(), Signature::<C>::MessageAugmentation(sg_id)));
                    smp.push(("identity_pop".into(), Signature::<C>::ProofOfPossession(sg_id)));
                }
                let c = ctx.clone();
                tys.push(codec_ty("signature", true, false, true, Some(codec_byte_ops::<Signature<C>>()), smp, |v: &Signature<C>| vec![codec_sgpt(v.as_raw_value())], move |v: &Signature<C>| {
                    codec_consume![
                        "verify" => v.verify(&c.pk2, &c.msg),
                        "as_raw_value" => v.as_raw_value().to_bytes(),
                        "same_scheme" => v.same_scheme(&c.sigs[0]),
                        "aggregate_from_signatures" => AggregateSignature::<C>::from_signatures([*v, c.sigs2[0]]),
                        "multi_from_signatures" => MultiSignature::<C>::from_signatures([c.sigs[2], *v]),
                        "time_crypt_decrypt" => c.tc.decrypt(v),
                        "display" => format!("{} {:?}", v, v),
                    ]
                }));
            }
            {
                let mut smp: Vec<(String, AggregateSignature<C>)> = vec![];
                for (ki, k) in keys.iter().enumerate() {
                    for sch in 0..3u8 {
                        if ki > 0 && (ki + sch as usize) % 3 != 0 {
                            continue;
                        }
                        let a = sk_of(k).sign(scheme_of(sch), &ctx.msg);
                        let b = ctx.sk.sign(scheme_of(sch), &ctx.msg2);
                        if let (Ok(a), Ok(b)) = (a, b) {
                            if let Ok(g) = AggregateSignature::<C>::from_signatures([a, b]) {
                                smp.push((format!("aggregate(sk={},{})", gen::hs(k), gen::SCH[sch as usize]), g));
                            }
                        }
                    }
                }
                if edge {
                    smp.push(("identity_basic".into(), AggregateSignature::<C>::Basic(sg_id)));
                    smp.push(("identity_aug".into(), AggregateSignature::<C>::MessageAugmentation(sg_id)));
                    smp.push(("identity_pop".into(), AggregateSignature::<C>::ProofOfPossession(sg_id)));
                }
                let c = ctx.clone();
                tys.push(codec_ty(
                    "aggregate_signature", true, false, true, Some(codec_byte_ops::<AggregateSignature<C>>()), smp,
                    |v: &AggregateSignature<C>| match v {
                        AggregateSignature::Basic(p) | AggregateSignature::MessageAugmentation(p) | AggregateSignature::ProofOfPossession(p) => vec![codec_sgpt(p)],
                    },
                    move |v: &AggregateSignature<C>| {
                        codec_consume![
                            "verify" => v.verify(&[(c.pk, c.msg.clone()), (c.pk2, c.msg2.clone())]),
                            "verify_empty" => v.verify::<Vec<u8>>(&[]),
                            "display" => format!("{} {:?}", v, v),
                        ]
                    },
                ));
            }
            {
                let mut smp: Vec<(String, MultiSignature<C>)> = vec![];
                for (ki, k) in keys.iter().enumerate() {
                    for sch in [0u8, 2] {
                        let a = sk_of(k).sign(scheme_of(sch), &ctx.msg);
                        let b = ctx.sk.sign(scheme_of(sch), &ctx.msg);
                        if let (Ok(a), Ok(b)) = (a, b) {
                            if let Ok(g) = MultiSignature::<C>::from_signatures([a, b]) {
                                smp.push((format!("multi(sk={},{})", gen::hs(k), gen::SCH[sch as usize]), g));
                            }
                        }
                    }
                    smp.push((format!("aug_point(sk={})", gen::hs(k)), MultiSignature::<C>::MessageAugmentation(codec_sg_of(k))));
                }
                if edge {
                    smp.push(("identity_basic".into(), MultiSignature::<C>::Basic(sg_id)));
                    smp.push(("identity_aug".into(), MultiSignature::<C>::MessageAugmentation(sg_id)));
                    smp.push(("identity_pop".into(), MultiSignature::<C>::ProofOfPossession(sg_id)));
                }
                let c = ctx.clone();
                tys.push(codec_ty("multi_signature", true, false, true, Some(codec_byte_ops::<MultiSignature<C>>()), smp, |v: &MultiSignature<C>| vec![codec_sgpt(v.as_raw_value())], move |v: &MultiSignature<C>| {
                    codec_consume![
                        "verify" => v.verify(c.mpk, &c.msg),
                        "as_raw_value" => v.as_raw_value().to_bytes(),
                        "display" => format!("{} {:?}", v, v),
                    ]
                }));
            }
            // ---- MultiPublicKey
            {
                let mut smp: Vec<(String, MultiPublicKey<C>)> = keys.iter().map(|k| (format!("mpk(ctx.pk,pk_of={})", gen::hs(k)), MultiPublicKey::<C>::from_public_keys([ctx.pk, sk_of(k).public_key()]))).collect();
                if edge {
                    smp.push(("identity".into(), MultiPublicKey::<C>(pk_id)));
                }
                let c = ctx.clone();
                tys.push(codec_ty("multi_public_key", true, true, true, Some(codec_byte_ops::<MultiPublicKey<C>>()), smp, |v: &MultiPublicKey<C>| vec![codec_pkpt(&v.0)], move |v: &MultiPublicKey<C>| {
                    codec_consume![
                        "multi_signature_verify" => c.msig.verify(*v, &c.msg),
                        "display" => format!("{} {:?}", v, v),
                    ]
                }));
            }
            // ---- ProofOfPossession
            {
                let mut smp: Vec<(String, ProofOfPossession<C>)> = keys.iter().filter_map(|k| sk_of(k).proof_of_possession().ok().map(|p| (format!("pop(sk={})", gen::hs(k)), p))).collect();
                if edge {
                    smp.push(("identity".into(), ProofOfPossession::<C>(sg_id)));
                }
                let c = ctx.clone();
                tys.push(codec_ty("proof_of_possession", true, true, true, Some(codec_byte_ops::<ProofOfPossession<C>>()), smp, |v: &ProofOfPossession<C>| vec![codec_sgpt(&v.0)], move |v: &ProofOfPossession<C>| {
                    codec_consume![
                        "verify" => v.verify(c.pk),
                        "display" => format!("{} {:?}", v, v),
                    ]
                }));
            }
            // ---- ProofCommitment
            {
                let mut smp: Vec<(String, ProofCommitment<C>)> = vec![];
                for k in &keys {
                    smp.push((format!("basic(point={})", gen::hs(k)), ProofCommitment::<C>::Basic(codec_sg_of(k))));
                    if level >= 1 {
                        smp.push((format!("aug(point={})", gen::hs(k)), ProofCommitment::<C>::MessageAugmentation(codec_sg_of(k))));
                        smp.push((format!("pop(point={})", gen::hs(k)), ProofCommitment::<C>::ProofOfPossession(codec_sg_of(k))));
                    }
                }
                if edge {
                    for sch in 0..3usize {
                        if let Ok((cm, _)) = ProofCommitment::<C>::generate(&ctx.msg, ctx.sigs[sch]) {
                            smp.push((format!("generate({})", gen::SCH[sch]), cm));
                        }
                    }
                    smp.push(("identity_basic".into(), ProofCommitment::<C>::Basic(sg_id)));
                    smp.push(("identity_aug".into(), ProofCommitment::<C>::MessageAugmentation(sg_id)));
                    smp.push(("identity_pop".into(), ProofCommitment::<C>::ProofOfPossession(sg_id)));
                }
                let c = ctx.clone();
                tys.push(codec_ty(
                    "proof_commitment", true, true, true, Some(codec_byte_ops::<ProofCommitment<C>>()), smp,
                    |v: &ProofCommitment<C>| match v {
                        ProofCommitment::Basic(p) | ProofCommitment::MessageAugmentation(p) | ProofCommitment::ProofOfPossession(p) => vec![codec_sgpt(p)],
                    },
                    move |v: &ProofCommitment<C>| {
                        codec_consume![
                            "finalize" => v.finalize(c.x, c.y, c.sigs[0]),
                            "display" => format!("{} {:?}", v, v),
                        ]
                    },
                ));
            }
            // ---- ProofCommitmentSecret / ProofCommitmentChallenge
            {
                let smp: Vec<(String, ProofCommitmentSecret<C>)> = keys.iter().map(|k| (format!("x={}", gen::hs(k)), ProofCommitmentSecret::<C>(bsc(&sc_be(k))))).collect();
                let c = ctx.clone();
                tys.push(codec_ty("proof_commitment_secret", true, true, true, Some(codec_byte_ops::<ProofCommitmentSecret<C>>()), smp, |_| vec![], move |v: &ProofCommitmentSecret<C>| {
                    codec_consume![
                        "to_be_bytes" => v.to_be_bytes(),
                        "to_le_bytes" => v.to_le_bytes(),
                        "finalize" => c.commitment.finalize(*v, c.y, c.sigs[0]),
                    ]
                }));
                let mut smp: Vec<(String, ProofCommitmentChallenge<C>)> = keys.iter().map(|k| (format!("y={}", gen::hs(k)), ProofCommitmentChallenge::<C>(bsc(&sc_be(k))))).collect();
                if edge {
                    smp.push(("from_hash".into(), ProofCommitmentChallenge::<C>::from_hash(b"edge challenge")));
                }
                let c = ctx.clone();
                tys.push(codec_ty("proof_commitment_challenge", true, true, true, Some(codec_byte_ops::<ProofCommitmentChallenge<C>>()), smp, |_| vec![], move |v: &ProofCommitmentChallenge<C>| {
                    codec_consume![
                        "to_be_bytes" => v.to_be_bytes(),
                        "to_le_bytes" => v.to_le_bytes(),
                        "finalize" => c.commitment.finalize(c.x, *v, c.sigs[0]),
                        "pok_verify" => c.pok.verify(c.pk, &c.msg, *v),
                    ]
                }));
            }
            // ---- ProofOfKnowledge / ProofOfKnowledgeTimestamp
            {
                fn pts(v: &ProofOfKnowledge<C>) -> Vec<CodecPoint> {
                    match v {
                        ProofOfKnowledge::Basic { u, v } | ProofOfKnowledge::MessageAugmentation { u, v } | ProofOfKnowledge::ProofOfPossession { u, v } => vec![codec_sgpt(u), codec_sgpt(v)],
                    }
                }
                let mut smp: Vec<(String, ProofOfKnowledge<C>)> = vec![("ctx_basic".into(), ctx.pok)];
                let mut smt: Vec<(String, ProofOfKnowledgeTimestamp<C>)> = vec![("ctx_basic".into(), ctx.pokt)];
                if level >= 1 {
                    for (ki, k) in keys.iter().enumerate() {
                        let (u, v) = (codec_sg_of(k), codec_sg_of(&(k + RScalar::from(7u64))));
                        smp.push((format!("aug(u={},v=u+7)", gen::hs(k)), ProofOfKnowledge::<C>::MessageAugmentation { u, v }));
                        smp.push((format!("pop(u={},v=u+7)", gen::hs(k)), ProofOfKnowledge::<C>::ProofOfPossession { u, v }));
                        for ts in [0u64, 1, 1 << 63, u64::MAX, rng.next()] {
                            smt.push((format!("basic(u={},v=u+7,ts={})", gen::hs(k), ts), ProofOfKnowledgeTimestamp::<C> { proof: ProofOfKnowledge::Basic { u, v }, timestamp: ts }));
                        }
                    }
                }
                if edge {
                    for sch in 0..3usize {
                        if let Ok((cm, x)) = ProofCommitment::<C>::generate(&ctx.msg, ctx.sigs[sch]) {
                            if let Ok(p) = cm.finalize(x, ctx.y, ctx.sigs[sch]) {
                                smp.push((format!("finalize({})", gen::SCH[sch]), p));
                            }
                        }
                        if let Ok(p) = ProofOfKnowledgeTimestamp::<C>::generate(&ctx.msg, ctx.sigs[sch]) {
                            smt.push((format!("generate({})", gen::SCH[sch]), p));
                        }
                    }
                    smp.push(("identity_basic".into(), ProofOfKnowledge::<C>::Basic { u: sg_id, v: sg_id }));
                    smp.push(("identity_pop_default".into(), ProofOfKnowledge::<C>::default()));
                    smt.push(("default".into(), ProofOfKnowledgeTimestamp::<C>::default()));
                    smt.push(("identity_aug_max".into(), ProofOfKnowledgeTimestamp::<C> { proof: ProofOfKnowledge::MessageAugmentation { u: sg_id, v: sg_id }, timestamp: u64::MAX }));
                }
                let c = ctx.clone();
                tys.push(codec_ty("proof_of_knowledge", true, false, true, Some(codec_byte_ops::<ProofOfKnowledge<C>>()), smp, pts, move |v: &ProofOfKnowledge<C>| {
                    codec_consume![
                        "verify" => v.verify(c.pk, &c.msg, c.y),
                        "display" => format!("{} {:?}", v, v),
                    ]
                }));
                let c = ctx.clone();
                tys.push(codec_ty("proof_of_knowledge_timestamp", true, false, true, Some(codec_byte_ops::<ProofOfKnowledgeTimestamp<C>>()), smt, |v: &ProofOfKnowledgeTimestamp<C>| pts(&v.proof), move |v: &ProofOfKnowledgeTimestamp<C>| {
                    codec_consume![
                        "verify_no_timeout" => v.verify(c.pk, &c.msg, None),
                        "verify_with_timeout" => v.verify(c.pk, &c.msg, Some(60_000)),
                        "display" => format!("{} {:?}", v, v),
                    ]
                }));
            }
            // ---- SecretKeyShare
            {
                let mut smp: Vec<(String, SecretKeyShare<C>)> = ctx.shares.iter().enumerate().map(|(i, s)| (format!("ctx_share{i}"), s.clone())).collect();
                for (n, &id) in ids.iter().enumerate() {
                    let k = keys[n % keys.len()];
                    let mut a = [0u8; 33];
                    a[0] = id;
                    let mut le = sc_be(&k);
                    le.reverse();
                    a[1..].copy_from_slice(&le);
                    smp.push((format!("id={id},value={}", gen::hs(&k)), SecretKeyShare::<C>(a)));
                }
                let c = ctx.clone();
                tys.push(codec_ty("secret_key_share", true, false, true, Some(codec_byte_ops::<SecretKeyShare<C>>()), smp, |_| vec![], move |v: &SecretKeyShare<C>| {
                    codec_consume![
                        "public_key" => v.public_key(),
                        "sign_basic" => v.sign(SignatureSchemes::Basic, &c.msg),
                        "sign_aug" => v.sign(SignatureSchemes::MessageAugmentation, &c.msg),
                        "sign_pop" => v.sign(SignatureSchemes::ProofOfPossession, &c.msg),
                        "as_raw_value" => v.as_raw_value().identifier(),
                        "combine" => SecretKey::<C>::combine(&[c.shares[0].clone(), v.clone()]),
                        "combine_alone" => SecretKey::<C>::combine(&[v.clone()]),
                        "create_decryption_share" => c.sc.create_decryption_share(v),
                    ]
                }));
            }
            // ---- PublicKeyShare / SignDecryptionShare / ElGamalDecryptionShare (public-key group containers)
            {
                let mut raw: Vec<(String, CodecPkShare)> = vec![];
                for (n, &id) in ids.iter().enumerate() {
                    let k = keys[n % keys.len()];
                    if let Some(sh) = codec_pk_share(id, &codec_pkpt(&codec_pk_of(&k)).1) {
                        raw.push((format!("id={id},point={}", gen::hs(&k)), sh));
                    }
                }
                if edge {
                    if let Some(sh) = codec_pk_share(7, &codec_pkpt(&pk_id).1) {
                        raw.push(("id=7,identity".into(), sh));
                    }
                }
                let mut smp: Vec<(String, PublicKeyShare<C>)> = ctx.pkshares.iter().enumerate().map(|(i, s)| (format!("ctx_share{i}"), *s)).collect();
                smp.extend(raw.iter().map(|(l, s)| (l.clone(), PublicKeyShare::<C>(*s))));
                let c = ctx.clone();
                tys.push(codec_ty("public_key_share", true, false, false, Some(codec_byte_ops::<PublicKeyShare<C>>()), smp, |_| vec![], move |v: &PublicKeyShare<C>| {
                    codec_consume![
                        "verify" => v.verify(&c.sigshares[0], &c.msg),
                        "signature_share_verify" => c.sigshares[1].verify(v, &c.msg),
                        "public_key_from_shares" => PublicKey::<C>::from_shares(&[c.pkshares[0], *v]),
                        "public_key_from_shares_alone" => PublicKey::<C>::from_shares(&[*v]),
                        "sign_decryption_share_verify" => c.sds[0].verify(v, &c.sc),
                        "display" => format!("{} {:?}", v, v),
                    ]
                }));
                let mut smp: Vec<(String, SignDecryptionShare<C>)> = ctx.sds.iter().enumerate().map(|(i, s)| (format!("ctx_share{i}"), s.clone())).collect();
                smp.extend(raw.iter().map(|(l, s)| (l.clone(), SignDecryptionShare::<C>(*s))));
                let c = ctx.clone();
                tys.push(codec_ty("sign_decryption_share", true, false, false, Some(codec_byte_ops::<SignDecryptionShare<C>>()), smp, |_| vec![], move |v: &SignDecryptionShare<C>| {
                    codec_consume![
                        "verify" => v.verify(&c.pkshares[0], &c.sc),
                        "decryption_key_from_shares" => SignCryptDecryptionKey::<C>::from_shares(&[c.sds[0].clone(), v.clone()]),
                        "decryption_key_from_shares_alone" => SignCryptDecryptionKey::<C>::from_shares(&[v.clone()]),
                        "decrypt_with_shares" => c.sc.decrypt_with_shares([c.sds[0].clone(), v.clone()]),
                        "debug" => format!("{:?}", v),
                    ]
                }));
                let mut smp: Vec<(String, ElGamalDecryptionShare<C>)> = ctx.egds.iter().enumerate().map(|(i, s)| (format!("ctx_share{i}"), s.clone())).collect();
                smp.extend(raw.iter().map(|(l, s)| (l.clone(), ElGamalDecryptionShare::<C>(*s))));
                let c = ctx.clone();
                tys.push(codec_ty("el_gamal_decryption_share", true, false, false, Some(codec_byte_ops::<ElGamalDecryptionShare<C>>()), smp, |_| vec![], move |v: &ElGamalDecryptionShare<C>| {
                    codec_consume![
                        "decryption_key_from_shares" => ElGamalDecryptionKey::<C>::from_shares(&[c.egds[0].clone(), v.clone()]),
                        "decryption_key_from_shares_alone" => ElGamalDecryptionKey::<C>::from_shares(&[v.clone()]),
                        "debug" => format!("{:?}", v),
                    ]
                }));
            }
            // ---- SignatureShare
            {
                let mut smp: Vec<(String, SignatureShare<C>)> = ctx.sigshares.iter().enumerate().map(|(i, s)| (format!("ctx_share{i}"), *s)).collect();
                if level >= 1 {
                    if let Ok(s) = ctx.shares[0].sign(SignatureSchemes::ProofOfPossession, &ctx.msg) {
                        smp.push(("ctx_share0_pop".into(), s));
                    }
                }
                for (n, &id) in ids.iter().enumerate() {
                    let k = keys[n % keys.len()];
                    if let Some(sh) = codec_sg_share(id, &codec_sgpt(&codec_sg_of(&k)).1) {
                        let v = match n % 3 {
                            0 => SignatureShare::<C>::Basic(sh),
                            1 => SignatureShare::<C>::MessageAugmentation(sh),
                            _ => SignatureShare::<C>::ProofOfPossession(sh),
                        };
                        smp.push((format!("{},id={id},point={}", gen::SCH[n % 3], gen::hs(&k)), v));
                    }
                }
                if edge {
                    smp.push(("default".into(), SignatureShare::<C>::default()));
                }
                let c = ctx.clone();
                tys.push(codec_ty("signature_share", true, false, false, Some(codec_byte_ops::<SignatureShare<C>>()), smp, |_| vec![], move |v: &SignatureShare<C>| {
                    codec_consume![
                        "verify" => v.verify(&c.pkshares[0], &c.msg),
                        "public_key_share_verify" => c.pkshares[1].verify(v, &c.msg),
                        "signature_from_shares" => Signature::<C>::from_shares(&[c.sigshares[0], *v]),
                        "signature_from_shares_alone" => Signature::<C>::from_shares(&[*v]),
                        "as_raw_value" => v.as_raw_value().identifier(),
                        "same_scheme" => v.same_scheme(&c.sigshares[0]),
                        "display" => format!("{} {:?}", v, v),
                    ]
                }));
            }
            // ---- SignCryptCiphertext / SignCryptDecryptionKey
            {
                let mut smp: Vec<(String, SignCryptCiphertext<C>)> = vec![("ctx_basic".into(), ctx.sc.clone())];
                if level >= 1 {
                    for sch in 0..3u8 {
                        for m in &msgs {
                            smp.push((format!("sign_crypt({},msg_len={})", gen::SCH[sch as usize], m.len()), ctx.pk.sign_crypt(scheme_of(sch), m)));
                        }
                    }
                }
                if edge {
                    for (lab, v) in [("empty", vec![]), ("one", vec![7u8]), ("large", rng.bytes(if thorough { 100_000 } else { 10_000 }))] {
                        smp.push((format!("fields(v={lab})"), SignCryptCiphertext::<C> { u: ctx.sc.u, v, w: ctx.sc.w, scheme: SignatureSchemes::MessageAugmentation }));
                    }
                    smp.push(("identity_points".into(), SignCryptCiphertext::<C> { u: pk_id, v: vec![1, 2, 3], w: sg_id, scheme: SignatureSchemes::Basic }));
                    smp.push(("default".into(), SignCryptCiphertext::<C>::default()));
                }
                let c = ctx.clone();
                tys.push(codec_ty("sign_crypt_ciphertext", false, false, true, Some(codec_byte_ops::<SignCryptCiphertext<C>>()), smp, |v: &SignCryptCiphertext<C>| vec![codec_pkpt(&v.u), codec_sgpt(&v.w)], move |v: &SignCryptCiphertext<C>| {
                    codec_consume![
                        "decrypt" => v.decrypt(&c.sk),
                        "is_valid" => v.is_valid(),
                        "decrypt_with_shares" => v.decrypt_with_shares(&c.sds[..2]),
                        "decrypt_with_no_shares" => v.decrypt_with_shares::<&[SignDecryptionShare<C>]>(&[]),
                        "create_decryption_share" => v.create_decryption_share(&c.shares[0]),
                        "decryption_key_decrypt" => c.sdk.decrypt(v),
                        "sign_decryption_key" => c.sk.sign_decryption_key::<&[u8]>(v).decrypt(v),
                        "decryption_share_verify" => c.sds[0].verify(&c.pkshares[0], v),
                        "display" => format!("{} {:?}", v, v),
                    ]
                }));
                let mut smp: Vec<(String, SignCryptDecryptionKey<C>)> = vec![("ctx".into(), ctx.sdk.clone())];
                if level >= 1 {
                    if let Ok(k) = SignCryptDecryptionKey::<C>::from_shares(&ctx.sds[1..]) {
                        smp.push(("from_shares".into(), k));
                    }
                    smp.extend(keys.iter().map(|k| (format!("point={}", gen::hs(k)), SignCryptDecryptionKey::<C>(codec_pk_of(k)))));
                }
                if edge {
                    smp.push(("identity".into(), SignCryptDecryptionKey::<C>(pk_id)));
                }
                let c = ctx.clone();
                tys.push(codec_ty("sign_crypt_decryption_key", true, false, true, Some(codec_byte_ops::<SignCryptDecryptionKey<C>>()), smp, |v: &SignCryptDecryptionKey<C>| vec![codec_pkpt(&v.0)], move |v: &SignCryptDecryptionKey<C>| {
                    codec_consume![
                        "decrypt" => v.decrypt(&c.sc),
                        "debug" => format!("{:?}", v),
                    ]
                }));
            }
            // ---- TimeCryptCiphertext
            {
                let mut smp: Vec<(String, TimeCryptCiphertext<C>)> = vec![("ctx_basic".into(), ctx.tc.clone())];
                if level >= 1 {
                    for sch in 0..3u8 {
                        for m in &msgs {
                            if let Ok(t) = ctx.pk.encrypt_time_lock(scheme_of(sch), m, &ctx.tc_id) {
                                smp.push((format!("encrypt_time_lock({},msg_len={})", gen::SCH[sch as usize], m.len()), t));
                            }
                        }
                    }
                }
                if edge {
                    for (lab, w) in [("empty", vec![]), ("one", vec![7u8]), ("large", rng.bytes(if thorough { 100_000 } else { 10_000 }))] {
                        smp.push((format!("fields(w={lab})"), TimeCryptCiphertext::<C> { u: ctx.tc.u, v: ctx.tc.v, w, scheme: SignatureSchemes::MessageAugmentation }));
                    }
                    smp.push(("identity_u".into(), TimeCryptCiphertext::<C> { u: pk_id, v: [0xff; 32], w: vec![0; 40], scheme: SignatureSchemes::Basic }));
                    smp.push(("default".into(), TimeCryptCiphertext::<C>::default()));
                }
                let c = ctx.clone();
                tys.push(codec_ty("time_crypt_ciphertext", false, false, true, Some(codec_byte_ops::<TimeCryptCiphertext<C>>()), smp, |v: &TimeCryptCiphertext<C>| vec![codec_pkpt(&v.u)], move |v: &TimeCryptCiphertext<C>| {
                    codec_consume![
                        "decrypt" => v.decrypt(&c.tc_sig),
                        "decrypt_other_scheme" => v.decrypt(&c.sigs[2]),
                        "debug" => format!("{:?}", v),
                    ]
                }));
            }
            // ---- ElGamalCiphertext / ElGamalProof / ElGamalDecryptionKey
            {
                let mut smp: Vec<(String, ElGamalCiphertext<C>)> = vec![("ctx".into(), ctx.eg)];
                let mut smq: Vec<(String, ElGamalProof<C>)> = vec![("ctx".into(), ctx.egp)];
                if level >= 1 {
                    for k in &keys {
                        let ct = ElGamalCiphertext::<C> { c1: codec_pk_of(k), c2: codec_pk_of(&(k + RScalar::from(5u64))) };
                        smp.push((format!("c1={},c2=c1+5", gen::hs(k)), ct));
                        let z = bsc(&sc_be(k));
                        smq.push((format!("ctx_ciphertext,scalars={}", gen::hs(k)), ElGamalProof::<C> { ciphertext: ctx.eg, message_proof: z, blinder_proof: z, challenge: z }));
                        if edge {
                            if let Ok(e) = ctx.pk.encrypt_key_el_gamal(&sk_of(k)) {
                                smp.push((format!("encrypt(sk={})", gen::hs(k)), e));
                            }
                            if let Ok(e) = ctx.pk.encrypt_key_el_gamal_with_proof(&sk_of(k)) {
                                smq.push((format!("encrypt_with_proof(sk={})", gen::hs(k)), e));
                            }
                        }
                    }
                }
                if edge {
                    smp.push(("identity_c1".into(), ElGamalCiphertext::<C> { c1: pk_id, c2: ctx.eg.c2 }));
                    smp.push(("identity_both".into(), ElGamalCiphertext::<C>::default()));
                    smq.push(("identity_c2_mixed_scalars".into(), ElGamalProof::<C> { ciphertext: ElGamalCiphertext { c1: ctx.eg.c1, c2: pk_id }, message_proof: bsc(&sc_be(&RScalar::ONE)), blinder_proof: bsc(&sc_be(&-RScalar::ONE)), challenge: ctx.egp.challenge }));
                }
                let c = ctx.clone();
                tys.push(codec_ty("el_gamal_ciphertext", true, false, true, Some(codec_byte_ops::<ElGamalCiphertext<C>>()), smp, |v: &ElGamalCiphertext<C>| vec![codec_pkpt(&v.c1), codec_pkpt(&v.c2)], move |v: &ElGamalCiphertext<C>| {
                    codec_consume![
                        "decrypt" => v.decrypt(&c.sk),
                        "decryption_key_decrypt" => c.egdk.decrypt(v),
                        "add" => *v + c.eg,
                        "display" => format!("{} {:?}", v, v),
                    ]
                }));
                let c = ctx.clone();
                tys.push(codec_ty("el_gamal_proof", true, false, true, Some(codec_byte_ops::<ElGamalProof<C>>()), smq, |v: &ElGamalProof<C>| vec![codec_pkpt(&v.ciphertext.c1), codec_pkpt(&v.ciphertext.c2)], move |v: &ElGamalProof<C>| {
                    codec_consume![
                        "verify" => v.verify(c.pk),
                        "verify_and_decrypt" => v.verify_and_decrypt(&c.sk),
                        "display" => format!("{} {:?}", v, v),
                    ]
                }));
                let mut smp: Vec<(String, ElGamalDecryptionKey<C>)> = vec![("ctx_from_shares".into(), ctx.egdk.clone())];
                if level >= 1 {
                    smp.extend(keys.iter().map(|k| (format!("point={}", gen::hs(k)), ElGamalDecryptionKey::<C>(codec_pk_of(k)))));
                }
                if edge {
                    smp.push(("identity".into(), ElGamalDecryptionKey::<C>(pk_id)));
                }
                let c = ctx.clone();
                tys.push(codec_ty("el_gamal_decryption_key", true, false, true, Some(codec_byte_ops::<ElGamalDecryptionKey<C>>()), smp, |v: &ElGamalDecryptionKey<C>| vec![codec_pkpt(&v.0)], move |v: &ElGamalDecryptionKey<C>| {
                    codec_consume![
                        "decrypt" => v.decrypt(&c.eg),
                    ]
                }));
            }
            tys
        }

        pub fn c15(s: &mut Search, rng: &mut Prng, thorough: bool) {
            let mut rec = CodecRec::new(s, CODEC_IMPL, 2);
            let Some(ctx) = codec_ctx(rng) else {
                rec.case("codec_companions_panicked", "ctx".into(), false, json!({"impl": CODEC_IMPL}));
                return;
            };
            let tys = codec_types(rng, 2, thorough, &ctx);
            codec_run_c15(&mut rec, &tys);
            // big/little-endian scalar codecs
            let mut keys = gen::edge_scalars();
            for _ in 0..(if thorough { 64 } else { 8 }) {
                keys.push(rng.scalar());
            }
            for k in &keys {
                codec_c15_scalar_type!(rec, k, SecretKey, "secret_key");
                codec_c15_scalar_type!(rec, k, ProofCommitmentSecret, "proof_commitment_secret");
                codec_c15_scalar_type!(rec, k, ProofCommitmentChallenge, "proof_commitment_challenge");
            }
            if G1 {
                let tys = codec_nongeneric_types(rng, 2, thorough);
                codec_run_c15(&mut rec, &tys);
                codec_c15_small(&mut rec, rng, thorough);
            }
            rec.finish();
        }

        /// share containers carrying an invalid point payload must be refused when used
        pub fn codec_c16_shares(rec: &mut CodecRec, rng: &mut Prng, ctx: &CodecRc<CodecCtx>, bad_pk: &[CodecBad], bad_sg: &[CodecBad], thorough: bool) {
            fn expect_err(rec: &mut CodecRec, class: &str, key: String, det: serde_json::Value, r: Result<bool, ()>) {
                match r {
                    Ok(is_err) => rec.case(class, key, is_err, det),
                    Err(()) => rec.case(&format!("{class}_panicked"), key, false, det),
                }
            }
            let npos = if thorough { 3 } else { 2 };
            for (bi, bad) in bad_pk.iter().enumerate() {
                for pos in 0..npos {
                    for n in [2usize, 3] {
                        if pos >= n {
                            continue;
                        }
                        let id = ctx.pkshares[pos].0.identifier();
                        let Some(raw) = codec_pk_share(id, &bad.bytes) else { continue };
                        let key = format!("{}#{}|pos{}|n{}", bad.kind, bi, pos, n);
                        let det = json!({"impl": CODEC_IMPL, "kind": bad.kind, "payload": hex::encode(&bad.bytes), "identifier": id, "position": pos, "shares": n,
                                         "other_shares": ctx.pkshares[..n].iter().map(|s| hex::encode(Vec::<u8>::from(s))).collect::<Vec<_>>()});
                        // PublicKey::from_shares
                        let mut v: Vec<PublicKeyShare<C>> = ctx.pkshares[..n].to_vec();
                        v[pos] = PublicKeyShare::<C>(raw);
                        expect_err(rec, "public_key_from_shares_rejects_invalid_payload", key.clone(), det.clone(), codec_catch(|| PublicKey::<C>::from_shares(&v).is_err()));
                        // SignCryptDecryptionKey::from_shares
                        let mut v: Vec<SignDecryptionShare<C>> = ctx.sds[..n].to_vec();
                        v[pos] = SignDecryptionShare::<C>(raw);
                        expect_err(rec, "sign_crypt_decryption_key_from_shares_rejects_invalid_payload", key.clone(), det.clone(), codec_catch(|| SignCryptDecryptionKey::<C>::from_shares(&v).is_err()));
                        // decrypt_with_shares on the matching valid ciphertext
                        let mut d = det.clone();
                        d["ciphertext"] = json!(hex::encode(Vec::<u8>::from(&ctx.sc)));
                        d["invalid_share"] = json!(hex::encode(Vec::<u8>::from(&v[pos])));
                        match codec_catch(|| Option::<Vec<u8>>::from(ctx.sc.decrypt_with_shares(&v))) {
                            Ok(out) => {
                                d["returned"] = json!(out.as_ref().map(hex::encode));
                                rec.case("sign_crypt_ciphertext_decrypt_with_shares_rejects_invalid_payload", key.clone(), out.is_none(), d)
                            }
                            Err(()) => rec.case("sign_crypt_ciphertext_decrypt_with_shares_rejects_invalid_payload_panicked", key.clone(), false, d),
                        }
                        // ElGamalDecryptionKey::from_shares
                        let mut v: Vec<ElGamalDecryptionShare<C>> = ctx.egds[..n].to_vec();
                        v[pos] = ElGamalDecryptionShare::<C>(raw);
                        expect_err(rec, "el_gamal_decryption_key_from_shares_rejects_invalid_payload", key.clone(), det.clone(), codec_catch(|| ElGamalDecryptionKey::<C>::from_shares(&v).is_err()));
                    }
                }
                // verification entry points
                let id = ctx.pkshares[0].0.identifier();
                if let Some(raw) = codec_pk_share(id, &bad.bytes) {
                    let key = format!("{}#{}", bad.kind, bi);
                    let det = json!({"impl": CODEC_IMPL, "kind": bad.kind, "payload": hex::encode(&bad.bytes), "identifier": id});
                    let pks = PublicKeyShare::<C>(raw);
                    let mut d = det.clone();
                    d["invalid"] = json!("public key share");
                    expect_err(rec, "public_key_share_verify_rejects_invalid_payload", format!("{key}|pks"), d.clone(), codec_catch(|| pks.verify(&ctx.sigshares[0], &ctx.msg).is_err()));
                    expect_err(rec, "signature_share_verify_rejects_invalid_payload", format!("{key}|pks"), d.clone(), codec_catch(|| ctx.sigshares[0].verify(&pks, &ctx.msg).is_err()));
                    expect_err(rec, "sign_decryption_share_verify_rejects_invalid_payload", format!("{key}|pks"), d, codec_catch(|| ctx.sds[0].verify(&pks, &ctx.sc).is_err()));
                    let mut d = det.clone();
                    d["invalid"] = json!("decryption share");
                    let sds = SignDecryptionShare::<C>(raw);
                    expect_err(rec, "sign_decryption_share_verify_rejects_invalid_payload", format!("{key}|sds"), d, codec_catch(|| sds.verify(&ctx.pkshares[0], &ctx.sc).is_err()));
                }
            }
            for (bi, bad) in bad_sg.iter().enumerate() {
                for pos in 0..npos {
                    for n in [2usize, 3] {
                        if pos >= n {
                            continue;
                        }
                        let id = ctx.sigshares[pos].as_raw_value().identifier();
                        let Some(raw) = codec_sg_share(id, &bad.bytes) else { continue };
                        for sch in 0..3u8 {
                            let key = format!("{}#{}|pos{}|n{}|{}", bad.kind, bi, pos, n, sch);
                            let det = json!({"impl": CODEC_IMPL, "kind": bad.kind, "payload": hex::encode(&bad.bytes), "identifier": id, "position": pos, "shares": n, "scheme": gen::SCH[sch as usize]});
                            let wrap = |s: CodecSgShare| match sch {
                                0 => SignatureShare::<C>::Basic(s),
                                1 => SignatureShare::<C>::MessageAugmentation(s),
                                _ => SignatureShare::<C>::ProofOfPossession(s),
                            };
                            let mut v: Vec<SignatureShare<C>> = ctx.sigshares[..n].iter().map(|s| wrap(*s.as_raw_value())).collect();
                            v[pos] = wrap(raw);
                            expect_err(rec, "signature_from_shares_rejects_invalid_payload", key.clone(), det.clone(), codec_catch(|| Signature::<C>::from_shares(&v).is_err()));
                            if pos == 0 && n == 2 {
                                let mut d = det.clone();
                                d["invalid"] = json!("signature share");
                                expect_err(rec, "public_key_share_verify_rejects_invalid_payload", format!("{key}|sig"), d.clone(), codec_catch(|| ctx.pkshares[0].verify(&v[0], &ctx.msg).is_err()));
                                expect_err(rec, "signature_share_verify_rejects_invalid_payload", format!("{key}|sig"), d, codec_catch(|| v[0].verify(&ctx.pkshares[0], &ctx.msg).is_err()));
                            }
                        }
                    }
                }
            }
            // decrypt_with_shares: fresh ciphertexts of assorted sizes, one invalid share among honest ones
            let nct = if thorough { 48 } else { 12 };
            for t in 0..nct {
                let class = "sign_crypt_ciphertext_decrypt_with_shares_rejects_invalid_payload";
                if !rec.open(class) {
                    break;
                }
                let len = [0usize, 1, 5, 31, 32, 33, 64, 100, 200, 500][t % 10];
                let m = rng.bytes(len);
                let bad = &bad_pk[t % bad_pk.len()];
                let r = codec_catch(|| {
                    let ct = ctx.pk.sign_crypt(scheme_of((t % 3) as u8), &m);
                    let mut v: Vec<SignDecryptionShare<C>> = ctx.shares[..2].iter().map(|s| ct.create_decryption_share(s).unwrap()).collect();
                    let id = v[1].0.identifier();
                    v[1] = SignDecryptionShare::<C>(codec_pk_share(id, &bad.bytes).unwrap());
                    let out: Option<Vec<u8>> = ct.decrypt_with_shares(&v).into();
                    (out, hex::encode(Vec::<u8>::from(&ct)), v.iter().map(|s| hex::encode(Vec::<u8>::from(s))).collect::<Vec<_>>())
                });
                match r {
                    Ok((out, ct, shares)) => {
                        let det = json!({"impl": CODEC_IMPL, "kind": bad.kind, "payload": hex::encode(&bad.bytes), "plaintext": hex::encode(&m), "ciphertext": ct, "shares": shares,
                                         "returned": out.as_ref().map(hex::encode)});
                        rec.case(class, format!("fresh{t}"), out.is_none(), det)
                    }
                    Err(()) => rec.case(&format!("{class}_panicked"), format!("fresh{t}"), false, json!({"impl": CODEC_IMPL, "kind": bad.kind, "payload": hex::encode(&bad.bytes), "plaintext": hex::encode(&m)})),
                }
            }
        }

        pub fn c16(s: &mut Search, rng: &mut Prng, thorough: bool) {
            let mut rec = CodecRec::new(s, CODEC_IMPL, 2);
            let Some(ctx) = codec_ctx(rng) else {
                rec.case("codec_companions_panicked", "ctx".into(), false, json!({"impl": CODEC_IMPL}));
                return;
            };
            let nbad = if thorough { 12 } else { 4 };
            let bad_g1 = codec_bad_points(rng, true, nbad);
            let bad_g2 = codec_bad_points(rng, false, nbad);
            let tys = codec_types(rng, if thorough { 1 } else { 0 }, thorough, &ctx);
            codec_run_c16(&mut rec, rng, &tys, &bad_g1, &bad_g2, thorough);
            codec_c16_scalar_type!(rec, rng, thorough, SecretKey, "secret_key");
            codec_c16_scalar_type!(rec, rng, thorough, ProofCommitmentSecret, "proof_commitment_secret");
            codec_c16_scalar_type!(rec, rng, thorough, ProofCommitmentChallenge, "proof_commitment_challenge");
            let (bad_pk, bad_sg) = if G1 { (&bad_g2, &bad_g1) } else { (&bad_g1, &bad_g2) };
            codec_c16_shares(&mut rec, rng, &ctx, bad_pk, bad_sg, thorough);
            if G1 {
                let tys = codec_nongeneric_types(rng, if thorough { 1 } else { 0 }, thorough);
                codec_run_c16(&mut rec, rng, &tys, &bad_g1, &bad_g2, thorough);
                codec_c16_secret_key_enum(&mut rec);
            }
            rec.finish();
        }

        /// the decoding checks of C16 restricted to the named types (used by the properties whose data they are:
        /// an altered encoding that still decodes is an altered value that is accepted)
        pub fn codec_forms_of(s: &mut Search, rng: &mut Prng, thorough: bool, names: &[&str]) {
            let mut rec = CodecRec::new(s, CODEC_IMPL, 2);
            let Some(ctx) = codec_ctx(rng) else {
                rec.case("codec_companions_panicked", "ctx".into(), false, json!({"impl": CODEC_IMPL}));
                return;
            };
            let nbad = if thorough { 12 } else { 4 };
            let bad_g1 = codec_bad_points(rng, true, nbad);
            let bad_g2 = codec_bad_points(rng, false, nbad);
            let tys: Vec<CodecTy> = codec_types(rng, if thorough { 1 } else { 0 }, thorough, &ctx).into_iter().filter(|t| names.contains(&t.name)).collect();
            codec_run_c16(&mut rec, rng, &tys, &bad_g1, &bad_g2, thorough);
            rec.finish();
        }
        pub fn c09_forms(s: &mut Search, rng: &mut Prng, thorough: bool) {
            codec_forms_of(s, rng, thorough, &["proof_of_possession", "public_key"]);
        }
        pub fn c02_forms(s: &mut Search, rng: &mut Prng, thorough: bool) {
            codec_forms_of(s, rng, thorough, &["signature", "public_key"]);
        }

        /// ProofOfKnowledgeTimestamp::verify over edge timestamps x timeouts (past ones first)
        pub fn codec_c17_timestamps(rec: &mut CodecRec, ctx: &CodecRc<CodecCtx>) {
            use std::time::{SystemTime, UNIX_EPOCH};
            for sch in 0..3usize {
                let Ok(Ok(base)) = codec_catch(|| ProofOfKnowledgeTimestamp::<C>::generate(&ctx.msg, ctx.sigs[sch])) else {
                    rec.case("proof_of_knowledge_timestamp_generate_panicked", format!("{sch}"), false, json!({"impl": CODEC_IMPL, "scheme": gen::SCH[sch]}));
                    continue;
                };
                let now = SystemTime::now().duration_since(UNIX_EPOCH).map(|d| d.as_millis() as u64).unwrap_or(0);
                let stamps: Vec<(&str, u64)> = vec![("0", 0), ("1", 1), ("now-1", now.saturating_sub(1)), ("own", base.timestamp), ("now+1", now + 1), ("now+10^6", now + 1_000_000), ("2^63", 1 << 63), ("u64::MAX", u64::MAX)];
                for (tl, ts) in &stamps {
                    for (ol, to) in [("None", None), ("Some(0)", Some(0u64)), ("Some(1)", Some(1)), ("Some(u64::MAX)", Some(u64::MAX))] {
                        let class = if to.is_some() { "proof_of_knowledge_timestamp_verify_with_timeout" } else { "proof_of_knowledge_timestamp_verify_no_timeout" };
                        let p = ProofOfKnowledgeTimestamp::<C> { proof: base.proof, timestamp: *ts };
                        let ok = codec_catch(|| {
                            let _ = p.verify(ctx.pk, &ctx.msg, to);
                        })
                        .is_ok();
                        let det = json!({"impl": CODEC_IMPL, "scheme": gen::SCH[sch], "timestamp": ts, "timestamp_label": tl, "timeout_ms": ol, "now_ms": now,
                                         "proof": hex::encode(Vec::<u8>::from(&p)), "pk": hex::encode(Vec::<u8>::from(&ctx.pk)), "msg": gen::hx(&ctx.msg)});
                        rec.case(class, format!("{sch}|{tl}|{ol}"), ok, det);
                    }
                }
            }
        }

        /// ciphertexts whose variable-length component has length 0, 1, 2, 31, 32
        pub fn codec_c17_short_payloads(rec: &mut CodecRec, rng: &mut Prng, ctx: &CodecRc<CodecCtx>, thorough: bool) {
            for len in [0usize, 1, 2, 31, 32] {
                for sch in 0..3u8 {
                    let v = rng.bytes(len);
                    let ct = SignCryptCiphertext::<C> { u: ctx.sc.u, v: v.clone(), w: ctx.sc.w, scheme: scheme_of(sch) };
                    let det = json!({"impl": CODEC_IMPL, "v_len": len, "scheme": gen::SCH[sch as usize], "ciphertext": hex::encode(Vec::<u8>::from(&ct)), "sk": gen::hs(&ctx.k1)});
                    let key = format!("{len}|{sch}");
                    rec.case("sign_crypt_ciphertext_decrypt_short_v", key.clone(), codec_catch(|| { let _ = ct.decrypt(&ctx.sk); }).is_ok(), det.clone());
                    rec.case("sign_crypt_ciphertext_is_valid_short_v", key.clone(), codec_catch(|| { let _ = ct.is_valid(); }).is_ok(), det.clone());
                    rec.case("sign_crypt_ciphertext_decrypt_with_shares_short_v", key.clone(), codec_catch(|| { let _ = ct.decrypt_with_shares(&ctx.sds[..2]); }).is_ok(), det.clone());
                    rec.case("sign_crypt_decryption_key_decrypt_short_v", key.clone(), codec_catch(|| { let _ = ctx.sdk.decrypt(&ct); }).is_ok(), det.clone());
                    rec.case("sign_decryption_share_verify_short_v", key.clone(), codec_catch(|| { let _ = ctx.sds[0].verify(&ctx.pkshares[0], &ct); }).is_ok(), det.clone());
                    rec.case("sign_crypt_ciphertext_create_decryption_share_short_v", key.clone(), codec_catch(|| { let _ = ct.create_decryption_share(&ctx.shares[0]); }).is_ok(), det);

                    let w = rng.bytes(len);
                    let tc = TimeCryptCiphertext::<C> { u: ctx.tc.u, v: ctx.tc.v, w, scheme: scheme_of(sch) };
                    let sig = ctx.sk.sign(scheme_of(sch), &ctx.tc_id).unwrap_or(ctx.tc_sig);
                    let det = json!({"impl": CODEC_IMPL, "w_len": len, "scheme": gen::SCH[sch as usize], "ciphertext": hex::encode(Vec::<u8>::from(&tc)), "signature": hex::encode(Vec::<u8>::from(&sig))});
                    rec.case("time_crypt_ciphertext_decrypt_short_w", key.clone(), codec_catch(|| { let _ = tc.decrypt(&sig); }).is_ok(), det.clone());
                    rec.case("time_crypt_ciphertext_decrypt_short_w", format!("{key}|other_scheme"), codec_catch(|| { let _ = tc.decrypt(&ctx.sigs[(sch as usize + 1) % 3]); }).is_ok(), det);
                }
            }
            // one- and two-byte payloads under many different keystreams (the keystream may start with a zero byte)
            let n = if thorough { 768 } else { 96 };
            for t in 0..n {
                let len = 1 + t % 2;
                let k = rng.scalar();
                let v = rng.bytes(len);
                let key_pt = SignCryptDecryptionKey::<C>(codec_pk_of(&k));
                let ct = SignCryptCiphertext::<C> { u: ctx.sc.u, v, w: ctx.sc.w, scheme: SignatureSchemes::Basic };
                let det = json!({"impl": CODEC_IMPL, "v_len": len, "ciphertext": hex::encode(Vec::<u8>::from(&ct)), "decryption_key": hex::encode(Vec::<u8>::from(&key_pt))});
                rec.case("sign_crypt_decryption_key_decrypt_tiny_v_any_key", format!("{t}"), codec_catch(|| { let _ = key_pt.decrypt(&ct); }).is_ok(), det);
                let mut v32 = [0u8; 32];
                v32.copy_from_slice(&rng.bytes(32));
                let tc = TimeCryptCiphertext::<C> { u: ctx.tc.u, v: v32, w: rng.bytes(len), scheme: SignatureSchemes::Basic };
                let det = json!({"impl": CODEC_IMPL, "w_len": len, "ciphertext": hex::encode(Vec::<u8>::from(&tc)), "signature": hex::encode(Vec::<u8>::from(&ctx.tc_sig))});
                rec.case("time_crypt_ciphertext_decrypt_tiny_w_any_v", format!("{t}"), codec_catch(|| { let _ = tc.decrypt(&ctx.tc_sig); }).is_ok(), det);
            }
        }

        pub fn c17(s: &mut Search, rng: &mut Prng, thorough: bool) {
            let mut rec = CodecRec::new(s, CODEC_IMPL, 1);
            let Some(ctx) = codec_ctx(rng) else {
                rec.case("codec_companions_panicked", "ctx".into(), false, json!({"impl": CODEC_IMPL}));
                return;
            };
            let tys = codec_types(rng, if thorough { 1 } else { 0 }, thorough, &ctx);
            let ntys = if G1 { codec_nongeneric_types(rng, if thorough { 1 } else { 0 }, thorough) } else { vec![] };
            codec_run_c17_binary(&mut rec, rng, &tys, thorough);
            codec_run_c17_binary(&mut rec, rng, &ntys, thorough);
            codec_c17_scalar_type!(rec, SecretKey, "secret_key");
            codec_c17_scalar_type!(rec, ProofCommitmentSecret, "proof_commitment_secret");
            codec_c17_scalar_type!(rec, ProofCommitmentChallenge, "proof_commitment_challenge");
            if G1 {
                codec_c17_secret_key_enum(&mut rec, rng);
            }
            codec_c17_timestamps(&mut rec, &ctx);
            codec_c17_short_payloads(&mut rec, rng, &ctx, thorough);
            // JSON last: its known failures (hex fields handed unvalidated to the curve crate) are the most numerous
            codec_run_c17_json(&mut rec, rng, &tys, thorough);
            codec_run_c17_json(&mut rec, rng, &ntys, thorough);
            rec.finish();
        }
    };
}
