//! Case generators for the correspondence run (hooked build: every point has a known dlog).
//! Every choice derives from one PRNG state so a disagreement replays exactly.
use crate::refs::*;
use std::fmt::Write as _;

pub struct Prng(pub u64);
impl Prng {
    pub fn next(&mut self) -> u64 {
        // splitmix64
        self.0 = self.0.wrapping_add(0x9e3779b97f4a7c15);
        let mut z = self.0;
        z = (z ^ (z >> 30)).wrapping_mul(0xbf58476d1ce4e5b9);
        z = (z ^ (z >> 27)).wrapping_mul(0x94d049bb133111eb);
        z ^ (z >> 31)
    }
    pub fn below(&mut self, n: u64) -> u64 {
        self.next() % n
    }
    pub fn bytes(&mut self, n: usize) -> Vec<u8> {
        (0..n).map(|_| self.next() as u8).collect()
    }
    pub fn scalar(&mut self) -> RScalar {
        let b = self.bytes(48);
        let s = reduce_be(&b);
        if s == RScalar::ZERO {
            RScalar::ONE
        } else {
            s
        }
    }
    pub fn pick<'a, T>(&mut self, v: &'a [T]) -> &'a T {
        &v[self.below(v.len() as u64) as usize]
    }
}

// Tags written from draft-irtf-cfrg-bls-signature (independent of the source under test)
pub fn dst(impl_g1: bool, scheme: u8) -> Vec<u8> {
    let g = if impl_g1 { "G1" } else { "G2" };
    let s = ["NUL", "AUG", "POP"][scheme as usize];
    format!("BLS_SIG_BLS12381{g}_XMD:SHA-256_SSWU_RO_{s}_").into_bytes()
}
pub fn dst_pop(impl_g1: bool) -> Vec<u8> {
    let g = if impl_g1 { "G1" } else { "G2" };
    format!("BLS_POP_BLS12381{g}_XMD:SHA-256_SSWU_RO_POP_").into_bytes()
}

thread_local! {
    /// points whose encodings were handed out as raw bytes: the model's decode oracle must know them
    pub static REG: std::cell::RefCell<Vec<String>> = std::cell::RefCell::new(Vec::new());
}
pub fn enc_sig(impl_g1: bool, a: &RScalar) -> Vec<u8> {
    REG.with(|r| r.borrow_mut().push(format!("#reg {} {}", if impl_g1 { "g1" } else { "g2" }, hs(a))));
    if impl_g1 { enc_g1(a) } else { enc_g2(a) }
}
pub fn enc_pk(impl_g1: bool, a: &RScalar) -> Vec<u8> {
    REG.with(|r| r.borrow_mut().push(format!("#reg {} {}", if impl_g1 { "g2" } else { "g1" }, hs(a))));
    if impl_g1 { enc_g2(a) } else { enc_g1(a) }
}

pub fn amsg(impl_g1: bool, scheme: u8, pk: &RScalar, msg: &[u8]) -> Vec<u8> {
    if scheme == 1 {
        let mut v = enc_pk(impl_g1, pk);
        v.extend_from_slice(msg);
        v
    } else {
        msg.to_vec()
    }
}

/// dlog of the honest signature under the hooked hash
pub fn sig_dlog(impl_g1: bool, scheme: u8, sk: &RScalar, msg: &[u8]) -> RScalar {
    eta(&amsg(impl_g1, scheme, sk, msg), &dst(impl_g1, scheme)) * sk
}

pub fn hs(s: &RScalar) -> String {
    hex::encode(sc_be(s))
}
pub fn hx(b: &[u8]) -> String {
    hex::encode(b)
}
pub const SCH: [&str; 3] = ["basic", "aug", "pop"];

pub fn edge_scalars() -> Vec<RScalar> {
    vec![RScalar::ONE, RScalar::from(2u64), -RScalar::ONE, -RScalar::from(2u64), RScalar::from(128u64),
         RScalar::from(0x8000u64), hkdf_scalar(b"BLS-SIG-KEYGEN-SALT-", b"edge-key"),
         // bytes that XOR / AND / add to zero, no byte with the top bit set, a single low byte
         RScalar::from(5u64), RScalar::from(0x0101u64), RScalar::from(0x7f7fu64), RScalar::from(0x0303_0000u64),
         RScalar::from(0x00ff_0001u64), RScalar::from(0x8080u64), RScalar::from(0x0102_0304_0506_0708u64)]
}

pub fn msg_lengths(tier_thorough: bool) -> Vec<usize> {
    let mut v = vec![0, 1, 31, 32, 33, 63, 64, 65, 127, 128, 129, 255, 256, 257];
    if tier_thorough {
        v.extend_from_slice(&[4096, 65536]);
    } else {
        v.push(1000);
    }
    v
}

pub fn message(rng: &mut Prng, len: usize) -> Vec<u8> {
    match rng.below(4) {
        0 => vec![0u8; len],
        1 => vec![0xffu8; len],
        2 => (0..len).map(|i| i as u8).collect(),
        _ => rng.bytes(len),
    }
}

pub struct Out {
    pub s: String,
    pub n: usize,
}
impl Out {
    pub fn new() -> Self {
        Out { s: String::new(), n: 0 }
    }
    pub fn case(&mut self, impl_g1: bool, body: &str) {
        for l in REG.with(|r| std::mem::take(&mut *r.borrow_mut())) {
            self.s.push_str(&l);
            self.s.push('\n');
        }
        self.n += 1;
        writeln!(self.s, "{} {} {}", self.n, if impl_g1 { "g1" } else { "g2" }, body).unwrap();
    }
}

pub fn gen_c01(rng: &mut Prng, thorough: bool, out: &mut Out) {
    let lens = msg_lengths(thorough);
    for g1 in [true, false] {
        let mut keys = edge_scalars();
        for _ in 0..(if thorough { 12 } else { 3 }) {
            keys.push(rng.scalar());
        }
        for (ki, sk) in keys.iter().enumerate() {
            out.case(g1, &format!("sk_public_key s{}", hs(sk)));
            for scheme in 0..3u8 {
                // every length class with the first keys, a rotating subset with the rest
                for (li, &len) in lens.iter().enumerate() {
                    if ki >= 2 && (li + ki + scheme as usize) % 5 != 0 {
                        continue;
                    }
                    let m = message(rng, len);
                    out.case(g1, &format!("sk_sign s{} c{} x{}", hs(sk), SCH[scheme as usize], hx(&m)));
                    let sd = sig_dlog(g1, scheme, sk, &m);
                    out.case(g1, &format!("sig_verify c{} p{} q{} x{}", SCH[scheme as usize], hs(&sd), hs(sk), hx(&m)));
                }
            }
        }
        for scheme in 0..3u8 {
            out.case(g1, &format!("sk_sign s00 c{} x{}", SCH[scheme as usize], hx(b"zero key")));
        }
        // the key carried through every byte encoding (incl. the curve-tagged wrapper, both byte orders)
        for sk in &keys {
            let (be, mut le) = (sc_be(sk).to_vec(), sc_be(sk).to_vec());
            le.reverse();
            out.case(g1, &format!("sk_from_be x{}", hx(&be)));
            out.case(g1, &format!("sk_from_le x{}", hx(&le)));
            out.case(g1, &format!("bytes_rt wsk x{}", hx(&be)));
            for tag in ["01", "02"] {
                out.case(g1, &format!("skenum_from_be x{}{}", tag, hx(&be)));
                out.case(g1, &format!("skenum_from_le x{}{}", tag, hx(&le)));
                out.case(g1, &format!("bytes_rt wskenum x{}{}", tag, hx(&be)));
            }
            out.case(g1, &format!("bytes_rt wpk x{}", hx(&enc_pk(g1, sk))));
            for scheme in 0..3u8 {
                let sd = sig_dlog(g1, scheme, sk, b"enc");
                let mut e = vec![scheme];
                e.extend_from_slice(&enc_sig(g1, &sd));
                out.case(g1, &format!("bytes_rt wsig x{}", hx(&e)));
            }
        }
    }
}


// ------------------------------------------------------------------------------------------
fn sc_tok(p: &str, s: &RScalar) -> String {
    format!("{}{}", p, hs(s))
}
fn pick_keys(rng: &mut Prng, n: usize) -> Vec<RScalar> {
    let mut k = edge_scalars();
    while k.len() < n {
        k.push(rng.scalar());
    }
    k.truncate(n.max(4));
    k
}
fn some_messages(rng: &mut Prng) -> Vec<Vec<u8>> {
    vec![vec![], b"a".to_vec(), rng.bytes(32), rng.bytes(33), rng.bytes(200)]
}

pub fn gen_c02(rng: &mut Prng, thorough: bool, out: &mut Out) {
    for g1 in [true, false] {
        let keys = pick_keys(rng, if thorough { 10 } else { 4 });
        for sk in &keys {
            for scheme in 0..3u8 {
                for m in some_messages(rng) {
                    let sc = SCH[scheme as usize];
                    let sd = sig_dlog(g1, scheme, sk, &m);
                    let v = |out: &mut Out, sch: &str, sg: &RScalar, pk: &RScalar, msg: &[u8]| {
                        out.case(g1, &format!("sig_verify c{} p{} q{} x{}", sch, hs(sg), hs(pk), hx(msg)));
                    };
                    v(out, sc, &sd, sk, &m);
                    // signature perturbations
                    let k = rng.scalar();
                    for sg in [sd + k, -sd, sd * RScalar::from(2u64), sd * k, sd + RScalar::ONE] {
                        v(out, sc, &sg, sk, &m);
                    }
                    let other = rng.scalar();
                    v(out, sc, &sig_dlog(g1, scheme, &other, &m), sk, &m);
                    let mut m2 = m.clone();
                    m2.push(7);
                    v(out, sc, &sig_dlog(g1, scheme, sk, &m2), sk, &m);
                    // message perturbations
                    v(out, sc, &sd, sk, &m2);
                    if !m.is_empty() {
                        let mut m3 = m.clone();
                        let i = rng.below(m3.len() as u64) as usize;
                        m3[i] ^= 1 << rng.below(8);
                        v(out, sc, &sd, sk, &m3);
                        v(out, sc, &sd, sk, &m[..m.len() - 1]);
                        v(out, sc, &sd, sk, &[]);
                    }
                    // the message with the signer's public-key encoding in front, and back: four distinct inputs
                    {
                        let pkb = enc_pk(g1, sk);
                        let pm = cat(&[&pkb, &m]);
                        let ppm = cat(&[&pkb, &pkb, &m]);
                        let sd_pm = sig_dlog(g1, scheme, sk, &pm);
                        v(out, sc, &sd_pm, sk, &pm);      // honest over pk || m
                        v(out, sc, &sd, sk, &pm);         // signature over m presented for pk || m
                        v(out, sc, &sd_pm, sk, &m);       // and the reverse
                        v(out, sc, &sd_pm, sk, &ppm);
                        out.case(g1, &format!("sk_sign s{} c{} x{}", hs(sk), sc, hx(&pm)));
                    }
                    // key perturbations
                    for pk in [other, *sk + RScalar::ONE, -*sk] {
                        v(out, sc, &sd, &pk, &m);
                    }
                    // other labels
                    for s2 in 0..3u8 {
                        if s2 != scheme {
                            v(out, SCH[s2 as usize], &sd, sk, &m);
                        }
                    }
                    // valid related tuples (core level)
                    let sk2 = rng.scalar();
                    let d = dst(g1, scheme);
                    let h = eta(&m, &d);
                    out.case(g1, &format!("core_verify q{} p{} x{} x{}", hs(&(*sk + sk2)), hs(&(h * (*sk + sk2))), hx(&m), hx(&d)));
                    out.case(g1, &format!("core_verify q{} p{} x{} x{}", hs(&(*sk + sk2)), hs(&(h * *sk)), hx(&m), hx(&d)));
                }
            }
        }
    }
}

pub fn gen_c09(rng: &mut Prng, thorough: bool, out: &mut Out) {
    for g1 in [true, false] {
        let keys = pick_keys(rng, if thorough { 12 } else { 6 });
        // proofs as bytes: honest encodings, and encodings of points that are on the curve but outside the
        // subgroup / not on the curve / carry wrong flags - a proof "changed" that way must not be accepted
        for b in crate::search_codec::codec_bad_points(rng, g1, if thorough { 8 } else { 3 }) {
            out.case(g1, &format!("bytes_rt wpop x{}", hx(&b.bytes)));
        }
        for sk in keys.iter().take(3) {
            let pd = eta(&enc_pk(g1, sk), &dst_pop(g1)) * sk;
            let e = enc_sig(g1, &pd);
            out.case(g1, &format!("bytes_rt wpop x{}", hx(&e)));
            out.case(g1, &format!("bytes_rt wpop x{}", hx(&e[..e.len() - 1])));
        }
        out.case(g1, "pop_prove s00");
        for sk in &keys {
            out.case(g1, &format!("pop_prove s{}", hs(sk)));
            let pd = eta(&enc_pk(g1, sk), &dst_pop(g1)) * sk;
            for pk in &keys {
                out.case(g1, &format!("pop_verify p{} q{}", hs(&pd), hs(pk)));
            }
            for p in [pd + RScalar::ONE, -pd, pd + pd, RScalar::ZERO] {
                out.case(g1, &format!("pop_verify p{} q{}", hs(&p), hs(sk)));
            }
            out.case(g1, &format!("pop_verify p{} q00", hs(&pd)));
            // a signature over the pk bytes under each scheme is not a PoP, and vice versa
            for scheme in 0..3u8 {
                let m = enc_pk(g1, sk);
                let sd = sig_dlog(g1, scheme, sk, &m);
                out.case(g1, &format!("pop_verify p{} q{}", hs(&sd), hs(sk)));
                out.case(g1, &format!("sig_verify c{} p{} q{} x{}", SCH[scheme as usize], hs(&pd), hs(sk), hx(&m)));
            }
        }
    }
}

pub fn gen_c05(rng: &mut Prng, thorough: bool, out: &mut Out) {
    gen_c09(rng, false, out);
    for g1 in [true, false] {
        let keys = pick_keys(rng, if thorough { 8 } else { 4 });
        for sk in &keys {
            for m in some_messages(rng) {
                for s in 0..3u8 {
                    let sd = sig_dlog(g1, s, sk, &m);
                    for s2 in 0..3u8 {
                        out.case(g1, &format!("sig_verify c{} p{} q{} x{}", SCH[s2 as usize], hs(&sd), hs(sk), hx(&m)));
                        // the same point as a signature share (participant 3) against the matching public key share
                        out.case(g1, &format!("pks_verify {} c{} {} x{}", pt_share_tok(3, &enc_pk(g1, sk)), SCH[s2 as usize], pt_share_tok(3, &enc_sig(g1, &sd)), hx(&m)));
                        if s2 != 1 {
                            out.case(g1, &format!("trait_partial_verify c{} {} {} x{}", SCH[s2 as usize], pt_share_tok(3, &enc_pk(g1, sk)), pt_share_tok(3, &enc_sig(g1, &sd)), hx(&m)));
                        }
                        // proof of knowledge relabelled
                        let x = rng.scalar();
                        let y = rng.scalar();
                        let u = eta(&m, &dst(g1, s)) * x;
                        let v = -(sd * (x + y));
                        out.case(g1, &format!("pok_verify c{} p{} p{} q{} x{} s{}", SCH[s2 as usize], hs(&u), hs(&v), hs(sk), hx(&m), hs(&y)));
                        if m.len() == 32 {
                            // signcryption and time-lock ciphertexts presented under every label,
                            // and time-lock opened with the right point under every signature label
                            let seed = rng.bytes(32);
                            let d = dst(g1, s);
                            let (cu, cv, cw) = sc_seal_ref(g1, sk, &m, &d, &seed);
                            out.case(g1, &format!("scct_is_valid {}", ct_tok(&cu, &cv, &cw, s2)));
                            out.case(g1, &format!("scct_decrypt {} s{}", ct_tok(&cu, &cv, &cw, s2), hs(sk)));
                            let idp = amsg(g1, s, sk, b"id");
                            let (tu, tv, tw) = tl_seal_ref(g1, sk, &m, &idp, &d, &seed);
                            let tsig = sig_dlog(g1, s, sk, b"id");
                            out.case(g1, &format!("tlct_decrypt q{} x{} x{} c{} c{} p{}", hs(&tu), hx(&tv), hx(&tw), SCH[s as usize], SCH[s2 as usize], hs(&tsig)));
                            out.case(g1, &format!("tlct_decrypt q{} x{} x{} c{} c{} p{}", hs(&tu), hx(&tv), hx(&tw), SCH[s2 as usize], SCH[s as usize], hs(&tsig)));
                        }
                    }
                }
            }
        }
    }
}

fn pairs_tok(pairs: &[(RScalar, Vec<u8>)]) -> String {
    let mut s = String::from("[");
    for (pk, m) in pairs {
        s.push_str(&format!(" q{} x{}", hs(pk), hx(m)));
    }
    s.push_str(" ]");
    s
}

pub fn agg_dlog(g1: bool, scheme: u8, sks: &[(RScalar, Vec<u8>)]) -> RScalar {
    let mut a = RScalar::ZERO;
    for (sk, m) in sks {
        a += sig_dlog(g1, scheme, sk, m);
    }
    a
}

pub fn gen_c06(rng: &mut Prng, thorough: bool, out: &mut Out) {
    let ns: Vec<usize> = if thorough { vec![2, 3, 4, 7, 16, 33, 64] } else { vec![2, 3, 5, 9] };
    for g1 in [true, false] {
        for scheme in 0..3u8 {
            let sc = SCH[scheme as usize];
            for &n in &ns {
                let sks: Vec<(RScalar, Vec<u8>)> = (0..n).map(|i| (rng.scalar(), { let mut m = rng.bytes(1 + (i % 40)); m.push(i as u8); m })).collect();
                // accumulation
                let mut l = String::from("[");
                for (sk, m) in &sks {
                    l.push_str(&format!(" c{} p{}", sc, hs(&sig_dlog(g1, scheme, sk, m))));
                }
                l.push_str(" ]");
                out.case(g1, &format!("agg_from_sigs {}", l));
                // the trait-level sums that no wrapper calls
                let bare: Vec<String> = sks.iter().map(|(sk, m)| format!("p{}", hs(&sig_dlog(g1, scheme, sk, m)))).collect();
                out.case(g1, &format!("trait_aggregate_signatures [ {} ]", bare.join(" ")));
                out.case(g1, &format!("trait_multi_from_signatures [ {} ]", bare.join(" ")));
                out.case(g1, &format!("trait_aggregate_signatures [ {} ]", bare[..1].join(" ")));
                out.case(g1, &format!("trait_multi_from_signatures [ {} {} ]", bare[0], bare[0]));
                let agg = agg_dlog(g1, scheme, &sks);
                let v = |out: &mut Out, a: &RScalar, pairs: &[(RScalar, Vec<u8>)]| {
                    out.case(g1, &format!("agg_verify c{} p{} {}", sc, hs(a), pairs_tok(pairs)));
                };
                v(out, &agg, &sks);
                // permutation
                let mut perm = sks.clone();
                for i in (1..perm.len()).rev() {
                    let j = rng.below(i as u64 + 1) as usize;
                    perm.swap(i, j);
                }
                v(out, &agg, &perm);
                // single-position perturbations
                let k = rng.below(n as u64) as usize;
                let mut p1 = sks.clone();
                p1[k].1.push(1);
                v(out, &agg, &p1);
                let mut p2 = sks.clone();
                p2[k].0 = rng.scalar();
                v(out, &agg, &p2);
                let mut p3 = sks.clone();
                p3.remove(k);
                v(out, &agg, &p3);
                let mut p4 = sks.clone();
                p4.insert(k, (rng.scalar(), rng.bytes(9)));
                v(out, &agg, &p4);
                if n >= 2 {
                    let j = (k + 1) % n;
                    let mut p5 = sks.clone();
                    let t = p5[k].1.clone();
                    p5[k].1 = p5[j].1.clone();
                    p5[j].1 = t;
                    v(out, &agg, &p5);
                }
                // identity key at position k, identity aggregate
                let mut p6 = sks.clone();
                p6[k].0 = RScalar::ZERO;
                v(out, &agg, &p6);
                v(out, &RScalar::ZERO, &sks);
                // a repeated message, with the algebraically valid aggregate
                let mut dup = sks.clone();
                let j = (k + 1) % n;
                dup[j].1 = dup[k].1.clone();
                let agg_dup = agg_dlog(g1, scheme, &dup);
                v(out, &agg_dup, &dup);
            }
            // message patterns x key patterns: all on one message, two blocks, repeated key
            for &n in &[2usize, 3, 5] {
                for pat in 0..3 {
                    let msgs: Vec<Vec<u8>> = (0..n).map(|i| match pat { 0 => b"m".to_vec(), 1 => vec![(i % 2) as u8], _ => vec![i as u8] }).collect();
                    let k0 = rng.scalar();
                    for keypat in 0..3 {
                        let sks: Vec<(RScalar, Vec<u8>)> = (0..n).map(|i| (match keypat { 0 => rng.scalar(), 1 => k0, _ => if i % 2 == 0 { k0 } else { -k0 } }, msgs[i].clone())).collect();
                        let agg = agg_dlog(g1, scheme, &sks);
                        out.case(g1, &format!("agg_verify c{} p{} {}", sc, hs(&agg), pairs_tok(&sks)));
                        let mut drop1 = sks.clone();
                        drop1.pop();
                        out.case(g1, &format!("agg_verify c{} p{} {}", sc, hs(&agg), pairs_tok(&drop1)));
                    }
                }
            }
            // fewer than two, mixed
            let sk = rng.scalar();
            let sd = sig_dlog(g1, scheme, &sk, b"one");
            out.case(g1, "agg_from_sigs [ ]");
            out.case(g1, "trait_aggregate_signatures [ ]");
            out.case(g1, "trait_multi_from_signatures [ ]");
            out.case(g1, &format!("agg_from_sigs [ c{} p{} ]", sc, hs(&sd)));
            let s2 = (scheme + 1) % 3;
            out.case(g1, &format!("agg_from_sigs [ c{} p{} c{} p{} ]", sc, hs(&sd), SCH[s2 as usize], hs(&sd)));
            out.case(g1, &format!("agg_from_sigs [ c{} p{} c{} p{} c{} p{} ]", sc, hs(&sd), sc, hs(&sd), SCH[s2 as usize], hs(&sd)));
            out.case(g1, &format!("agg_verify c{} p{} [ ]", sc, hs(&sd)));
        }
    }
}

pub fn gen_c07(rng: &mut Prng, thorough: bool, out: &mut Out) {
    let ns: Vec<usize> = if thorough { vec![2, 3, 4, 7, 16, 33, 64] } else { vec![2, 3, 6] };
    for g1 in [true, false] {
        for scheme in 0..3u8 {
            let sc = SCH[scheme as usize];
            for &n in &ns {
                let m = rng.bytes(1 + n);
                let sks: Vec<RScalar> = (0..n).map(|_| rng.scalar()).collect();
                let mut l = String::from("[");
                let mut keys = String::from("[");
                let mut sum_sig = RScalar::ZERO;
                let mut sum_sk = RScalar::ZERO;
                for sk in &sks {
                    let sd = sig_dlog(g1, scheme, sk, &m);
                    sum_sig += sd;
                    sum_sk += sk;
                    l.push_str(&format!(" c{} p{}", sc, hs(&sd)));
                    keys.push_str(&format!(" q{}", hs(sk)));
                }
                l.push_str(" ]");
                keys.push_str(" ]");
                out.case(g1, &format!("multi_from_sigs {}", l));
                out.case(g1, &format!("multi_pk {}", keys));
                let v = |out: &mut Out, sg: &RScalar, pk: &RScalar, msg: &[u8]| {
                    out.case(g1, &format!("multi_verify c{} p{} q{} x{}", sc, hs(sg), hs(pk), hx(msg)));
                };
                v(out, &sum_sig, &sum_sk, &m);
                v(out, &sum_sig, &(sum_sk - sks[0]), &m);
                v(out, &sum_sig, &(sum_sk + rng.scalar()), &m);
                v(out, &sum_sig, &(sum_sk - sks[n - 1] + rng.scalar()), &m);
                let mut m2 = m.clone();
                m2[0] ^= 1;
                v(out, &sum_sig, &sum_sk, &m2);
                v(out, &sum_sig, &RScalar::ZERO, &m);
                v(out, &RScalar::ZERO, &sum_sk, &m);
                if scheme == 2 {
                    // the trait-level list-of-keys verification (FastAggregateVerify) that no wrapper calls
                    let tv = |out: &mut Out, sg: &RScalar, ks: &[RScalar], msg: &[u8]| {
                        let toks: Vec<String> = ks.iter().map(|k| format!("q{}", hs(k))).collect();
                        out.case(g1, &format!("trait_multi_sig_verify [ {} ] p{} x{}", toks.join(" "), hs(sg), hx(msg)));
                    };
                    tv(out, &sum_sig, &sks, &m);
                    tv(out, &sum_sig, &sks[1..], &m);
                    let mut more = sks.clone();
                    more.push(rng.scalar());
                    tv(out, &sum_sig, &more, &m);
                    tv(out, &sum_sig, &sks, &m2);
                    // a sum of possession proofs made over the same bytes is not a multi-signature over them
                    let pop_sum = sks.iter().fold(RScalar::ZERO, |a, k| a + eta(&m, &dst_pop(g1)) * k);
                    tv(out, &pop_sum, &sks, &m);
                }
            }
            // repeated signers: the accumulated key counts every listed key, adjacent or not
            {
                let a = rng.scalar();
                let b = rng.scalar();
                let c = rng.scalar();
                for keys in [vec![a, b, c, c], vec![a, a], vec![a, b, a], vec![c, c, c], vec![a, b, b, c]] {
                    let toks: Vec<String> = keys.iter().map(|k| format!("q{}", hs(k))).collect();
                    out.case(g1, &format!("multi_pk [ {} ]", toks.join(" ")));
                }
                // one signature of another scheme at every position of lists of length 2..5
                let m = rng.bytes(4);
                let other = if scheme == 0 { 2u8 } else { 0u8 };
                for n in 2..=5usize {
                    for pos in 0..n {
                        let mut l = String::from("[");
                        for i in 0..n {
                            let k = rng.scalar();
                            let sch = if i == pos { other } else { scheme };
                            l.push_str(&format!(" c{} p{}", SCH[sch as usize], hs(&sig_dlog(g1, sch, &k, &m))));
                        }
                        l.push_str(" ]");
                        out.case(g1, &format!("multi_from_sigs {}", l));
                        out.case(g1, &format!("agg_from_sigs {}", l));
                    }
                }
            }
            let sk = rng.scalar();
            let sd = sig_dlog(g1, scheme, &sk, b"one");
            out.case(g1, "multi_from_sigs [ ]");
            out.case(g1, &format!("multi_from_sigs [ c{} p{} ]", sc, hs(&sd)));
            let s2 = (scheme + 1) % 3;
            out.case(g1, &format!("multi_from_sigs [ c{} p{} c{} p{} ]", sc, hs(&sd), SCH[s2 as usize], hs(&sd)));
        }
        out.case(g1, "multi_pk [ ]");
    }
}

/// Shamir shares of `sk` with explicit coefficients: (id, f(id)) for id in ids
pub fn shamir_eval(coeffs: &[RScalar], x: u64) -> RScalar {
    let mut acc = RScalar::ZERO;
    let xs = RScalar::from(x);
    for c in coeffs.iter().rev() {
        acc = acc * xs + c;
    }
    acc
}
fn le_hex(s: &RScalar) -> String {
    let mut b = sc_be(s);
    b.reverse();
    hex::encode(b)
}
fn share_tok(id: u64, y: &RScalar) -> String {
    format!("h{}:{}", id, le_hex(y))
}
fn pt_share_tok(id: u64, bytes: &[u8]) -> String {
    format!("h{}:{}", id, hx(bytes))
}
fn list_tok(items: &[String]) -> String {
    format!("[ {} ]", items.join(" ")).replace("[  ]", "[ ]")
}

pub fn gen_c08(rng: &mut Prng, thorough: bool, out: &mut Out) {
    let grid: Vec<(usize, usize)> = if thorough {
        let mut g = vec![];
        for n in 2..=7 {
            for t in 2..=n {
                g.push((t, n));
            }
        }
        g.extend_from_slice(&[(2, 255), (128, 255), (255, 255), (3, 100)]);
        g
    } else {
        vec![(2, 2), (2, 3), (3, 3), (2, 4), (3, 5), (5, 5), (4, 7), (2, 255), (20, 40)]
    };
    for g1 in [true, false] {
        for &(t, n) in &grid {
            let sk = rng.scalar();
            let seed = rng.bytes(32);
            if n <= 60 || thorough {
                out.case(g1, &format!("sk_split s{} n{} n{} x{}", hs(&sk), t, n, hx(&seed)));
            }
            let coeffs: Vec<RScalar> = std::iter::once(sk).chain((1..t).map(|_| rng.scalar())).collect();
            let m = rng.bytes(5);
            // subsets: sizes t-1, t, t+1, n (where meaningful), random members and order
            let mut sizes = vec![t, n];
            if t > 2 { sizes.push(t - 1); }
            if t < n { sizes.push(t + 1); }
            sizes.push(2);
            if n > 60 {
                // interpolation over hundreds of points is quadratic in the (slow, extracted) model arithmetic:
                // exactly-threshold and the two-share error path only
                sizes = vec![t, 2];
            }
            for sz in sizes {
                if sz > n || sz > 24 && !thorough { continue; }
                let mut ids: Vec<u64> = (1..=n as u64).collect();
                for i in (1..ids.len()).rev() {
                    let j = rng.below(i as u64 + 1) as usize;
                    ids.swap(i, j);
                }
                ids.truncate(sz);
                let sh: Vec<String> = ids.iter().map(|&i| share_tok(i, &shamir_eval(&coeffs, i))).collect();
                out.case(g1, &format!("sk_combine {}", list_tok(&sh)));
                let pks: Vec<String> = ids.iter().map(|&i| pt_share_tok(i, &enc_pk(g1, &shamir_eval(&coeffs, i)))).collect();
                out.case(g1, &format!("pk_from_shares {}", list_tok(&pks)));
                for scheme in [0u8, 2u8] {
                    let h = eta(&m, &dst(g1, scheme));
                    let sgs: Vec<String> = ids.iter().map(|&i| format!("c{} {}", SCH[scheme as usize], pt_share_tok(i, &enc_sig(g1, &(h * shamir_eval(&coeffs, i)))))).collect();
                    out.case(g1, &format!("sig_from_shares {}", list_tok(&sgs)));
                }
            }
            // per-share operations
            for &i in &[1u64, n as u64] {
                let y = shamir_eval(&coeffs, i);
                out.case(g1, &format!("sks_public_key {}", share_tok(i, &y)));
                for scheme in 0..3u8 {
                    out.case(g1, &format!("sks_sign {} c{} x{}", share_tok(i, &y), SCH[scheme as usize], hx(&m)));
                    let h = eta(&amsg(g1, scheme, &y, &m), &dst(g1, scheme));
                    let j = if i == 1 { n as u64 } else { 1 };
                    let yj = shamir_eval(&coeffs, j);
                    out.case(g1, &format!("pks_verify {} c{} {} x{}", pt_share_tok(i, &enc_pk(g1, &y)), SCH[scheme as usize], pt_share_tok(i, &enc_sig(g1, &(h * y))), hx(&m)));
                    out.case(g1, &format!("pks_verify {} c{} {} x{}", pt_share_tok(j, &enc_pk(g1, &yj)), SCH[scheme as usize], pt_share_tok(i, &enc_sig(g1, &(h * y))), hx(&m)));
                }
            }
        }
        // error cases
        let sk = rng.scalar();
        let c = vec![sk, rng.scalar()];
        let s1 = share_tok(1, &shamir_eval(&c, 1));
        let s2 = share_tok(2, &shamir_eval(&c, 2));
        let z = share_tok(0, &shamir_eval(&c, 0));
        out.case(g1, "sk_combine [ ]");
        out.case(g1, &format!("sk_combine [ {} ]", s1));
        out.case(g1, &format!("sk_combine [ {} {} ]", s1, s1));
        out.case(g1, &format!("sk_combine [ {} {} ]", s1, z));
        out.case(g1, &format!("sk_combine [ {} {} {} ]", s1, s2, s1));
        out.case(g1, &format!("sk_combine [ {} h3:{} ]", s1, "ff".repeat(32)));
        out.case(g1, &format!("sk_combine [ {} h3:{} ]", s1, "00".repeat(32)));
        out.case(g1, "pk_from_shares [ ]");
        out.case(g1, &format!("pk_from_shares [ {} ]", pt_share_tok(1, &enc_pk(g1, &sk))));
        out.case(g1, &format!("pk_from_shares [ {} {} ]", pt_share_tok(1, &enc_pk(g1, &sk)), pt_share_tok(1, &enc_pk(g1, &sk))));
        out.case(g1, &format!("pk_from_shares [ {} {} ]", pt_share_tok(1, &enc_pk(g1, &sk)), pt_share_tok(0, &enc_pk(g1, &sk))));
        let bad = vec![0x11u8; enc_pk(g1, &sk).len()];
        out.case(g1, &format!("pk_from_shares [ {} {} ]", pt_share_tok(1, &enc_pk(g1, &sk)), pt_share_tok(2, &bad)));
        let e1 = pt_share_tok(1, &enc_sig(g1, &sk));
        let e2 = pt_share_tok(2, &enc_sig(g1, &sk));
        out.case(g1, "sig_from_shares [ ]");
        out.case(g1, &format!("sig_from_shares [ cbasic {} ]", e1));
        out.case(g1, &format!("sig_from_shares [ cbasic {} cpop {} ]", e1, e2));
        out.case(g1, &format!("sig_from_shares [ caug {} caug {} ]", e1, e2));
        for (t, n) in [(1usize, 3usize), (0, 0), (3, 2), (2, 256), (2, 300), (if thorough { 256 } else { 12 }, 256)] {
            out.case(g1, &format!("sk_split s{} n{} n{} x{}", hs(&sk), t, n, hx(&rng.bytes(32))));
        }
        out.case(g1, &format!("sks_sign h1:{} cbasic x00", "00".repeat(32)));
        out.case(g1, &format!("sks_public_key h1:{}", "00".repeat(32)));
    }
}


// ------------------------------------------------------------------------------------------
// Reference constructions in dlog form (written from the documented constructions)
pub const SALT_SC: &[u8] = b"SIGNCRYPT_BLS12381_XOF:HKDF-SHA2-256_";
pub const SALT_TL: &[u8] = b"TIMELOCK_BLS12381_XOF:HKDF-SHA2-256_";
pub const SALT_POK: &[u8] = b"BLS_POK__BLS12381_XOF:HKDF-SHA2-256_";

pub fn leb128(mut x: u128) -> Vec<u8> {
    let mut v = vec![];
    while x >= 0x80 {
        v.push((x as u8) | 0x80);
        x >>= 7;
    }
    v.push(x as u8);
    v
}
pub fn frame(msg: &[u8]) -> Vec<u8> {
    let mut v = leb128(msg.len() as u128);
    v.extend_from_slice(msg);
    while v.len() < 32 {
        v.push(0);
    }
    v
}
pub fn xor(a: &[u8], b: &[u8]) -> Vec<u8> {
    a.iter().zip(b.iter()).map(|(x, y)| x ^ y).collect()
}
fn arr32(v: &[u8]) -> [u8; 32] {
    let mut a = [0u8; 32];
    a.copy_from_slice(v);
    a
}

/// (u dlog, v bytes, w dlog) of a signcryption ciphertext for `pk`, drawn from `seed`
pub fn sc_seal_ref(g1: bool, pk: &RScalar, msg: &[u8], dstv: &[u8], seed: &[u8]) -> (RScalar, Vec<u8>, RScalar) {
    let r = hkdf_scalar(SALT_SC, &rng_bytes32(&arr32(seed)));
    let fr = frame(msg);
    let ks = xof(&crate::refs::sc_enc_pk(g1, &(*pk * r)), fr.len());
    let v = xor(&fr, &ks);
    let mut t = crate::refs::sc_enc_pk(g1, &r);
    t.extend_from_slice(&v);
    (r, v, eta(&t, dstv) * r)
}

pub fn tl_seal_ref(g1: bool, pk: &RScalar, msg: &[u8], id: &[u8], dstv: &[u8], seed: &[u8]) -> (RScalar, Vec<u8>, Vec<u8>) {
    let alpha = hkdf_scalar(SALT_TL, &rng_bytes32(&arr32(seed)));
    let mut a = sc_be(&alpha).to_vec();
    a.reverse();
    let mut inp = a.clone();
    inp.extend_from_slice(&sha256(msg));
    let r = hkdf_scalar(SALT_TL, &inp);
    let _ = g1;
    let k = eta(id, dstv) * (*pk * r);
    let v = xor(&a, &sha256(&enc_gt(&k)));
    let fr = frame(msg);
    let w = xor(&fr, &xof(&a, fr.len()));
    (r, v, w)
}

fn ct_tok(u: &RScalar, v: &[u8], w: &RScalar, scheme: u8) -> String {
    format!("q{} x{} p{} c{}", hs(u), hx(v), hs(w), SCH[scheme as usize])
}

pub fn gen_c11(rng: &mut Prng, thorough: bool, out: &mut Out) {
    let mut lens: Vec<usize> = vec![0, 1, 2, 30, 31, 32, 33, 40, 100, 127, 128, 129, 140];
    if thorough {
        lens.extend(3..30);
        lens.extend_from_slice(&[16380, 16383, 16384, 16390, 65536]);
    } else {
        lens.push(16384);
    }
    for g1 in [true, false] {
        for (li, &len) in lens.iter().enumerate() {
            let scheme = (li % 3) as u8;
            let sk = if li % 5 == 0 { RScalar::ONE } else { rng.scalar() };
            let msg = message(rng, len);
            let seed = rng.bytes(32);
            let d = dst(g1, scheme);
            out.case(g1, &format!("pk_sign_crypt q{} c{} x{} x{}", hs(&sk), SCH[scheme as usize], hx(&msg), hx(&seed)));
            let (u, v, w) = sc_seal_ref(g1, &sk, &msg, &d, &seed);
            let ct = ct_tok(&u, &v, &w, scheme);
            out.case(g1, &format!("scct_is_valid {}", ct));
            out.case(g1, &format!("scct_decrypt {} s{}", ct, hs(&sk)));
            out.case(g1, &format!("scdk_decrypt {} q{}", ct, hs(&(u * sk))));
            if len > 300 {
                continue;
            }
            // alterations
            let mut alts: Vec<(RScalar, Vec<u8>, RScalar, u8)> = vec![];
            alts.push((u + RScalar::ONE, v.clone(), w, scheme));
            alts.push((u, v.clone(), w + RScalar::ONE, scheme));
            alts.push((u, v.clone(), -w, scheme));
            alts.push((RScalar::ZERO, v.clone(), w, scheme));
            alts.push((u, v.clone(), RScalar::ZERO, scheme));
            for _ in 0..(if thorough { 12 } else { 3 }) {
                let mut v2 = v.clone();
                let i = rng.below(v2.len() as u64) as usize;
                v2[i] ^= 1 << rng.below(8);
                alts.push((u, v2, w, scheme));
            }
            let mut v3 = v.clone();
            v3.pop();
            alts.push((u, v3, w, scheme));
            let mut v4 = v.clone();
            v4.push(0);
            alts.push((u, v4, w, scheme));
            alts.push((u, vec![], w, scheme));
            alts.push((u, vec![v[0]], w, scheme));
            alts.push((u, v.clone(), w, (scheme + 1) % 3));
            alts.push((u, v.clone(), w, (scheme + 2) % 3));
            for (u2, v2, w2, s2) in alts {
                let ct2 = ct_tok(&u2, &v2, &w2, s2);
                out.case(g1, &format!("scct_is_valid {}", ct2));
                out.case(g1, &format!("scct_decrypt {} s{}", ct2, hs(&sk)));
                // the decryption key released for the original ciphertext (u * sk) presented with the altered one
                out.case(g1, &format!("scdk_decrypt {} q{}", ct2, hs(&(u * sk))));
            }
            // wrong keys
            let wrong = rng.scalar();
            out.case(g1, &format!("scct_decrypt {} s{}", ct, hs(&wrong)));
            out.case(g1, &format!("scdk_decrypt {} q{}", ct, hs(&(u * wrong))));
            out.case(g1, &format!("scct_decrypt {} s00", ct));
        }
        let k = rng.scalar();
        prefix_edges(rng, g1, &k, out);
    }
}

pub fn gen_c12(rng: &mut Prng, thorough: bool, out: &mut Out) {
    let grid: Vec<(usize, usize)> = if thorough {
        vec![(2, 2), (2, 3), (3, 3), (2, 4), (3, 5), (5, 5), (4, 7), (7, 7), (10, 20)]
    } else {
        vec![(2, 2), (2, 3), (3, 5), (4, 7)]
    };
    for g1 in [true, false] {
        for &(t, n) in &grid {
            for scheme in 0..3u8 {
                let sk = rng.scalar();
                let coeffs: Vec<RScalar> = std::iter::once(sk).chain((1..t).map(|_| rng.scalar())).collect();
                let msg = rng.bytes(16 + t);
                let seed = rng.bytes(32);
                let d = dst(g1, scheme);
                let (u, v, w) = sc_seal_ref(g1, &sk, &msg, &d, &seed);
                let ct = ct_tok(&u, &v, &w, scheme);
                let (u2, v2, w2) = sc_seal_ref(g1, &sk, &msg, &d, &rng.bytes(32));
                let ct_other = ct_tok(&u2, &v2, &w2, scheme);
                let ct_relabel = ct_tok(&u, &v, &w, (scheme + 1) % 3);
                let ids: Vec<u64> = (1..=n as u64).collect();
                for &i in &[1u64, n as u64] {
                    let y = shamir_eval(&coeffs, i);
                    out.case(g1, &format!("scct_create_decryption_share {} {}", ct, share_tok(i, &y)));
                    // the trait-level function of the same name, which the wrapper does not call
                    out.case(g1, &format!("trait_create_decryption_share {} q{}", share_tok(i, &y), hs(&u)));
                    let ds = pt_share_tok(i, &enc_pk(g1, &(u * y)));
                    let pks = pt_share_tok(i, &enc_pk(g1, &y));
                    let j = if i == 1 { n as u64 } else { 1 };
                    let pks_j = pt_share_tok(j, &enc_pk(g1, &shamir_eval(&coeffs, j)));
                    out.case(g1, &format!("sds_verify {} {} {}", ct, ds, pks));
                    out.case(g1, &format!("sds_verify {} {} {}", ct, ds, pks_j));
                    out.case(g1, &format!("sds_verify {} {} {}", ct_other, ds, pks));
                    out.case(g1, &format!("sds_verify {} {} {}", ct_relabel, ds, pks));
                }
                let mut sizes = vec![t, n, 2];
                if t > 2 { sizes.push(t - 1); }
                sizes.push(1);
                sizes.push(0);
                for sz in sizes {
                    let mut sel = ids.clone();
                    for i in (1..sel.len()).rev() {
                        let j = rng.below(i as u64 + 1) as usize;
                        sel.swap(i, j);
                    }
                    sel.truncate(sz);
                    let sh: Vec<String> = sel.iter().map(|&i| pt_share_tok(i, &enc_pk(g1, &(u * shamir_eval(&coeffs, i))))).collect();
                    out.case(g1, &format!("scct_decrypt_with_shares {} {}", ct, list_tok(&sh)));
                    out.case(g1, &format!("scdk_from_shares {}", list_tok(&sh)));
                }
                // a share that is not a valid point, duplicated / zero identifiers
                let good = pt_share_tok(1, &enc_pk(g1, &(u * shamir_eval(&coeffs, 1))));
                let bad = pt_share_tok(2, &vec![0x11u8; enc_pk(g1, &sk).len()]);
                out.case(g1, &format!("scct_decrypt_with_shares {} [ {} {} ]", ct, good, bad));
                out.case(g1, &format!("scct_decrypt_with_shares {} [ {} {} ]", ct, good, good));
                let zero = pt_share_tok(0, &enc_pk(g1, &(u * shamir_eval(&coeffs, 2))));
                out.case(g1, &format!("scct_decrypt_with_shares {} [ {} {} ]", ct, good, zero));
            }
        }
    }
}

pub fn gen_c13(rng: &mut Prng, thorough: bool, out: &mut Out) {
    let mut lens: Vec<usize> = vec![0, 1, 7, 30, 31, 32, 33, 100, 128, 140];
    if thorough {
        lens.extend(2..30);
        lens.extend_from_slice(&[16383, 16384, 65536]);
    } else {
        lens.push(16384);
    }
    for g1 in [true, false] {
        for (li, &len) in lens.iter().enumerate() {
            let scheme = (li % 3) as u8;
            let sk = if li % 4 == 0 { RScalar::ONE } else { rng.scalar() };
            let msg = if li % 3 == 0 { vec![0u8; len] } else { message(rng, len) };
            let id = if li % 5 == 0 { vec![] } else { rng.bytes(1 + li % 20) };
            let seed = rng.bytes(32);
            let sc = SCH[scheme as usize];
            out.case(g1, &format!("pk_encrypt_time_lock q{} c{} x{} x{} x{}", hs(&sk), sc, hx(&msg), hx(&id), hx(&seed)));
            let d = dst(g1, scheme);
            let idp = amsg(g1, scheme, &sk, &id);
            let (u, v, w) = tl_seal_ref(g1, &sk, &msg, &idp, &d, &seed);
            let sig = sig_dlog(g1, scheme, &sk, &id);
            let dec = |out: &mut Out, u: &RScalar, v: &[u8], w: &[u8], cs: u8, ss: u8, sg: &RScalar| {
                out.case(g1, &format!("tlct_decrypt q{} x{} x{} c{} c{} p{}", hs(u), hx(v), hx(w), SCH[cs as usize], SCH[ss as usize], hs(sg)));
            };
            dec(out, &u, &v, &w, scheme, scheme, &sig);
            if len > 300 {
                continue;
            }
            if li < 6 {
                // an identifier that itself starts with the recipient's public-key encoding (key-namespaced ids):
                // the ciphertext is bound to amsg(pk || x), the signature over x must not open it
                let pkb = enc_pk(g1, &sk);
                let id2 = cat(&[&pkb, &id]);
                out.case(g1, &format!("pk_encrypt_time_lock q{} c{} x{} x{} x{}", hs(&sk), sc, hx(&msg), hx(&id2), hx(&seed)));
                let idp2 = amsg(g1, scheme, &sk, &id2);
                let (u2, v2, w2) = tl_seal_ref(g1, &sk, &msg, &idp2, &d, &seed);
                dec(out, &u2, &v2, &w2, scheme, scheme, &sig_dlog(g1, scheme, &sk, &id2));
                dec(out, &u2, &v2, &w2, scheme, scheme, &sig);
            }
            // built for the identity signature (K = 1): must not open with it
            let (iu, iv, iw) = tl_seal_ref(g1, &RScalar::ZERO, &msg, &idp, &d, &seed);
            dec(out, &iu, &iv, &iw, scheme, scheme, &RScalar::ZERO);
            // wrong id / key / scheme / identity
            let mut id2 = id.clone();
            id2.push(1);
            dec(out, &u, &v, &w, scheme, scheme, &sig_dlog(g1, scheme, &sk, &id2));
            dec(out, &u, &v, &w, scheme, scheme, &sig_dlog(g1, scheme, &rng.scalar(), &id));
            dec(out, &u, &v, &w, scheme, (scheme + 1) % 3, &sig);
            dec(out, &u, &v, &w, (scheme + 1) % 3, (scheme + 1) % 3, &sig);
            dec(out, &u, &v, &w, scheme, scheme, &RScalar::ZERO);
            dec(out, &RScalar::ZERO, &v, &w, scheme, scheme, &sig);
            dec(out, &(u + RScalar::ONE), &v, &w, scheme, scheme, &sig);
            // header / authenticated payload bits
            for _ in 0..(if thorough { 8 } else { 2 }) {
                let mut v2 = v.clone();
                let i = rng.below(32) as usize;
                v2[i] ^= 1 << rng.below(8);
                dec(out, &u, &v2, &w, scheme, scheme, &sig);
            }
            let auth = leb128(len as u128).len() + len;
            for b in 0..8 {
                let mut w2 = w.clone();
                w2[0] ^= 1 << b;
                dec(out, &u, &v, &w2, scheme, scheme, &sig);
            }
            for _ in 0..(if thorough { 10 } else { 3 }) {
                if auth > 1 {
                    let mut w2 = w.clone();
                    let i = 1 + rng.below(auth as u64 - 1) as usize;
                    w2[i] ^= 1 << rng.below(8);
                    dec(out, &u, &v, &w2, scheme, scheme, &sig);
                }
            }
            // padding flips, extension, truncation
            if auth < w.len() {
                let mut w2 = w.clone();
                let i = auth + rng.below((w.len() - auth) as u64) as usize;
                w2[i] ^= 1 << rng.below(8);
                dec(out, &u, &v, &w2, scheme, scheme, &sig);
                let mut w3 = w.clone();
                w3.pop();
                dec(out, &u, &v, &w3, scheme, scheme, &sig);
            }
            let mut w4 = w.clone();
            w4.push(0x5a);
            dec(out, &u, &v, &w4, scheme, scheme, &sig);
            dec(out, &u, &v, &[], scheme, scheme, &sig);
            dec(out, &u, &v, &w[..1], scheme, scheme, &sig);
        }
        out.case(g1, &format!("pk_encrypt_time_lock q00 cbasic x00 x00 x{}", hx(&rng.bytes(32))));
        let k = rng.scalar();
        prefix_edges(rng, g1, &k, out);
    }
}

pub fn gen_c14(rng: &mut Prng, thorough: bool, out: &mut Out) {
    for g1 in [true, false] {
        out.case(g1, "message_generator");
        let n = if thorough { 12 } else { 4 };
        for i in 0..n {
            let sk = if i == 0 { RScalar::ONE } else { rng.scalar() };
            let m = match i { 0 => RScalar::ONE, 1 => -RScalar::ONE, _ => rng.scalar() };
            let seed = rng.bytes(32);
            out.case(g1, &format!("eg_encrypt q{} s{} x{}", hs(&sk), hs(&m), hx(&seed)));
            out.case(g1, &format!("eg_encrypt_proof q{} s{} x{}", hs(&sk), hs(&m), hx(&seed)));
            // hand-made ciphertexts with a known generator dlog are not available (the generator is a
            // hash point); decrypt / add are exercised on arbitrary points
            let (c1, c2) = (rng.scalar(), rng.scalar());
            out.case(g1, &format!("egct_decrypt q{} q{} s{}", hs(&c1), hs(&c2), hs(&sk)));
            out.case(g1, &format!("egdk_decrypt q{} q{} q{}", hs(&(c1 * sk)), hs(&c1), hs(&c2)));
            let k = 2 + (i % 15);
            let cts: Vec<String> = (0..k).map(|_| format!("q{} q{}", hs(&rng.scalar()), hs(&rng.scalar()))).collect();
            out.case(g1, &format!("egct_add {}", list_tok(&cts)));
            // operands with an identity component, and running totals whose first components cancel
            {
                let (x, y, z, t) = (rng.scalar(), rng.scalar(), rng.scalar(), rng.scalar());
                let tok = |a: &RScalar, b: &RScalar| format!("q{} q{}", hs(a), hs(b));
                let zero = RScalar::ZERO;
                out.case(g1, &format!("egct_add {}", list_tok(&[tok(&zero, &x), tok(&y, &z)])));
                out.case(g1, &format!("egct_add {}", list_tok(&[tok(&x, &zero), tok(&y, &z)])));
                out.case(g1, &format!("egct_add {}", list_tok(&[tok(&y, &z), tok(&zero, &x)])));
                out.case(g1, &format!("egct_add {}", list_tok(&[tok(&x, &y), tok(&-x, &z), tok(&t, &x)])));
                out.case(g1, &format!("egct_add {}", list_tok(&[tok(&zero, &zero), tok(&y, &z), tok(&t, &x)])));
            }
            // proof verification on arbitrary (invalid) tuples and guards
            let (mp, bp, ch) = (rng.scalar(), rng.scalar(), rng.scalar());
            out.case(g1, &format!("egp_verify q{} q{} s{} s{} s{} q{}", hs(&c1), hs(&c2), hs(&mp), hs(&bp), hs(&ch), hs(&sk)));
            out.case(g1, &format!("egp_verify_and_decrypt q{} q{} s{} s{} s{} s{}", hs(&c1), hs(&c2), hs(&mp), hs(&bp), hs(&ch), hs(&sk)));
            out.case(g1, &format!("egp_verify_and_decrypt q{} q{} s{} s{} s{} s00", hs(&c1), hs(&c2), hs(&mp), hs(&bp), hs(&ch)));
            // a proof chosen so that the verifier's recomputed first commitment is the identity:
            // c1 = b*P, blinder_proof = b*challenge  =>  r1 = c1*(-challenge) + P*blinder_proof = 0
            let b = rng.scalar();
            out.case(g1, &format!("egp_verify q{} q{} s{} s{} s{} q{}", hs(&b), hs(&c2), hs(&mp), hs(&(b * ch)), hs(&ch), hs(&sk)));
            out.case(g1, &format!("egp_verify_and_decrypt q{} q{} s{} s{} s{} s{}", hs(&b), hs(&c2), hs(&mp), hs(&(b * ch)), hs(&ch), hs(&sk)));
            // threshold decryption key
            let t = 2 + i % 3;
            let coeffs: Vec<RScalar> = std::iter::once(sk).chain((1..t).map(|_| rng.scalar())).collect();
            let sh: Vec<String> = (1..=t as u64 + 1).map(|j| pt_share_tok(j, &enc_pk(g1, &(c1 * shamir_eval(&coeffs, j))))).collect();
            out.case(g1, &format!("egdk_from_shares {}", list_tok(&sh)));
            out.case(g1, &format!("egdk_from_shares {}", list_tok(&sh[..1])));
        }
        out.case(g1, &format!("eg_encrypt q00 s01 x{}", hx(&rng.bytes(32))));
        out.case(g1, &format!("eg_encrypt_proof q00 s01 x{}", hx(&rng.bytes(32))));
    }
}

/// proof of knowledge in dlog form: u = H*x, v = -(sig*(x+y))
pub fn gen_c10(rng: &mut Prng, thorough: bool, out: &mut Out) {
    for g1 in [true, false] {
        let n = if thorough { 10 } else { 3 };
        for i in 0..n {
            for scheme in 0..3u8 {
                let sc = SCH[scheme as usize];
                let sk = if i == 0 { RScalar::ONE } else { rng.scalar() };
                let msg = rng.bytes(i * 7);
                let sig = sig_dlog(g1, scheme, &sk, &msg);
                let seed = rng.bytes(32);
                out.case(g1, &format!("pc_generate x{} c{} p{} [ x{} ]", hx(&msg), sc, hs(&sig), hx(&seed)));
                let x = rng.scalar();
                let y = rng.scalar();
                let h = eta(&msg, &dst(g1, scheme));
                let u = h * x;
                let v = -(sig * (x + y));
                out.case(g1, &format!("pc_finalize c{} p{} s{} s{} c{} p{}", sc, hs(&u), hs(&x), hs(&y), sc, hs(&sig)));
                out.case(g1, &format!("pc_finalize c{} p{} s{} s{} c{} p{}", sc, hs(&u), hs(&x), hs(&y), SCH[((scheme + 1) % 3) as usize], hs(&sig)));
                out.case(g1, &format!("pc_finalize c{} p{} s00 s{} c{} p{}", sc, hs(&u), hs(&y), sc, hs(&sig)));
                out.case(g1, &format!("pc_finalize c{} p{} s{} s00 c{} p{}", sc, hs(&u), hs(&x), sc, hs(&sig)));
                out.case(g1, &format!("pc_finalize c{} p00 s{} s{} c{} p{}", sc, hs(&x), hs(&y), sc, hs(&sig)));
                out.case(g1, &format!("pc_finalize c{} p{} s{} s{} c{} p00", sc, hs(&u), hs(&x), hs(&y), sc));
                let ver = |out: &mut Out, s: u8, u: &RScalar, v: &RScalar, pk: &RScalar, m: &[u8], y: &RScalar| {
                    out.case(g1, &format!("pok_verify c{} p{} p{} q{} x{} s{}", SCH[s as usize], hs(u), hs(v), hs(pk), hx(m), hs(y)));
                };
                ver(out, scheme, &u, &v, &sk, &msg, &y);
                ver(out, scheme, &u, &v, &sk, &msg, &(y + RScalar::ONE));
                ver(out, scheme, &u, &v, &(sk + RScalar::ONE), &msg, &y);
                let mut m2 = msg.clone();
                m2.push(0);
                ver(out, scheme, &u, &v, &sk, &m2, &y);
                ver(out, scheme, &(u + RScalar::ONE), &v, &sk, &msg, &y);
                ver(out, scheme, &u, &-v, &sk, &msg, &y);
                ver(out, scheme, &v, &u, &sk, &msg, &y);
                ver(out, (scheme + 1) % 3, &u, &v, &sk, &msg, &y);
                ver(out, scheme, &RScalar::ZERO, &v, &sk, &msg, &y);
                ver(out, scheme, &u, &RScalar::ZERO, &sk, &msg, &y);
                ver(out, scheme, &u, &v, &RScalar::ZERO, &msg, &y);
                ver(out, scheme, &u, &v, &sk, &msg, &RScalar::ZERO);
                // the augmented message makes an Aug proof verify (documented work-around)
                if scheme == 1 {
                    let am = amsg(g1, 1, &sk, &msg);
                    let ha = eta(&am, &dst(g1, 1));
                    ver(out, 1, &(ha * x), &v, &sk, &am, &y);
                }
                for t in [0u128, 1, 1_700_000_000_000, (1u128 << 63), u64::MAX as u128] {
                    out.case(g1, &format!("compute_y p{} n{}", hs(&u), t));
                }
                // timestamp variant
                out.case(g1, &format!("pokts_generate x{} c{} p{} [ x{} ]", hx(&msg), sc, hs(&sig), hx(&rng.bytes(32))));
                for off in ["0", "-1", "-1000", "-100000", "-100000000000", "1000", "100000", "1000000000", "-1790000000000", "9000000000000000000"] {
                    for tmo in ["?", "!n0", "!n5000", "!n200000", "!n18446744073709551615"] {
                        if !thorough && (i + off.len() + tmo.len()) % 3 != 0 {
                            continue;
                        }
                        out.case(g1, &format!("pokts_verify_rel s{} s{} c{} x{} w{} {}", hs(&sk), hs(&x), sc, hx(&msg), off, tmo));
                    }
                }
            }
        }
    }
}

pub fn gen_c04(rng: &mut Prng, _thorough: bool, out: &mut Out) {
    for g1 in [true, false] {
        for scheme in 0..3u8 {
            let sc = SCH[scheme as usize];
            let sk = rng.scalar();
            let msg = rng.bytes(9);
            let sig = sig_dlog(g1, scheme, &sk, &msg);
            out.case(g1, &format!("sk_sign s00 c{} x{}", sc, hx(&msg)));
            out.case(g1, &format!("sig_verify c{} p00 q{} x{}", sc, hs(&sk), hx(&msg)));
            out.case(g1, &format!("sig_verify c{} p{} q00 x{}", sc, hs(&sig), hx(&msg)));
            out.case(g1, &format!("sig_verify c{} p00 q00 x{}", sc, hx(&msg)));
            out.case(g1, &format!("multi_verify c{} p00 q{} x{}", sc, hs(&sk), hx(&msg)));
            out.case(g1, &format!("multi_verify c{} p{} q00 x{}", sc, hs(&sig), hx(&msg)));
            // accumulated key that is the identity (k and -k)
            out.case(g1, &format!("multi_pk [ q{} q{} ]", hs(&sk), hs(&-sk)));
            for n in [2usize, 3, 5] {
                let sks: Vec<(RScalar, Vec<u8>)> = (0..n).map(|i| (rng.scalar(), vec![i as u8, 7])).collect();
                let agg = agg_dlog(g1, scheme, &sks);
                for k in 0..n {
                    let mut p = sks.clone();
                    p[k].0 = RScalar::ZERO;
                    out.case(g1, &format!("agg_verify c{} p{} {}", sc, hs(&agg), pairs_tok(&p)));
                    let mut others = sks.clone();
                    others.remove(k);
                    let agg_o = agg_dlog(g1, scheme, &others);
                    out.case(g1, &format!("agg_verify c{} p{} {}", sc, hs(&agg_o), pairs_tok(&p)));
                }
                out.case(g1, &format!("agg_verify c{} p00 {}", sc, pairs_tok(&sks)));
                // all signers on ONE message, with the identity key inserted at each position next to a
                // valid remainder (the accumulated key is then not the identity)
                let same: Vec<(RScalar, Vec<u8>)> = (0..n).map(|_| (rng.scalar(), b"same message".to_vec())).collect();
                let agg_same = agg_dlog(g1, scheme, &same);
                for k in 0..=n {
                    let mut p = same.clone();
                    p.insert(k, (RScalar::ZERO, b"same message".to_vec()));
                    out.case(g1, &format!("agg_verify c{} p{} {}", sc, hs(&agg_same), pairs_tok(&p)));
                }
                // two keys that cancel (k, -k) on one message: accumulated key of the pair is the identity
                let kk = rng.scalar();
                let mut cancel = same.clone();
                cancel.push((kk, b"same message".to_vec()));
                cancel.push((-kk, b"same message".to_vec()));
                out.case(g1, &format!("agg_verify c{} p{} {}", sc, hs(&agg_dlog(g1, scheme, &cancel)), pairs_tok(&cancel)));
                out.case(g1, &format!("agg_verify c{} p{} {}", sc, hs(&agg_same), pairs_tok(&cancel)));
            }
            // proofs of knowledge
            let (x, y) = (rng.scalar(), rng.scalar());
            let h = eta(&msg, &dst(g1, scheme));
            let (u, v) = (h * x, -(sig * (x + y)));
            out.case(g1, &format!("pok_verify c{} p00 p{} q{} x{} s{}", sc, hs(&v), hs(&sk), hx(&msg), hs(&y)));
            out.case(g1, &format!("pok_verify c{} p{} p00 q{} x{} s{}", sc, hs(&u), hs(&sk), hx(&msg), hs(&y)));
            out.case(g1, &format!("pok_verify c{} p{} p{} q00 x{} s{}", sc, hs(&u), hs(&v), hx(&msg), hs(&y)));
            out.case(g1, &format!("pok_verify c{} p{} p{} q{} x{} s00", sc, hs(&u), hs(&v), hs(&sk), hx(&msg)));
            // forged: u = -H*y makes the committed sum the identity, v = identity would satisfy the equation
            out.case(g1, &format!("pok_verify c{} p{} p00 q{} x{} s{}", sc, hs(&-(h * y)), hs(&sk), hx(&msg), hs(&y)));
            // signcryption / time lock with identities
            let seed = rng.bytes(32);
            let d = dst(g1, scheme);
            let (cu, cv, cw) = sc_seal_ref(g1, &sk, &msg, &d, &seed);
            out.case(g1, &format!("scct_is_valid {}", ct_tok(&RScalar::ZERO, &cv, &cw, scheme)));
            out.case(g1, &format!("scct_is_valid {}", ct_tok(&cu, &cv, &RScalar::ZERO, scheme)));
            out.case(g1, &format!("scct_decrypt {} s{}", ct_tok(&RScalar::ZERO, &cv, &RScalar::ZERO, scheme), hs(&sk)));
            out.case(g1, &format!("scct_decrypt {} s{}", ct_tok(&cu, &cv, &RScalar::ZERO, scheme), hs(&sk)));
            let idp = amsg(g1, scheme, &sk, b"id");
            let (tu, tv, tw) = tl_seal_ref(g1, &sk, &msg, &idp, &d, &seed);
            let tsig = sig_dlog(g1, scheme, &sk, b"id");
            out.case(g1, &format!("tlct_decrypt q00 x{} x{} c{} c{} p{}", hx(&tv), hx(&tw), sc, sc, hs(&tsig)));
            out.case(g1, &format!("tlct_decrypt q{} x{} x{} c{} c{} p00", hs(&tu), hx(&tv), hx(&tw), sc, sc));
            // a ciphertext anyone can build for the identity "signature": K = e(identity, U) = 1, everything else consistent
            let (iu, iv, iw) = tl_seal_ref(g1, &RScalar::ZERO, &msg, &idp, &d, &seed);
            out.case(g1, &format!("tlct_decrypt q{} x{} x{} c{} c{} p00", hs(&iu), hx(&iv), hx(&iw), sc, sc));
            out.case(g1, &format!("pk_encrypt_time_lock q00 c{} x00 x00 x{}", sc, hx(&seed)));
            out.case(g1, &format!("sks_sign h1:{} c{} x00", "00".repeat(32), sc));
        }
        out.case(g1, "pop_prove s00");
        let sk = rng.scalar();
        let pd = eta(&enc_pk(g1, &sk), &dst_pop(g1)) * sk;
        out.case(g1, &format!("pop_verify p00 q{}", hs(&sk)));
        out.case(g1, &format!("pop_verify p{} q00", hs(&pd)));
        out.case(g1, "pop_verify p00 q00");
        let seed = rng.bytes(32);
        out.case(g1, &format!("eg_encrypt q00 s05 x{}", hx(&seed)));
        out.case(g1, &format!("eg_encrypt_proof q00 s05 x{}", hx(&seed)));
        let (c1, c2, a, b, c) = (rng.scalar(), rng.scalar(), rng.scalar(), rng.scalar(), rng.scalar());
        for (p1, p2, s1, s2, s3, pk) in [
            (RScalar::ZERO, c2, a, b, c, sk), (c1, RScalar::ZERO, a, b, c, sk), (c1, c2, RScalar::ZERO, b, c, sk),
            (c1, c2, a, RScalar::ZERO, c, sk), (c1, c2, a, b, RScalar::ZERO, sk), (c1, c2, a, b, c, RScalar::ZERO),
        ] {
            out.case(g1, &format!("egp_verify q{} q{} s{} s{} s{} q{}", hs(&p1), hs(&p2), hs(&s1), hs(&s2), hs(&s3), hs(&pk)));
        }
        out.case(g1, &format!("egp_verify_and_decrypt q{} q{} s{} s{} s{} s00", hs(&c1), hs(&c2), hs(&a), hs(&b), hs(&c)));
        for z in ["00".repeat(32), "00".repeat(31) + "80", "80".to_string() + &"00".repeat(31)] {
            out.case(g1, &format!("sk_from_be x{}", z));
            out.case(g1, &format!("sk_from_le x{}", z));
        }
    }
}


// ------------------------------------------------------------------------------------------
// Reference encoders (layouts written from the documented wire formats) and their mutations
fn be32(s: &RScalar) -> Vec<u8> {
    sc_be(s).to_vec()
}
fn le32(s: &RScalar) -> Vec<u8> {
    let mut v = sc_be(s).to_vec();
    v.reverse();
    v
}
fn cat(parts: &[&[u8]]) -> Vec<u8> {
    parts.iter().flat_map(|p| p.iter().copied()).collect()
}

/// (type name, encoding) of valid values of every generic data type, from known dlogs
pub fn valid_encodings(rng: &mut Prng, g1: bool, per_type: usize) -> Vec<(&'static str, Vec<u8>)> {
    let mut v: Vec<(&'static str, Vec<u8>)> = vec![];
    for i in 0..per_type {
        let sc = |rng: &mut Prng| match i { 0 => RScalar::ONE, 1 => -RScalar::ONE, 2 => RScalar::from(128u64), _ => rng.scalar() };
        let pt = |rng: &mut Prng| if i == 3 { RScalar::ZERO } else { sc(rng) };
        let tag = (i % 3) as u8;
        let id = [1u8, 255, 2, 128, 77][i % 5];
        let payload = match i { 0 => vec![], 1 => vec![0u8; 1], 2 => rng.bytes(32), 3 => rng.bytes(200), _ => rng.bytes(5 + i) };
        let (a, b, c, d) = (pt(rng), pt(rng), sc(rng), sc(rng));
        v.push(("pk", enc_pk(g1, &a)));
        v.push(("mpk", enc_pk(g1, &b)));
        v.push(("pop", enc_sig(g1, &a)));
        v.push(("sk", be32(&c)));
        v.push(("pcs", be32(&d)));
        v.push(("pcc", be32(&c)));
        for t in ["sig", "aggsig", "multisig", "commitment"] {
            v.push((t, cat(&[&[tag], &enc_sig(g1, &a)])));
        }
        v.push(("pok", cat(&[&[tag], &enc_sig(g1, &a), &enc_sig(g1, &b)])));
        let ts: u64 = [0, 1, 1_790_000_000_000, 1u64 << 63, u64::MAX][i % 5];
        v.push(("pokts", cat(&[&[tag], &enc_sig(g1, &a), &enc_sig(g1, &b), &ts.to_le_bytes()])));
        v.push(("skshare", cat(&[&[id], &le32(&c)])));
        for t in ["pkshare", "sdshare", "egshare"] {
            v.push((t, cat(&[&[id], &enc_pk(g1, &a)])));
        }
        v.push(("sigshare", cat(&[&[tag], &[id], &enc_sig(g1, &b)])));
        v.push(("scct", cat(&[&enc_pk(g1, &a), &leb128(payload.len() as u128), &payload, &enc_sig(g1, &b), &[tag]])));
        v.push(("scdk", enc_pk(g1, &a)));
        v.push(("egdk", enc_pk(g1, &b)));
        let v32 = rng.bytes(32);
        v.push(("tlct", cat(&[&enc_pk(g1, &a), &v32, &leb128(payload.len() as u128), &payload, &[tag]])));
        v.push(("egct", cat(&[&enc_pk(g1, &a), &enc_pk(g1, &b)])));
        v.push(("egproof", cat(&[&enc_pk(g1, &a), &enc_pk(g1, &b), &be32(&c), &be32(&d), &be32(&sc(rng))])));
        if g1 {
            v.push(("skenum", cat(&[&[1 + (i % 2) as u8], &be32(&c)])));
            v.push(("inner1", cat(&[&[id], &enc_g1(&a)])));
            v.push(("inner2", cat(&[&[id], &enc_g2(&a)])));
        }
    }
    v
}

pub fn gen_c15(rng: &mut Prng, thorough: bool, out: &mut Out) {
    for g1 in [true, false] {
        for (t, e) in valid_encodings(rng, g1, if thorough { 12 } else { 5 }) {
            out.case(g1, &format!("bytes_rt w{} x{}", t, hx(&e)));
        }
        // scalar codecs
        for s in edge_scalars() {
            out.case(g1, &format!("sk_to_be s{}", hs(&s)));
            out.case(g1, &format!("sk_to_le s{}", hs(&s)));
            out.case(g1, &format!("sk_from_be x{}", hx(&be32(&s))));
            out.case(g1, &format!("sk_from_le x{}", hx(&le32(&s))));
            if g1 {
                out.case(g1, &format!("skenum_from_be x01{}", hx(&be32(&s))));
                out.case(g1, &format!("skenum_from_be x02{}", hx(&be32(&s))));
                out.case(g1, &format!("skenum_from_le x01{}", hx(&le32(&s))));
                out.case(g1, &format!("skenum_from_le x02{}", hx(&le32(&s))));
                out.case(g1, &format!("bytes_rt wskenum x01{}", hx(&be32(&s))));
                out.case(g1, &format!("bytes_rt wskenum x02{}", hx(&be32(&s))));
            }
        }
    }
}

fn point_len(g1: bool, sig: bool) -> usize {
    if g1 == sig { 48 } else { 96 }
}

pub fn gen_c16(rng: &mut Prng, thorough: bool, out: &mut Out) {
    for g1 in [true, false] {
        let bad_sig = crate::search_codec::codec_bad_points(rng, g1, if thorough { 6 } else { 2 });
        let bad_pk = crate::search_codec::codec_bad_points(rng, !g1, if thorough { 6 } else { 2 });
        for (t, e) in valid_encodings(rng, g1, if thorough { 6 } else { 3 }) {
            let case = |out: &mut Out, b: &[u8]| {
                out.case(g1, &format!("bytes_rt w{} x{}", t, hx(b)));
                if t == "skenum" {
                    // the enum's own importers see the same truncated / extended / relabelled inputs
                    out.case(g1, &format!("skenum_from_be x{}", hx(b)));
                    out.case(g1, &format!("skenum_from_le x{}", hx(b)));
                }
            };
            // truncations: every proper prefix (short types) or a spread
            let step = if e.len() <= 120 || thorough { 1 } else { 7 };
            let mut k = 0;
            while k < e.len() {
                case(out, &e[..k]);
                k += step;
            }
            case(out, &e[..e.len() - 1]);
            // extensions
            for ext in [1usize, 2, 16] {
                let mut x = e.clone();
                x.extend(std::iter::repeat(0xa5u8).take(ext));
                case(out, &x);
            }
            // invalid points spliced over every window that is a point position: try both lengths at every
            // offset where the splice fits exactly before/after known separators (offsets 0, 1, 2 and the tail)
            for (bad, plen) in [(&bad_sig, point_len(g1, true)), (&bad_pk, point_len(g1, false))] {
                for off in [0usize, 1, 2, e.len().saturating_sub(plen), e.len().saturating_sub(plen + 1), e.len().saturating_sub(plen + 8), plen, plen + 1] {
                    if off + plen > e.len() {
                        continue;
                    }
                    for b in bad.iter() {
                        let mut x = e.clone();
                        x[off..off + plen].copy_from_slice(&b.bytes);
                        case(out, &x);
                    }
                }
            }
            // tags and identifiers
            if e.len() > 1 {
                for tagb in [3u8, 0x7f, 0x80, 0xff] {
                    let mut x = e.clone();
                    x[0] = tagb;
                    case(out, &x);
                }
                let mut x = vec![0x80u8, 0x00];
                x.extend_from_slice(&e[1..]);
                case(out, &x);
            }
        }
        // scalars: zero, r, r+1, 2^255, all ones
        let r_be = hex::decode("73eda753299d7d483339d80809a1d80553bda402fffe5bfeffffffff00000001").unwrap();
        let mut r1 = r_be.clone();
        r1[31] = 2;
        for b in [vec![0u8; 32], r_be.clone(), r1, vec![0xffu8; 32], { let mut z = vec![0u8; 32]; z[0] = 0x80; z }] {
            for t in ["sk", "pcs", "pcc"] {
                out.case(g1, &format!("bytes_rt w{} x{}", t, hx(&b)));
            }
            out.case(g1, &format!("sk_from_be x{}", hx(&b)));
            out.case(g1, &format!("sk_from_le x{}", hx(&b)));
            let mut p = cat(&[&enc_pk(g1, &RScalar::ONE), &enc_pk(g1, &RScalar::ONE)]);
            p.extend_from_slice(&b);
            p.extend_from_slice(&be32(&RScalar::ONE));
            p.extend_from_slice(&be32(&RScalar::ONE));
            out.case(g1, &format!("bytes_rt wegproof x{}", hx(&p)));
        }
        // share containers with invalid payloads, used
        let sk = rng.scalar();
        let good1 = pt_share_tok(1, &enc_pk(g1, &sk));
        for b in bad_pk.iter() {
            let badsh = pt_share_tok(2, &b.bytes);
            out.case(g1, &format!("pk_from_shares [ {} {} ]", good1, badsh));
            out.case(g1, &format!("scdk_from_shares [ {} {} ]", good1, badsh));
            out.case(g1, &format!("egdk_from_shares [ {} {} ]", good1, badsh));
            let m = b"m".to_vec();
            out.case(g1, &format!("pks_verify {} cbasic {} x{}", badsh, pt_share_tok(2, &enc_sig(g1, &sk)), hx(&m)));
        }
        for b in bad_sig.iter() {
            let badsh = pt_share_tok(2, &b.bytes);
            let g = pt_share_tok(1, &enc_sig(g1, &sk));
            out.case(g1, &format!("sig_from_shares [ cbasic {} cbasic {} ]", g, badsh));
            out.case(g1, &format!("pks_verify {} cpop {} x6d", pt_share_tok(2, &enc_pk(g1, &sk)), badsh));
        }
    }
}


/// VALID ciphertexts whose decrypted payload starts with a crafted length prefix at the arithmetic
/// edges of the parser (u64/usize boundaries, values that wrap when truncated, 19-byte encodings)
pub fn prefix_edges(rng: &mut Prng, g1: bool, sk: &RScalar, out: &mut Out) {
    let sk = *sk;
        {
            let msg = rng.bytes(40);
            let seed = rng.bytes(32);
            let d = dst(g1, 2);
            let (u, v, _w) = sc_seal_ref(g1, &sk, &msg, &d, &seed);
            let fr = frame(&msg);
            let ksm: Vec<u8> = xor(&v, &fr);
            let edge: Vec<u128> = vec![
                u64::MAX as u128, u64::MAX as u128 - 1, u64::MAX as u128 - 9, u64::MAX as u128 - 10, 1u128 << 63, (1u128 << 63) - 1,
                1u128 << 32, 1u128 << 64, (1u128 << 64) + 5, (1u128 << 64) + 39, u128::MAX, 1u128 << 127, 41, 40, 39, 31, 30,
                v.len() as u128, v.len() as u128 - 1, v.len() as u128 - 2, 0x3fff, 0x4000,
            ];
            for x in edge {
                let pre = leb128(x);
                let mut v2 = v.clone();
                for i in 0..pre.len().min(v2.len()) {
                    v2[i] = ksm[i] ^ pre[i];
                }
                let mut t = crate::refs::sc_enc_pk(g1, &u);
                t.extend_from_slice(&v2);
                let w2 = eta(&t, &d) * u;
                let ct = ct_tok(&u, &v2, &w2, 2);
                out.case(g1, &format!("scct_decrypt {} s{}", ct, hs(&sk)));
                out.case(g1, &format!("scdk_decrypt {} q{}", ct, hs(&(u * sk))));
                // the same crafted prefix in a time-lock payload (opened with the right signature)
                let id = b"edge".to_vec();
                let (tu, tv, tw) = tl_seal_ref(g1, &sk, &msg, &id, &d, &seed);
                let tks: Vec<u8> = xor(&tw, &fr);
                let mut tw2 = tw.clone();
                for i in 0..pre.len().min(tw2.len()) {
                    tw2[i] = tks[i] ^ pre[i];
                }
                out.case(g1, &format!("tlct_decrypt q{} x{} x{} cpop cpop p{}", hs(&tu), hx(&tv), hx(&tw2), hs(&sig_dlog(g1, 2, &sk, &id))));
            }
            // 19 continuation bytes / an unterminated prefix
            for pre in [vec![0xffu8; 19], vec![0x80u8; 18], { let mut p = vec![0xffu8; 18]; p.push(0x7f); p }] {
                let mut v2 = v.clone();
                for i in 0..pre.len().min(v2.len()) {
                    v2[i] = ksm[i] ^ pre[i];
                }
                let mut t = crate::refs::sc_enc_pk(g1, &u);
                t.extend_from_slice(&v2);
                let w2 = eta(&t, &d) * u;
                out.case(g1, &format!("scct_decrypt {} s{}", ct_tok(&u, &v2, &w2, 2), hs(&sk)));
            }
        }
}

pub fn gen_c17(rng: &mut Prng, thorough: bool, out: &mut Out) {
    for g1 in [true, false] {
        for (t, e) in valid_encodings(rng, g1, if thorough { 4 } else { 2 }) {
            let case = |out: &mut Out, b: &[u8]| out.case(g1, &format!("bytes_rt w{} x{}", t, hx(b)));
            case(out, &[]);
            for _ in 0..(if thorough { 24 } else { 6 }) {
                let mut x = e.clone();
                let i = rng.below(x.len() as u64) as usize;
                x[i] ^= 1 << rng.below(8);
                case(out, &x);
            }
            for n in [1usize, 2, 33, 49, 97, 200] {
                case(out, &rng.bytes(n));
            }
        }
        // the 256 OR-values of the zero test, through both scalar entry points
        for v in 0..=255u8 {
            let mut b = vec![0u8; 32];
            b[(v as usize * 7) % 32] = v;
            if v % 3 == 0 {
                b[(v as usize * 11 + 5) % 32] |= v & 0x55;
            }
            out.case(g1, &format!("sk_from_be x{}", hx(&b)));
            if thorough || v % 4 == 0 || v == 0x80 {
                out.case(g1, &format!("sk_from_le x{}", hx(&b)));
                out.case(g1, &format!("bytes_rt wsk x{}", hx(&b)));
            }
        }
        if g1 {
            for b in [vec![], vec![1u8], vec![2u8], vec![0u8], vec![3u8; 33], { let mut x = vec![1u8]; x.extend(vec![0u8; 32]); x }] {
                out.case(g1, &format!("skenum_from_be x{}", hx(&b)));
                out.case(g1, &format!("bytes_rt wskenum x{}", hx(&b)));
            }
        }
        // ElGamal proofs whose recomputed commitment is the identity (prover-chosen values)
        for _ in 0..2 {
            let (b, c2, mp, ch, k) = (rng.scalar(), rng.scalar(), rng.scalar(), rng.scalar(), rng.scalar());
            out.case(g1, &format!("egp_verify q{} q{} s{} s{} s{} q{}", hs(&b), hs(&c2), hs(&mp), hs(&(b * ch)), hs(&ch), hs(&k)));
            out.case(g1, &format!("egp_verify_and_decrypt q{} q{} s{} s{} s{} s{}", hs(&b), hs(&c2), hs(&mp), hs(&(b * ch)), hs(&ch), hs(&k)));
        }
        // empty and one-element lists through every list-consuming call
        for op in ["sig_from_shares", "pk_from_shares", "sk_combine", "scdk_from_shares", "egdk_from_shares", "multi_from_sigs", "agg_from_sigs", "multi_pk"] {
            out.case(g1, &format!("{} [ ]", op));
        }
        {
            let k = rng.scalar();
            let h = eta(b"m", &dst(g1, 0));
            out.case(g1, &format!("sig_from_shares [ cbasic {} ]", pt_share_tok(1, &enc_sig(g1, &(h * k)))));
            out.case(g1, &format!("pk_from_shares [ {} ]", pt_share_tok(1, &enc_pk(g1, &k))));
            out.case(g1, &format!("sk_combine [ {} ]", share_tok(1, &k)));
        }
        // ciphertexts with degenerate payload sizes through the consuming calls
        let sk = rng.scalar();
        for n in [0usize, 1, 2, 31, 32, 33] {
            let v = rng.bytes(n);
            let ct = ct_tok(&rng.scalar(), &v, &rng.scalar(), (n % 3) as u8);
            out.case(g1, &format!("scct_is_valid {}", ct));
            out.case(g1, &format!("scct_decrypt {} s{}", ct, hs(&sk)));
            out.case(g1, &format!("scdk_decrypt {} q{}", ct, hs(&rng.scalar())));
            out.case(g1, &format!("tlct_decrypt q{} x{} x{} cbasic cbasic p{}", hs(&rng.scalar()), hx(&rng.bytes(32)), hx(&v), hs(&rng.scalar())));
        }
        prefix_edges(rng, g1, &sk, out);
        // honest ciphertexts whose plaintext length prefix is corrupted to every one-byte value
        let msg = rng.bytes(5);
        let seed = rng.bytes(32);
        let d = dst(g1, 0);
        let (u, v, w) = sc_seal_ref(g1, &sk, &msg, &d, &seed);
        for delta in [1u8, 0x7f, 0x80, 0xff, 0x20] {
            let mut v2 = v.clone();
            v2[0] ^= delta;
            // recompute W so that the ciphertext is VALID and the corrupted prefix reaches the parser
            let mut t = crate::refs::sc_enc_pk(g1, &u);
            t.extend_from_slice(&v2);
            let w2 = eta(&t, &d) * u;
            let _ = w;
            let ct = ct_tok(&u, &v2, &w2, 0);
            out.case(g1, &format!("scct_is_valid {}", ct));
            out.case(g1, &format!("scct_decrypt {} s{}", ct, hs(&sk)));
        }
    }
}


pub fn gen_c20(rng: &mut Prng, thorough: bool, out: &mut Out) {
    // every key / challenge constructor of the public API (facade, wrappers, enum) on the same inputs
    for g1 in [true, false] {
        for n in [0usize, 1, 31, 32, 33, 64] {
            let d = rng.bytes(n);
            out.case(g1, &format!("keygen_hash x{}", hx(&d)));
        }
        for _ in 0..3 {
            out.case(g1, &format!("keygen_seeded x{}", hx(&rng.bytes(32))));
            out.case(g1, &format!("keygen_tap x{} x{} x{}", hx(&rng.bytes(32)), hx(&rng.bytes(32)), hx(&rng.bytes(32))));
        }
    }

    for g1 in [true, false] {
        let n = if thorough { 24 } else { 6 };
        let pk = rng.scalar();
        let msg = rng.bytes(20);
        let sig = sig_dlog(g1, 0, &pk, &msg);
        // identical arguments, different seeds (and one repeated seed: the outputs are functions of the seed)
        let mut seeds: Vec<Vec<u8>> = (0..n).map(|_| rng.bytes(32)).collect();
        seeds.push(seeds[0].clone());
        seeds.push(vec![0u8; 32]);
        for seed in &seeds {
            let sd = hx(seed);
            out.case(g1, &format!("sk_new x{}", sd));
            out.case(g1, &format!("challenge_new x{}", sd));
            out.case(g1, &format!("sk_split_tap s{} n2 n3 x{}", hs(&pk), sd));
            out.case(g1, &format!("sk_split_tap s{} n1 n3 x{}", hs(&pk), sd));
            out.case(g1, &format!("pk_sign_crypt q{} cbasic x{} x{}", hs(&pk), hx(&msg), sd));
            out.case(g1, &format!("pk_encrypt_time_lock q{} cpop x{} x6964 x{}", hs(&pk), hx(&msg), sd));
            out.case(g1, &format!("pk_encrypt_time_lock q00 cpop x{} x6964 x{}", hx(&msg), sd));
            out.case(g1, &format!("eg_encrypt q{} s{} x{}", hs(&pk), hs(&pk), sd));
            out.case(g1, &format!("eg_encrypt_proof q{} s{} x{}", hs(&pk), hs(&pk), sd));
            out.case(g1, &format!("pc_generate x{} cbasic p{} [ x{} ]", hx(&msg), hs(&sig), sd));
            out.case(g1, &format!("pokts_generate x{} cbasic p{} [ x{} ]", hx(&msg), hs(&sig), sd));
            out.case(g1, &format!("pokts_generate x{} cbasic p00 [ x{} ]", hx(&msg), sd));
        }
    }
}

pub fn gen_c03(rng: &mut Prng, thorough: bool, out: &mut Out) {
    // every key / challenge constructor of the public API (facade, wrappers, enum) on the same inputs
    for g1 in [true, false] {
        for n in [0usize, 1, 31, 32, 33, 64] {
            let d = rng.bytes(n);
            out.case(g1, &format!("keygen_hash x{}", hx(&d)));
        }
        for _ in 0..3 {
            out.case(g1, &format!("keygen_seeded x{}", hx(&rng.bytes(32))));
            out.case(g1, &format!("keygen_tap x{} x{} x{}", hx(&rng.bytes(32)), hx(&rng.bytes(32)), hx(&rng.bytes(32))));
        }
    }

    for g1 in [true, false] {
        for len in [0usize, 1, 31, 32, 33, 64, 200] {
            for _ in 0..(if thorough { 6 } else { 2 }) {
                out.case(g1, &format!("sk_from_hash x{}", hx(&rng.bytes(len))));
            }
        }
        let keys = pick_keys(rng, if thorough { 10 } else { 5 });
        for sk in &keys {
            out.case(g1, &format!("sk_public_key s{}", hs(sk)));
            out.case(g1, &format!("pop_prove s{}", hs(sk)));
            let pd = eta(&enc_pk(g1, sk), &dst_pop(g1)) * sk;
            out.case(g1, &format!("pop_verify p{} q{}", hs(&pd), hs(sk)));
            for scheme in 0..3u8 {
                for m in some_messages(rng) {
                    out.case(g1, &format!("sk_sign s{} c{} x{}", hs(sk), SCH[scheme as usize], hx(&m)));
                    out.case(g1, &format!("sig_verify c{} p{} q{} x{}", SCH[scheme as usize], hs(&sig_dlog(g1, scheme, sk, &m)), hs(sk), hx(&m)));
                }
            }
        }
    }
    gen_c06(rng, false, out);
}

pub fn generate(prop: &str, thorough: bool, seed: u64) -> Out {
    let mut rng = Prng(seed ^ 0xB15F_u64.wrapping_mul(prop.bytes().fold(7u64, |a, b| a.wrapping_mul(131).wrapping_add(b as u64))));
    let mut out = Out::new();
    match prop {
        "C01" => gen_c01(&mut rng, thorough, &mut out),
        "C02" => gen_c02(&mut rng, thorough, &mut out),
        "C05" => gen_c05(&mut rng, thorough, &mut out),
        "C06" => gen_c06(&mut rng, thorough, &mut out),
        "C07" => gen_c07(&mut rng, thorough, &mut out),
        "C08" => gen_c08(&mut rng, thorough, &mut out),
        "C09" => gen_c09(&mut rng, thorough, &mut out),
        "C04" => gen_c04(&mut rng, thorough, &mut out),
        "C10" => gen_c10(&mut rng, thorough, &mut out),
        "C11" => gen_c11(&mut rng, thorough, &mut out),
        "C12" => gen_c12(&mut rng, thorough, &mut out),
        "C13" => gen_c13(&mut rng, thorough, &mut out),
        "C14" => gen_c14(&mut rng, thorough, &mut out),
        "C03" => gen_c03(&mut rng, thorough, &mut out),
        "C20" => gen_c20(&mut rng, thorough, &mut out),
        "C15" => gen_c15(&mut rng, thorough, &mut out),
        "C16" => gen_c16(&mut rng, thorough, &mut out),
        "C17" => gen_c17(&mut rng, thorough, &mut out),
        "C18" => {
            // every own-protocol construction and every wire layout, byte for byte
            gen_c11(&mut rng, false, &mut out);
            gen_c13(&mut rng, false, &mut out);
            gen_c14(&mut rng, thorough, &mut out);
            gen_c10(&mut rng, false, &mut out);
            gen_c15(&mut rng, thorough, &mut out);
        }
        _ => {}
    }
    out
}
