//! Case generators for the correspondence run (hooked build: every point has a known dlog).
//! Every choice derives from one PRNG state so a disagreement replays exactly.
use crate::refs::*;
use std::fmt::Write as _;

pub struct Prng(pub u64);
impl Prng {
    pub fn next(&mut self) -> u64 {
        // splitmix64
        self.0 = self.0.wrapping_add(0x9e3779b97f4a7c15);
        let mut z = self.0;
        z = (z ^ (z >> 30)).wrapping_mul(0xbf58476d1ce4e5b9);
        z = (z ^ (z >> 27)).wrapping_mul(0x94d049bb133111eb);
        z ^ (z >> 31)
    }
    pub fn below(&mut self, n: u64) -> u64 {
        self.next() % n
    }
    pub fn bytes(&mut self, n: usize) -> Vec<u8> {
        (0..n).map(|_| self.next() as u8).collect()
    }
    pub fn scalar(&mut self) -> RScalar {
        let b = self.bytes(48);
        let s = reduce_be(&b);
        if s == RScalar::ZERO {
            RScalar::ONE
        } else {
            s
        }
    }
    pub fn pick<'a, T>(&mut self, v: &'a [T]) -> &'a T {
        &v[self.below(v.len() as u64) as usize]
    }
}

// Tags written from draft-irtf-cfrg-bls-signature (independent of the source under test)
pub fn dst(impl_g1: bool, scheme: u8) -> Vec<u8> {
    let g = if impl_g1 { "G1" } else { "G2" };
    let s = ["NUL", "AUG", "POP"][scheme as usize];
    format!("BLS_SIG_BLS12381{g}_XMD:SHA-256_SSWU_RO_{s}_").into_bytes()
}
pub fn dst_pop(impl_g1: bool) -> Vec<u8> {
    let g = if impl_g1 { "G1" } else { "G2" };
    format!("BLS_POP_BLS12381{g}_XMD:SHA-256_SSWU_RO_POP_").into_bytes()
}

pub fn enc_sig(impl_g1: bool, a: &RScalar) -> Vec<u8> {
    if impl_g1 { enc_g1(a) } else { enc_g2(a) }
}
pub fn enc_pk(impl_g1: bool, a: &RScalar) -> Vec<u8> {
    if impl_g1 { enc_g2(a) } else { enc_g1(a) }
}

pub fn amsg(impl_g1: bool, scheme: u8, pk: &RScalar, msg: &[u8]) -> Vec<u8> {
    if scheme == 1 {
        let mut v = enc_pk(impl_g1, pk);
        v.extend_from_slice(msg);
        v
    } else {
        msg.to_vec()
    }
}

/// dlog of the honest signature under the hooked hash
pub fn sig_dlog(impl_g1: bool, scheme: u8, sk: &RScalar, msg: &[u8]) -> RScalar {
    eta(&amsg(impl_g1, scheme, sk, msg), &dst(impl_g1, scheme)) * sk
}

pub fn hs(s: &RScalar) -> String {
    hex::encode(sc_be(s))
}
pub fn hx(b: &[u8]) -> String {
    hex::encode(b)
}
pub const SCH: [&str; 3] = ["basic", "aug", "pop"];

pub fn edge_scalars() -> Vec<RScalar> {
    vec![RScalar::ONE, RScalar::from(2u64), -RScalar::ONE, -RScalar::from(2u64), RScalar::from(128u64),
         RScalar::from(0x8000u64), hkdf_scalar(b"BLS-SIG-KEYGEN-SALT-", b"edge-key")]
}

pub fn msg_lengths(tier_thorough: bool) -> Vec<usize> {
    let mut v = vec![0, 1, 31, 32, 33, 63, 64, 65, 127, 128, 129, 255, 256, 257];
    if tier_thorough {
        v.extend_from_slice(&[4096, 65536]);
    } else {
        v.push(1000);
    }
    v
}

pub fn message(rng: &mut Prng, len: usize) -> Vec<u8> {
    match rng.below(4) {
        0 => vec![0u8; len],
        1 => vec![0xffu8; len],
        2 => (0..len).map(|i| i as u8).collect(),
        _ => rng.bytes(len),
    }
}

pub struct Out {
    pub s: String,
    pub n: usize,
}
impl Out {
    pub fn new() -> Self {
        Out { s: String::new(), n: 0 }
    }
    pub fn case(&mut self, impl_g1: bool, body: &str) {
        self.n += 1;
        writeln!(self.s, "{} {} {}", self.n, if impl_g1 { "g1" } else { "g2" }, body).unwrap();
    }
}

pub fn gen_c01(rng: &mut Prng, thorough: bool, out: &mut Out) {
    let lens = msg_lengths(thorough);
    for g1 in [true, false] {
        let mut keys = edge_scalars();
        for _ in 0..(if thorough { 12 } else { 3 }) {
            keys.push(rng.scalar());
        }
        for (ki, sk) in keys.iter().enumerate() {
            out.case(g1, &format!("sk_public_key s{}", hs(sk)));
            for scheme in 0..3u8 {
                // every length class with the first keys, a rotating subset with the rest
                for (li, &len) in lens.iter().enumerate() {
                    if ki >= 2 && (li + ki + scheme as usize) % 5 != 0 {
                        continue;
                    }
                    let m = message(rng, len);
                    out.case(g1, &format!("sk_sign s{} c{} x{}", hs(sk), SCH[scheme as usize], hx(&m)));
                    let sd = sig_dlog(g1, scheme, sk, &m);
                    out.case(g1, &format!("sig_verify c{} p{} q{} x{}", SCH[scheme as usize], hs(&sd), hs(sk), hx(&m)));
                }
            }
        }
        for scheme in 0..3u8 {
            out.case(g1, &format!("sk_sign s00 c{} x{}", SCH[scheme as usize], hx(b"zero key")));
        }
    }
}

pub fn generate(prop: &str, thorough: bool, seed: u64) -> Out {
    let mut rng = Prng(seed ^ 0xB15F_u64.wrapping_mul(prop.bytes().fold(7u64, |a, b| a.wrapping_mul(131).wrapping_add(b as u64))));
    let mut out = Out::new();
    match prop {
        "C01" => gen_c01(&mut rng, thorough, &mut out),
        _ => {}
    }
    out
}
