//! Reference primitives, independent of blsful's own code paths: HMAC/HKDF from SHA-256,
//! wide reduction by repeated multiply-add, curve arithmetic from the pure-Rust crate
//! (`bls12_381_plus`), SHAKE128, SHA-256, merlin, ChaCha20.
use bls12_381_plus as r;
use bls12_381_plus::group::{Curve, Group};
use sha2::{Digest, Sha256};

pub type RScalar = r::Scalar;

pub const H2C_SUFFIX: &[u8] = b"|VERIF-KNOWN-DLOG";

pub fn sha256(data: &[u8]) -> [u8; 32] {
    let mut h = Sha256::new();
    h.update(data);
    h.finalize().into()
}

pub fn hmac_sha256(key: &[u8], data: &[u8]) -> [u8; 32] {
    let mut k = [0u8; 64];
    if key.len() > 64 {
        k[..32].copy_from_slice(&sha256(key));
    } else {
        k[..key.len()].copy_from_slice(key);
    }
    let mut ipad = [0x36u8; 64];
    let mut opad = [0x5cu8; 64];
    for i in 0..64 {
        ipad[i] ^= k[i];
        opad[i] ^= k[i];
    }
    let mut inner = ipad.to_vec();
    inner.extend_from_slice(data);
    let ih = sha256(&inner);
    let mut outer = opad.to_vec();
    outer.extend_from_slice(&ih);
    sha256(&outer)
}

pub fn hkdf_extract(salt: &[u8], ikm: &[u8]) -> [u8; 32] {
    hmac_sha256(salt, ikm)
}

pub fn hkdf_expand(prk: &[u8], info: &[u8], len: usize) -> Vec<u8> {
    let mut out = Vec::new();
    let mut t: Vec<u8> = vec![];
    let mut i = 1u8;
    while out.len() < len {
        let mut d = t.clone();
        d.extend_from_slice(info);
        d.push(i);
        t = hmac_sha256(prk, &d).to_vec();
        out.extend_from_slice(&t);
        i += 1;
    }
    out.truncate(len);
    out
}

/// OS2IP(bytes) mod r, by Horner
pub fn reduce_be(bytes: &[u8]) -> RScalar {
    let mut acc = RScalar::ZERO;
    let b256 = RScalar::from(256u64);
    for b in bytes {
        acc = acc * b256 + RScalar::from(*b as u64);
    }
    acc
}

pub fn reduce_le(bytes: &[u8]) -> RScalar {
    let mut v = bytes.to_vec();
    v.reverse();
    reduce_be(&v)
}

/// scalar_from_hkdf_bytes as the IETF KeyGen prescribes (without the retry)
pub fn hkdf_scalar(salt: &[u8], ikm: &[u8]) -> RScalar {
    let mut ikm0 = ikm.to_vec();
    ikm0.push(0);
    let prk = hkdf_extract(salt, &ikm0);
    let okm = hkdf_expand(&prk, &[0u8, 48u8], 48);
    reduce_be(&okm)
}

/// discrete log of the hooked hash_to_point
pub fn eta(m: &[u8], dst: &[u8]) -> RScalar {
    let mut salt = dst.to_vec();
    salt.extend_from_slice(H2C_SUFFIX);
    hkdf_scalar(&salt, m)
}

pub fn sc_be(s: &RScalar) -> [u8; 32] {
    s.to_be_bytes()
}

pub fn sc_from_be(b: &[u8; 32]) -> RScalar {
    // inputs are always reduced
    Option::from(RScalar::from_be_bytes(b)).expect("scalar out of range")
}

pub fn enc_g1(a: &RScalar) -> Vec<u8> {
    (r::G1Projective::generator() * a).to_affine().to_compressed().to_vec()
}

pub fn enc_g2(a: &RScalar) -> Vec<u8> {
    (r::G2Projective::generator() * a).to_affine().to_compressed().to_vec()
}

pub fn enc_gt(a: &RScalar) -> Vec<u8> {
    use bls12_381_plus::group::GroupEncoding;
    (r::Gt::generator() * a).to_bytes().as_ref().to_vec()
}

pub fn xof(input: &[u8], n: usize) -> Vec<u8> {
    use sha3::digest::{ExtendableOutput, Update, XofReader};
    let mut h = sha3::Shake128::default();
    h.update(input);
    let mut rd = h.finalize_xof();
    let mut v = vec![0u8; n];
    rd.read(&mut v);
    v
}

/// merlin transcript challenge, 64 bytes, reduced little-endian (from_bytes_wide)
pub fn fs(proto: &[u8], items: &[(Vec<u8>, Vec<u8>)], ch_label: &[u8]) -> RScalar {
    // merlin wants 'static labels; leak (bounded: only used by the oracle/reference)
    fn leak(b: &[u8]) -> &'static [u8] {
        Box::leak(b.to_vec().into_boxed_slice())
    }
    let mut t = merlin::Transcript::new(leak(proto));
    for (l, m) in items {
        t.append_message(leak(l), m);
    }
    let mut c = [0u8; 64];
    t.challenge_bytes(leak(ch_label), &mut c);
    reduce_le(&c)
}

pub fn rng_bytes32(seed: &[u8; 32]) -> [u8; 32] {
    use rand::Rng;
    use rand_core::SeedableRng;
    let mut g = rand_chacha::ChaCha20Rng::from_seed(*seed);
    g.gen::<[u8; 32]>()
}

// ---------------------------------------------------------------------------------------
// Reference BLS (draft-irtf-cfrg-bls-signature) on the pure-Rust backend, used un-hooked.
// ---------------------------------------------------------------------------------------
use bls12_381_plus::elliptic_curve::hash2curve::ExpandMsgXmd;

pub fn ref_hash_g1(msg: &[u8], dst: &[u8]) -> r::G1Projective {
    r::G1Projective::hash::<ExpandMsgXmd<Sha256>>(msg, dst)
}
pub fn ref_hash_g2(msg: &[u8], dst: &[u8]) -> r::G2Projective {
    r::G2Projective::hash::<ExpandMsgXmd<Sha256>>(msg, dst)
}

pub fn dec_g1(b: &[u8]) -> Option<r::G1Affine> {
    if b.len() != 48 {
        return None;
    }
    let mut a = [0u8; 48];
    a.copy_from_slice(b);
    r::G1Affine::from_compressed(&a).into()
}
pub fn dec_g2(b: &[u8]) -> Option<r::G2Affine> {
    if b.len() != 96 {
        return None;
    }
    let mut a = [0u8; 96];
    a.copy_from_slice(b);
    r::G2Affine::from_compressed(&a).into()
}

/// CoreSign: compressed signature bytes. `sig_in_g1` = minimal-signature-size variant.
pub fn ref_core_sign(sig_in_g1: bool, sk: &RScalar, msg: &[u8], dst: &[u8]) -> Vec<u8> {
    if sig_in_g1 {
        (ref_hash_g1(msg, dst) * sk).to_affine().to_compressed().to_vec()
    } else {
        (ref_hash_g2(msg, dst) * sk).to_affine().to_compressed().to_vec()
    }
}

pub fn ref_sk_to_pk(sig_in_g1: bool, sk: &RScalar) -> Vec<u8> {
    if sig_in_g1 { enc_g2(sk) } else { enc_g1(sk) }
}

/// CoreVerify on compressed bytes (KeyValidate: valid, non-identity; signature subgroup check
/// via checked decompression; identity signature rejected as blsful documents).
pub fn ref_core_verify(sig_in_g1: bool, pk: &[u8], sig: &[u8], msg: &[u8], dst: &[u8]) -> bool {
    if sig_in_g1 {
        let (Some(p), Some(s)) = (dec_g2(pk), dec_g1(sig)) else { return false };
        if bool::from(p.is_identity()) || bool::from(s.is_identity()) {
            return false;
        }
        let h = ref_hash_g1(msg, dst).to_affine();
        r::pairing(&h, &p) == r::pairing(&s, &r::G2Affine::generator())
    } else {
        let (Some(p), Some(s)) = (dec_g1(pk), dec_g2(sig)) else { return false };
        if bool::from(p.is_identity()) || bool::from(s.is_identity()) {
            return false;
        }
        let h = ref_hash_g2(msg, dst).to_affine();
        r::pairing(&p, &h) == r::pairing(&r::G1Affine::generator(), &s)
    }
}

/// compressed public-key-group point of a dlog, by group assignment (no registration side effect)
pub fn sc_enc_pk(impl_g1: bool, a: &RScalar) -> Vec<u8> {
    if impl_g1 { enc_g2(a) } else { enc_g1(a) }
}
