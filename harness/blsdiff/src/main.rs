mod bl;
mod gen;
mod golden;
mod imp;
mod oracle;
mod refs;
#[macro_use]
mod search_c01;
#[macro_use]
mod search_sigs;
#[macro_use]
mod search_thresh;
#[macro_use]
mod search_enc;
#[macro_use]
mod search_codec;
#[macro_use]
mod search_misc;
mod search;
mod tok;

fn main() {
    let args: Vec<String> = std::env::args().collect();
    let tier = |i: usize| args.get(i).map(|s| s == "thorough").unwrap_or(false);
    let seed = |i: usize| args.get(i).and_then(|s| s.parse::<u64>().ok()).unwrap_or(1);
    match args.get(1).map(|s| s.as_str()) {
        Some("impl") => imp::run_all(),
        Some("oracle") => oracle::serve(),
        Some("gen") => print!("{}", gen::generate(&args[2], tier(3), seed(4)).s),
        Some("c19-produce") => search_misc::c19_produce(tier(2), seed(3)),
        Some("c19-consume") => match args.get(2) {
            Some(f) => search_misc::c19_consume(f),
            None => {
                eprintln!("usage: blsdiff c19-consume <file>");
                std::process::exit(2);
            }
        },
        Some("c20-child") => search_misc::c20_child(args.get(2).map(|s| s.as_str())),
        Some("search") => search::run(&args[2], tier(3), seed(4)),
        Some("golden-check") => golden::check(&args[2]),
        _ => {
            eprintln!("usage: blsdiff impl|oracle|gen <prop> <tier> <seed>|search <prop> <tier> <seed>|c19-produce <tier> <seed>|c19-consume <file>");
            std::process::exit(2);
        }
    }
}
