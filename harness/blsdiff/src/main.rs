mod bl;
mod imp;
mod oracle;
mod refs;
mod tok;

fn main() {
    let args: Vec<String> = std::env::args().collect();
    match args.get(1).map(|s| s.as_str()) {
        Some("impl") => imp::run_all(),
        Some("oracle") => oracle::serve(),
        _ => {
            eprintln!("usage: blsdiff impl|oracle|gen|search ...");
            std::process::exit(2);
        }
    }
}
