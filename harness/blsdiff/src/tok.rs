//! The line-oriented case language shared by the generator, the implementation runner
//! and the OCaml model driver.
//!
//!   x<hex>   bytes            s<hex>  scalar (big-endian)     n<dec>  integer
//!   p<hex>   signature-group point given by its discrete log (scalar, big-endian hex)
//!   q<hex>   public-key-group point given by its discrete log
//!   c<name>  scheme (basic|aug|pop)    h<id>:<hex>  share container (identifier, value bytes)
//!   [ ... ]  list                ?  None          !<tok>  Some(tok)     w<word> bare word
#[derive(Clone, Debug, PartialEq)]
pub enum Tok {
    Bytes(Vec<u8>),
    Scalar([u8; 32]),
    Num(u128),
    P([u8; 32]),
    Q([u8; 32]),
    Scheme(u8),
    Share(u8, Vec<u8>),
    List(Vec<Tok>),
    None_,
    Some_(Box<Tok>),
    Word(String),
}

pub fn be32(h: &str) -> [u8; 32] {
    let mut s = String::from(h);
    if s.len() % 2 == 1 {
        s.insert(0, '0');
    }
    let v = hex::decode(&s).expect("hex scalar");
    assert!(v.len() <= 32, "scalar too long");
    let mut out = [0u8; 32];
    out[32 - v.len()..].copy_from_slice(&v);
    out
}

fn parse_one(it: &mut std::iter::Peekable<std::slice::Iter<'_, &str>>) -> Tok {
    let t = *it.next().expect("token");
    if t == "[" {
        let mut v = vec![];
        while **it.peek().expect("unterminated list") != "]" {
            v.push(parse_one(it));
        }
        it.next();
        return Tok::List(v);
    }
    if t == "?" {
        return Tok::None_;
    }
    let (k, rest) = t.split_at(1);
    match k {
        "x" => Tok::Bytes(hex::decode(rest).expect("hex bytes")),
        "s" => Tok::Scalar(be32(rest)),
        "n" => Tok::Num(rest.parse().expect("num")),
        "p" => Tok::P(be32(rest)),
        "q" => Tok::Q(be32(rest)),
        "c" => Tok::Scheme(match rest {
            "basic" => 0,
            "aug" => 1,
            "pop" => 2,
            _ => panic!("scheme {rest}"),
        }),
        "h" => {
            let (id, v) = rest.split_once(':').expect("share");
            Tok::Share(id.parse().expect("share id"), hex::decode(v).expect("share hex"))
        }
        "!" => {
            let inner: Vec<&str> = vec![rest];
            let mut it2 = inner.iter().peekable();
            Tok::Some_(Box::new(parse_one(&mut it2)))
        }
        "w" => Tok::Word(rest.to_string()),
        _ => panic!("bad token {t}"),
    }
}

pub fn parse_args(words: &[&str]) -> Vec<Tok> {
    let mut it = words.iter().peekable();
    let mut out = vec![];
    while it.peek().is_some() {
        out.push(parse_one(&mut it));
    }
    out
}

pub fn fmt_tok(t: &Tok) -> String {
    match t {
        Tok::Bytes(b) => format!("x{}", hex::encode(b)),
        Tok::Scalar(s) => format!("s{}", hex::encode(s)),
        Tok::Num(n) => format!("n{n}"),
        Tok::P(s) => format!("p{}", hex::encode(s)),
        Tok::Q(s) => format!("q{}", hex::encode(s)),
        Tok::Scheme(s) => format!("c{}", ["basic", "aug", "pop"][*s as usize]),
        Tok::Share(id, v) => format!("h{}:{}", id, hex::encode(v)),
        Tok::List(v) => {
            let mut s = String::from("[");
            for x in v {
                s.push(' ');
                s.push_str(&fmt_tok(x));
            }
            s.push_str(" ]");
            s
        }
        Tok::None_ => "?".into(),
        Tok::Some_(t) => format!("!{}", fmt_tok(t)),
        Tok::Word(w) => format!("w{w}"),
    }
}

impl Tok {
    pub fn bytes(&self) -> &[u8] {
        match self {
            Tok::Bytes(b) => b,
            _ => panic!("expected bytes, got {self:?}"),
        }
    }
    pub fn num(&self) -> u128 {
        match self {
            Tok::Num(n) => *n,
            _ => panic!("expected num, got {self:?}"),
        }
    }
    pub fn scheme(&self) -> u8 {
        match self {
            Tok::Scheme(s) => *s,
            _ => panic!("expected scheme, got {self:?}"),
        }
    }
    pub fn list(&self) -> &[Tok] {
        match self {
            Tok::List(l) => l,
            _ => panic!("expected list, got {self:?}"),
        }
    }
    pub fn opt(&self) -> Option<&Tok> {
        match self {
            Tok::None_ => None,
            Tok::Some_(t) => Some(t),
            _ => panic!("expected option, got {self:?}"),
        }
    }
    pub fn word(&self) -> &str {
        match self {
            Tok::Word(w) => w,
            _ => panic!("expected word, got {self:?}"),
        }
    }
}
