//! Golden corpus generator (property C18). Links the PINNED release of blsful (commit 4bdca94,
//! scratch worktree at /tmp/pinned) and uses only its public API. Every value written to the corpus
//! has been consumed successfully by the pinned release itself in this program (decoded back,
//! verified, decrypted); the `expected` field of an item is the pinned release's own outcome.
//!
//! Deterministic where the API allows (keys from `from_hash`, a seeded ChaCha20 for `split_with_rng`,
//! challenges and messages); `sign_crypt`, `encrypt_time_lock`, `encrypt_key_el_gamal(_with_proof)`,
//! `ProofCommitment::generate` and `ProofOfKnowledgeTimestamp::generate` draw OS entropy internally,
//! so the corpus is generated ONCE and committed.
//!
//! usage: goldengen [out.json]     (default /verif/golden/corpus.json)
use blsful::inner_types::*;
use blsful::*;
use rand_chacha::ChaCha20Rng;
use rand_core::{RngCore, SeedableRng};
use serde_json::{json, Value};
use std::panic::{catch_unwind, AssertUnwindSafe};

pub const SCHEMES: [SignatureSchemes; 3] =
    [SignatureSchemes::Basic, SignatureSchemes::MessageAugmentation, SignatureSchemes::ProofOfPossession];

pub fn sname(s: SignatureSchemes) -> &'static str {
    match s {
        SignatureSchemes::Basic => "basic",
        SignatureSchemes::MessageAugmentation => "aug",
        SignatureSchemes::ProofOfPossession => "pop",
    }
}

pub fn hx(b: &[u8]) -> String {
    hex::encode(b)
}

pub fn hexpt<G: GroupEncoding>(p: &G) -> String {
    hex::encode(p.to_bytes().as_ref())
}

pub fn message(rng: &mut ChaCha20Rng, len: usize) -> Vec<u8> {
    let mut m = vec![0u8; len];
    rng.fill_bytes(&mut m);
    m
}

/// `Some(bytes)` -> hex, `None` -> "none"
pub fn opt_hex<O: Into<Option<Vec<u8>>>>(o: O) -> String {
    match o.into() {
        Some(v) => hex::encode(v),
        None => "none".into(),
    }
}

pub fn verdict<T>(r: &BlsResult<T>) -> &'static str {
    if r.is_ok() {
        "ok"
    } else {
        "err"
    }
}

pub struct Out {
    pub items: Vec<Value>,
    pub skipped: Vec<Value>,
}

/// record one encoded form, or list it as skipped when the pinned release does not decode it back
/// to an equal value
#[allow(clippy::too_many_arguments)]
pub fn rec_form(out: &mut Out, imp: &str, ty: &str, scheme: Option<&str>, label: &str, form: &str, data: &[u8], canon: &[u8], back: Result<Result<bool, String>, ()>) {
    match back {
        Ok(Ok(true)) => out.items.push(json!({
            "kind": "encoding", "impl": imp, "scheme": scheme, "type": ty, "form": form, "value": label,
            "data": hx(data), "canon": hx(canon), "expected": "ok"})),
        other => {
            let reason = match other {
                Ok(Ok(_)) => "pinned release decodes it to a different value".to_string(),
                Ok(Err(e)) => format!("pinned release rejects it: {e}"),
                Err(()) => "pinned release panics decoding it".to_string(),
            };
            out.skipped.push(json!({"impl": imp, "type": ty, "form": form, "value": label, "data": hx(data), "reason": reason}));
        }
    }
}

pub fn catch<T>(f: impl FnOnce() -> T) -> Result<T, ()> {
    catch_unwind(AssertUnwindSafe(f)).map_err(|_| ())
}

/// the `bare` and `json` forms of a value
macro_rules! enc_serde {
    ($out:expr, $imp:expr, $ty:literal, $T:ty, $scheme:expr, $label:expr, $v:expr) => {{
        let v: &$T = $v;
        let canon = serde_bare::to_vec(v).expect("bare encoding");
        let back = catch(|| serde_bare::from_slice::<$T>(&canon).map(|d| &d == v).map_err(|e| e.to_string()));
        rec_form($out, $imp, $ty, $scheme, $label, "bare", &canon, &canon, back);
        let js = serde_json::to_string(v).expect("json encoding");
        let back = catch(|| serde_json::from_str::<$T>(&js).map(|d| &d == v).map_err(|e| e.to_string()));
        rec_form($out, $imp, $ty, $scheme, $label, "json", js.as_bytes(), &canon, back);
    }};
}

/// the `bytes`, `bare` and `json` forms of a value
macro_rules! enc {
    ($out:expr, $imp:expr, $ty:literal, $T:ty, $scheme:expr, $label:expr, $v:expr) => {{
        let v: $T = $v;
        let canon = serde_bare::to_vec(&v).expect("bare encoding");
        let b = Vec::<u8>::from(&v);
        let back = catch(|| <$T>::try_from(b.as_slice()).map(|d| d == v).map_err(|e| e.to_string()));
        rec_form($out, $imp, $ty, $scheme, $label, "bytes", &b, &canon, back);
        enc_serde!($out, $imp, $ty, $T, $scheme, $label, &v);
    }};
}

/// types that do not depend on the implementation
fn plain_types(out: &mut Out) {
    for imp in ["g1", "g2"] {
        for s in SCHEMES {
            let b = [s as u8];
            let canon = serde_bare::to_vec(&s).unwrap();
            rec_form(out, imp, "SignatureSchemes", Some(sname(s)), sname(s), "bytes", &b, &canon, Ok(Ok(SignatureSchemes::from(b[0]) == s)));
            enc_serde!(out, imp, "SignatureSchemes", SignatureSchemes, Some(sname(s)), sname(s), &s);
        }
    }
    for (imp, t) in [("g1", Bls12381::G1), ("g2", Bls12381::G2)] {
        let b = [u8::from(t)];
        let canon = serde_bare::to_vec(&t).unwrap();
        rec_form(out, imp, "Bls12381", None, imp, "bytes", &b, &canon, Ok(Bls12381::try_from(b[0]).map(|d| d == t).map_err(|e| e.to_string())));
        enc_serde!(out, imp, "Bls12381", Bls12381, None, imp, &t);
        for (i, seed) in ["golden-key-0", "golden-enum-key"].iter().enumerate() {
            let v = SecretKeyEnum::from_hash(t, seed);
            let label = format!("from_hash:{seed}");
            enc!(out, imp, "SecretKeyEnum", SecretKeyEnum, None, &label, v.clone());
            if i == 0 {
                // the two other byte forms of this type
                let canon = serde_bare::to_vec(&v).unwrap();
                let be = v.to_be_bytes();
                let back = catch(|| Option::<SecretKeyEnum>::from(SecretKeyEnum::from_be_bytes(&be)).map(|d| d == v).ok_or("none".to_string()));
                rec_form(out, imp, "SecretKeyEnum", None, &label, "be_bytes", &be, &canon, back);
                let le = v.to_le_bytes();
                let back = catch(|| Option::<SecretKeyEnum>::from(SecretKeyEnum::from_le_bytes(&le)).map(|d| d == v).ok_or("none".to_string()));
                rec_form(out, imp, "SecretKeyEnum", None, &label, "le_bytes", &le, &canon, back);
            }
        }
    }
}

macro_rules! gen_impl {
    ($m:ident, $C:ty, $imp:literal) => {
        pub mod $m {
            use super::*;
            pub type C = $C;
            pub const IMP: &str = $imp;
            const AUG_DST: &[u8] = <C as BlsSignatureMessageAugmentation>::DST;

            fn skb(sk: &SecretKey<C>) -> String {
                hx(&Vec::<u8>::from(sk))
            }
            fn pkb(pk: &PublicKey<C>) -> String {
                hx(&Vec::<u8>::from(pk))
            }
            fn sgb(s: &Signature<C>) -> String {
                hx(&Vec::<u8>::from(s))
            }

            /// three hashed keys and the edge keys 1, 128 and r-1
            pub fn keys() -> Vec<(String, SecretKey<C>)> {
                let mut v = vec![];
                for i in 0..3 {
                    let seed = format!("golden-key-{i}");
                    v.push((format!("from_hash:{seed}"), SecretKey::<C>::from_hash(&seed)));
                }
                v.push(("one".into(), SecretKey::<C>(Scalar::ONE)));
                v.push(("128".into(), SecretKey::<C>(Scalar::from(128u64))));
                v.push(("r-1".into(), SecretKey::<C>(-Scalar::ONE)));
                v
            }

            /// the opening key of a time-lock ciphertext in the pinned release
            fn opening(sk: &SecretKey<C>, scheme: SignatureSchemes, id: &[u8]) -> (Signature<C>, &'static str) {
                match scheme {
                    // pinned release: the ciphertext is bound to H(id), not H(pk || id)
                    SignatureSchemes::MessageAugmentation => (
                        Signature::MessageAugmentation(<C as BlsSignatureCore>::core_sign(&sk.0, id, AUG_DST).unwrap()),
                        "core_sign_bare_id",
                    ),
                    _ => (sk.sign(scheme, id).unwrap(), "sign"),
                }
            }

            pub fn signatures(out: &mut Out, rng: &mut ChaCha20Rng) {
                let ks = keys();
                for (ki, (kl, sk)) in ks.iter().enumerate() {
                    let pk = sk.public_key();
                    let lens: &[usize] = if ki < 3 { &[0, 1, 32, 33, 200] } else { &[0, 32] };
                    for scheme in SCHEMES {
                        for &len in lens {
                            let m = message(rng, len);
                            let sig = sk.sign(scheme, &m).unwrap();
                            assert!(sig.verify(&pk, &m).is_ok());
                            out.items.push(json!({"kind": "signature", "impl": IMP, "scheme": sname(scheme), "key": kl,
                                "sk": skb(sk), "pk": pkb(&pk), "msg": hx(&m), "sig": sgb(&sig), "expected": "ok"}));
                        }
                    }
                    // proofs of possession
                    let pop = sk.proof_of_possession().unwrap();
                    assert!(pop.verify(pk).is_ok());
                    out.items.push(json!({"kind": "pop", "impl": IMP, "scheme": null, "key": kl,
                        "sk": skb(sk), "pk": pkb(&pk), "pop": hx(&Vec::<u8>::from(&pop)), "expected": "ok"}));
                }
                // rejected tuples (no `sk`: nothing to re-sign)
                let (sk, other) = (&ks[0].1, &ks[1].1);
                let pk = sk.public_key();
                for scheme in SCHEMES {
                    let m = message(rng, 24);
                    let m2 = message(rng, 24);
                    let sig = sk.sign(scheme, &m).unwrap();
                    let relabelled = match scheme {
                        SignatureSchemes::Basic => Signature::<C>::ProofOfPossession(*sig.as_raw_value()),
                        SignatureSchemes::MessageAugmentation => Signature::<C>::Basic(*sig.as_raw_value()),
                        SignatureSchemes::ProofOfPossession => Signature::<C>::MessageAugmentation(*sig.as_raw_value()),
                    };
                    for (why, pk2, msg2, sig2) in [
                        ("other message", pk, &m2, sig),
                        ("other key", other.public_key(), &m, sig),
                        ("relabelled scheme", pk, &m, relabelled),
                    ] {
                        let r = sig2.verify(&pk2, msg2);
                        assert!(r.is_err());
                        out.items.push(json!({"kind": "signature", "impl": IMP, "scheme": sname(scheme), "case": why,
                            "pk": pkb(&pk2), "msg": hx(msg2), "sig": sgb(&sig2), "expected": verdict(&r)}));
                    }
                }
                let pop = sk.proof_of_possession().unwrap();
                let r = pop.verify(other.public_key());
                assert!(r.is_err());
                out.items.push(json!({"kind": "pop", "impl": IMP, "scheme": null, "case": "other key",
                    "pk": pkb(&other.public_key()), "pop": hx(&Vec::<u8>::from(&pop)), "expected": verdict(&r)}));
            }

            pub fn aggregates(out: &mut Out, rng: &mut ChaCha20Rng) {
                let ks = keys();
                for scheme in SCHEMES {
                    for (n, case) in [(2usize, "distinct"), (3, "distinct"), (6, "distinct"), (3, "repeated message"), (3, "swapped messages")] {
                        let mut msgs: Vec<Vec<u8>> = (0..n).map(|i| message(rng, 8 + 7 * i)).collect();
                        if case == "repeated message" {
                            msgs[1] = msgs[0].clone();
                        }
                        let sigs: Vec<Signature<C>> = (0..n).map(|i| ks[i].1.sign(scheme, &msgs[i]).unwrap()).collect();
                        let agg = AggregateSignature::<C>::from_signatures(&sigs).unwrap();
                        if case == "swapped messages" {
                            msgs.swap(0, 1);
                        }
                        let data: Vec<(PublicKey<C>, Vec<u8>)> = (0..n).map(|i| (ks[i].1.public_key(), msgs[i].clone())).collect();
                        let r = agg.verify(&data);
                        if case == "distinct" {
                            assert!(r.is_ok());
                        }
                        if case == "swapped messages" {
                            assert!(r.is_err());
                        }
                        out.items.push(json!({"kind": "aggregate", "impl": IMP, "scheme": sname(scheme), "case": case,
                            "pairs": data.iter().map(|(pk, m)| json!({"pk": pkb(pk), "msg": hx(m)})).collect::<Vec<_>>(),
                            "sigs": sigs.iter().map(sgb).collect::<Vec<_>>(),
                            "sig": hx(&Vec::<u8>::from(&agg)), "expected": verdict(&r)}));
                    }
                }
            }

            pub fn multisigs(out: &mut Out, rng: &mut ChaCha20Rng) {
                let ks = keys();
                for scheme in SCHEMES {
                    for n in [2usize, 3, 6] {
                        let m = message(rng, 10 * n);
                        let pks: Vec<PublicKey<C>> = (0..n).map(|i| ks[i].1.public_key()).collect();
                        let mpk = MultiPublicKey::<C>::from_public_keys(&pks);
                        let sigs: Vec<Signature<C>> = (0..n).map(|i| ks[i].1.sign(scheme, &m).unwrap()).collect();
                        let ms = MultiSignature::<C>::from_signatures(&sigs);
                        let mut item = json!({"kind": "multisig", "impl": IMP, "scheme": sname(scheme),
                            "pks": pks.iter().map(pkb).collect::<Vec<_>>(), "mpk": hx(&Vec::<u8>::from(&mpk)), "msg": hx(&m),
                            "sigs": sigs.iter().map(sgb).collect::<Vec<_>>()});
                        match ms {
                            Ok(ms) => {
                                assert!(scheme != SignatureSchemes::MessageAugmentation);
                                let r = ms.verify(mpk, &m);
                                assert!(r.is_ok());
                                item["sig"] = json!(hx(&Vec::<u8>::from(&ms)));
                                item["expected"] = json!(verdict(&r));
                            }
                            Err(_) => {
                                // the pinned release refuses to build a message-augmentation multi-signature
                                assert!(scheme == SignatureSchemes::MessageAugmentation);
                                item["sig"] = Value::Null;
                                item["expected"] = json!("err");
                            }
                        }
                        out.items.push(item);
                    }
                    if scheme != SignatureSchemes::MessageAugmentation {
                        // a multi-signature checked against a key list that misses one signer
                        let m = message(rng, 12);
                        let sigs: Vec<Signature<C>> = (0..3).map(|i| ks[i].1.sign(scheme, &m).unwrap()).collect();
                        let ms = MultiSignature::<C>::from_signatures(&sigs).unwrap();
                        let pks: Vec<PublicKey<C>> = (0..2).map(|i| ks[i].1.public_key()).collect();
                        let mpk = MultiPublicKey::<C>::from_public_keys(&pks);
                        let r = ms.verify(mpk, &m);
                        assert!(r.is_err());
                        out.items.push(json!({"kind": "multisig", "impl": IMP, "scheme": sname(scheme), "case": "missing signer key",
                            "pks": pks.iter().map(pkb).collect::<Vec<_>>(), "mpk": hx(&Vec::<u8>::from(&mpk)), "msg": hx(&m),
                            "sig": hx(&Vec::<u8>::from(&ms)), "expected": verdict(&r)}));
                    }
                }
            }

            fn subsets(t: usize, n: usize) -> Vec<Vec<usize>> {
                let mut v = vec![(0..t).collect::<Vec<_>>(), (n - t..n).collect::<Vec<_>>(), (0..n).collect::<Vec<_>>()];
                if n >= 2 * t - 1 {
                    v.push((0..t).map(|i| 2 * i).collect());
                }
                let mut rev: Vec<usize> = (0..t).collect();
                rev.reverse();
                v.push(rev);
                v
            }

            pub fn thresholds(out: &mut Out, rng: &mut ChaCha20Rng) {
                for (t, n) in [(2usize, 3usize), (3, 5), (4, 7)] {
                    for scheme in SCHEMES {
                        let sk = SecretKey::<C>::from_hash(format!("golden-threshold-{t}-{n}-{}", sname(scheme)));
                        let pk = sk.public_key();
                        let shares = sk.split_with_rng(t, n, &mut *rng).unwrap();
                        let pk_shares: Vec<PublicKeyShare<C>> = shares.iter().map(|s| s.public_key().unwrap()).collect();
                        let m = message(rng, 40);
                        let subs = subsets(t, n);
                        for sub in &subs {
                            let ss: Vec<SecretKeyShare<C>> = sub.iter().map(|&i| shares[i].clone()).collect();
                            assert!(SecretKey::<C>::combine(&ss).unwrap() == sk);
                            let ps: Vec<PublicKeyShare<C>> = sub.iter().map(|&i| pk_shares[i]).collect();
                            assert!(PublicKey::<C>::from_shares(&ps).unwrap() == pk);
                        }
                        let mut item = json!({"kind": "threshold", "impl": IMP, "scheme": sname(scheme), "t": t, "n": n,
                            "sk": skb(&sk), "pk": pkb(&pk), "msg": hx(&m),
                            "shares": shares.iter().map(|s| hx(&Vec::<u8>::from(s))).collect::<Vec<_>>(),
                            "pk_shares": pk_shares.iter().map(|s| hx(&Vec::<u8>::from(s))).collect::<Vec<_>>(),
                            "subsets": subs});
                        let partial: Vec<BlsResult<SignatureShare<C>>> = shares.iter().map(|s| s.sign(scheme, &m)).collect();
                        if scheme == SignatureSchemes::MessageAugmentation {
                            // partial signing is not offered for message augmentation
                            assert!(partial.iter().all(|p| p.is_err()));
                            item["expected"] = json!("err");
                        } else {
                            let partial: Vec<SignatureShare<C>> = partial.into_iter().map(|p| p.unwrap()).collect();
                            let whole = sk.sign(scheme, &m).unwrap();
                            for (p, pks) in partial.iter().zip(pk_shares.iter()) {
                                assert!(p.verify(pks, &m).is_ok());
                            }
                            for sub in &subs {
                                let ps: Vec<SignatureShare<C>> = sub.iter().map(|&i| partial[i]).collect();
                                let sig = Signature::<C>::from_shares(&ps).unwrap();
                                assert!(sig == whole && sig.verify(&pk, &m).is_ok());
                            }
                            // fewer than t shares: whatever the pinned release makes of them
                            let short: Vec<usize> = (0..t - 1).collect();
                            let ps: Vec<SignatureShare<C>> = short.iter().map(|&i| partial[i]).collect();
                            let got = catch(|| Signature::<C>::from_shares(&ps));
                            let got = match got {
                                Ok(Ok(s)) => {
                                    assert!(s != whole);
                                    sgb(&s)
                                }
                                Ok(Err(_)) => "err".to_string(),
                                Err(()) => "panic".to_string(),
                            };
                            if got != "panic" {
                                item["short"] = json!({"subset": short, "expected": got});
                            }
                            item["sig_shares"] = json!(partial.iter().map(|s| hx(&Vec::<u8>::from(s))).collect::<Vec<_>>());
                            item["sig"] = json!(sgb(&whole));
                            item["expected"] = json!("ok");
                        }
                        out.items.push(item);
                    }
                }
            }

            pub fn signcrypt(out: &mut Out, rng: &mut ChaCha20Rng) {
                let ks = keys();
                for ki in [0usize, 1, 5] {
                    let sk = &ks[ki].1;
                    let pk = sk.public_key();
                    let lens: &[usize] = if ki < 2 { &[0, 1, 31, 32, 33, 200] } else { &[0, 32] };
                    for scheme in SCHEMES {
                        for &len in lens {
                            let m = message(rng, len);
                            let ct = pk.sign_crypt(scheme, &m);
                            assert!(bool::from(ct.is_valid()));
                            assert_eq!(opt_hex(ct.decrypt(sk)), hx(&m));
                            let dk = sk.sign_decryption_key::<&[u8]>(&ct);
                            assert_eq!(opt_hex(dk.decrypt(&ct)), hx(&m));
                            out.items.push(json!({"kind": "signcrypt", "impl": IMP, "scheme": sname(scheme), "key": ks[ki].0, "msg_len": len,
                                "sk": skb(sk), "pk": pkb(&pk), "ct": hx(&Vec::<u8>::from(&ct)), "dk": hx(&Vec::<u8>::from(&dk)),
                                "valid": true, "expected": hx(&m)}));
                        }
                    }
                }
                // rejected: another key, an altered payload
                let (sk, other) = (&ks[0].1, &ks[2].1);
                let pk = sk.public_key();
                for scheme in SCHEMES {
                    let m = message(rng, 48);
                    let ct = pk.sign_crypt(scheme, &m);
                    let got = opt_hex(ct.decrypt(other));
                    assert!(got != hx(&m));
                    let dk = other.sign_decryption_key::<&[u8]>(&ct);
                    assert_eq!(opt_hex(dk.decrypt(&ct)), got);
                    out.items.push(json!({"kind": "signcrypt", "impl": IMP, "scheme": sname(scheme), "case": "other key", "msg_len": 48,
                        "sk": skb(other), "pk": pkb(&pk), "ct": hx(&Vec::<u8>::from(&ct)), "dk": hx(&Vec::<u8>::from(&dk)),
                        "valid": true, "expected": got}));
                    let mut v = ct.v.clone();
                    v[5] ^= 0x10;
                    let bad = SignCryptCiphertext::<C> { u: ct.u, v, w: ct.w, scheme };
                    assert!(!bool::from(bad.is_valid()));
                    let got = opt_hex(bad.decrypt(sk));
                    assert_eq!(got, "none");
                    let dk = sk.sign_decryption_key::<&[u8]>(&bad);
                    assert_eq!(opt_hex(dk.decrypt(&bad)), "none");
                    out.items.push(json!({"kind": "signcrypt", "impl": IMP, "scheme": sname(scheme), "case": "altered payload", "msg_len": 48,
                        "sk": skb(sk), "pk": pkb(&pk), "ct": hx(&Vec::<u8>::from(&bad)), "dk": hx(&Vec::<u8>::from(&dk)),
                        "valid": false, "expected": got}));
                }
            }

            pub fn signcrypt_shares(out: &mut Out, rng: &mut ChaCha20Rng) {
                for (t, n) in [(2usize, 3usize), (3, 5)] {
                    for scheme in SCHEMES {
                        let sk = SecretKey::<C>::from_hash(format!("golden-signcrypt-shares-{t}-{n}-{}", sname(scheme)));
                        let pk = sk.public_key();
                        let shares = sk.split_with_rng(t, n, &mut *rng).unwrap();
                        let pk_shares: Vec<PublicKeyShare<C>> = shares.iter().map(|s| s.public_key().unwrap()).collect();
                        for len in [0usize, 32, 200] {
                            let m = message(rng, len);
                            let ct = pk.sign_crypt(scheme, &m);
                            let ds: Vec<SignDecryptionShare<C>> = shares.iter().map(|s| ct.create_decryption_share(s).unwrap()).collect();
                            // pinned release: the share check uses the Basic tag whatever the scheme
                            let verdicts: Vec<&str> = ds.iter().zip(pk_shares.iter()).map(|(d, p)| verdict(&d.verify(p, &ct))).collect();
                            let pinned_verdict = if scheme == SignatureSchemes::Basic { "ok" } else { "err" };
                            assert!(verdicts.iter().all(|v| *v == pinned_verdict));
                            let subs = subsets(t, n);
                            let mut dkb = String::new();
                            for sub in &subs {
                                let d: Vec<SignDecryptionShare<C>> = sub.iter().map(|&i| ds[i].clone()).collect();
                                assert_eq!(opt_hex(ct.decrypt_with_shares(&d)), hx(&m));
                                let dk = SignCryptDecryptionKey::<C>::from_shares(&d).unwrap();
                                assert_eq!(opt_hex(dk.decrypt(&ct)), hx(&m));
                                dkb = hx(&Vec::<u8>::from(&dk));
                            }
                            assert_eq!(dkb, hx(&Vec::<u8>::from(&sk.sign_decryption_key::<&[u8]>(&ct))));
                            let mut item = json!({"kind": "signcrypt_shares", "impl": IMP, "scheme": sname(scheme), "t": t, "n": n, "msg_len": len,
                                "pk": pkb(&pk), "ct": hx(&Vec::<u8>::from(&ct)), "dk": dkb,
                                "shares": shares.iter().map(|s| hx(&Vec::<u8>::from(s))).collect::<Vec<_>>(),
                                "pk_shares": pk_shares.iter().map(|s| hx(&Vec::<u8>::from(s))).collect::<Vec<_>>(),
                                "dec_shares": ds.iter().map(|s| hx(&Vec::<u8>::from(s))).collect::<Vec<_>>(),
                                "subsets": subs,
                                // the honest shares are valid; the pinned release said so only for the basic scheme
                                // (SignDecryptionShare::verify used the Basic tag, repaired by 38238d0)
                                "share_verify": "ok", "pinned_share_verify": pinned_verdict,
                                "expected": hx(&m)});
                            if t >= 3 {
                                // fewer than t (but at least two) shares
                                let short: Vec<usize> = (0..t - 1).collect();
                                let d: Vec<SignDecryptionShare<C>> = short.iter().map(|&i| ds[i].clone()).collect();
                                if let Ok(got) = catch(|| opt_hex(ct.decrypt_with_shares(&d))) {
                                    assert!(got != hx(&m) || m.is_empty());
                                    item["short"] = json!({"subset": short, "expected": got});
                                }
                            }
                            out.items.push(item);
                        }
                    }
                }
            }

            pub fn timelock(out: &mut Out, rng: &mut ChaCha20Rng) {
                let ks = keys();
                for ki in [0usize, 1, 4] {
                    let sk = &ks[ki].1;
                    let pk = sk.public_key();
                    let lens: &[usize] = if ki < 2 { &[0, 1, 31, 32, 33, 200] } else { &[0, 32] };
                    for scheme in SCHEMES {
                        for &len in lens {
                            let m = message(rng, len);
                            let id = if len == 1 { vec![] } else { format!("golden-round-{ki}-{len}").into_bytes() };
                            let ct = pk.encrypt_time_lock(scheme, &m, &id).unwrap();
                            let (open, how) = opening(sk, scheme, &id);
                            assert_eq!(opt_hex(ct.decrypt(&open)), hx(&m));
                            out.items.push(json!({"kind": "timelock", "impl": IMP, "scheme": sname(scheme), "key": ks[ki].0, "msg_len": len,
                                "sk": skb(sk), "pk": pkb(&pk), "id": hx(&id), "ct": hx(&Vec::<u8>::from(&ct)),
                                "opening": how, "opening_sig": sgb(&open), "expected": hx(&m)}));
                            if scheme == SignatureSchemes::MessageAugmentation && len == 32 {
                                // known defect of the pinned release: the scheme's own signature over id does not open it
                                let sig = sk.sign(scheme, &id).unwrap();
                                let got = opt_hex(ct.decrypt(&sig));
                                assert_eq!(got, "none");
                                out.items.push(json!({"kind": "timelock", "impl": IMP, "scheme": sname(scheme), "case": "aug signature over id (pinned ciphertexts are bound to H(id))",
                                    "msg_len": len, "sk": skb(sk), "pk": pkb(&pk), "id": hx(&id), "ct": hx(&Vec::<u8>::from(&ct)),
                                    "opening": "sign", "opening_sig": sgb(&sig), "expected": got}));
                            }
                        }
                    }
                }
                // rejected: signature over another id, signature of another key, relabelled signature
                let (sk, other) = (&ks[0].1, &ks[1].1);
                let pk = sk.public_key();
                for scheme in SCHEMES {
                    let m = message(rng, 20);
                    let id = b"golden-round-reject".to_vec();
                    let ct = pk.encrypt_time_lock(scheme, &m, &id).unwrap();
                    let (good, _) = opening(sk, scheme, &id);
                    let relabelled = match scheme {
                        SignatureSchemes::Basic => Signature::<C>::ProofOfPossession(*good.as_raw_value()),
                        _ => Signature::<C>::Basic(*good.as_raw_value()),
                    };
                    for (why, sig) in [
                        ("signature over another id", opening(sk, scheme, b"golden-round-other").0),
                        ("signature of another key", opening(other, scheme, &id).0),
                        ("relabelled signature", relabelled),
                    ] {
                        let got = opt_hex(ct.decrypt(&sig));
                        assert_eq!(got, "none");
                        out.items.push(json!({"kind": "timelock", "impl": IMP, "scheme": sname(scheme), "case": why, "msg_len": 20,
                            "pk": pkb(&pk), "id": hx(&id), "ct": hx(&Vec::<u8>::from(&ct)),
                            "opening": "given", "opening_sig": sgb(&sig), "expected": got}));
                    }
                }
            }

            pub fn elgamal(out: &mut Out, rng: &mut ChaCha20Rng) {
                let ks = keys();
                let gen = <C as BlsElGamal>::message_generator();
                for ri in [0usize, 1, 2, 3] {
                    let rsk = &ks[ri].1;
                    let rpk = rsk.public_key();
                    for mi in 0..2 {
                        let key = if mi == 1 && ri == 3 { SecretKey::<C>(Scalar::ONE) } else { SecretKey::<C>::from_hash(format!("golden-elgamal-msg-{ri}-{mi}")) };
                        let want = gen * key.0;
                        let ct = rpk.encrypt_key_el_gamal(&key).unwrap();
                        let d = ct.decrypt(rsk);
                        assert!(d == want);
                        out.items.push(json!({"kind": "elgamal", "impl": IMP, "scheme": null, "key": ks[ri].0,
                            "sk": skb(rsk), "pk": pkb(&rpk), "message_key": skb(&key), "ct": hx(&Vec::<u8>::from(&ct)), "expected": hexpt(&d)}));
                        let proof = rpk.encrypt_key_el_gamal_with_proof(&key).unwrap();
                        assert!(proof.verify(rpk).is_ok());
                        let d = proof.verify_and_decrypt(rsk).unwrap();
                        assert!(d == want && proof.ciphertext.decrypt(rsk) == want);
                        out.items.push(json!({"kind": "elgamal_proof", "impl": IMP, "scheme": null, "key": ks[ri].0,
                            "sk": skb(rsk), "pk": pkb(&rpk), "message_key": skb(&key), "proof": hx(&Vec::<u8>::from(&proof)),
                            "decrypted": hexpt(&d), "expected": "ok"}));
                        if mi == 0 {
                            // the proof is bound to the recipient
                            let opk = ks[(ri + 1) % 3].1.public_key();
                            let r = proof.verify(opk);
                            assert!(r.is_err());
                            out.items.push(json!({"kind": "elgamal_proof", "impl": IMP, "scheme": null, "case": "other recipient key",
                                "pk": pkb(&opk), "proof": hx(&Vec::<u8>::from(&proof)), "expected": verdict(&r)}));
                        }
                    }
                }
                // decryption with shares of the recipient key
                for (t, n) in [(2usize, 3usize), (3, 5)] {
                    let rsk = SecretKey::<C>::from_hash(format!("golden-elgamal-shares-{t}-{n}"));
                    let rpk = rsk.public_key();
                    let shares = rsk.split_with_rng(t, n, &mut *rng).unwrap();
                    let key = SecretKey::<C>::from_hash(format!("golden-elgamal-shares-msg-{t}-{n}"));
                    let ct = rpk.encrypt_key_el_gamal(&key).unwrap();
                    let want = ct.decrypt(&rsk);
                    assert!(want == gen * key.0);
                    let ds: Vec<ElGamalDecryptionShare<C>> = shares.iter()
                        .map(|s| ElGamalDecryptionShare(<C as BlsSignatureCore>::public_key_share_with_generator(&s.0, ct.c1).unwrap()))
                        .collect();
                    let subs = subsets(t, n);
                    let mut dkb = String::new();
                    for sub in &subs {
                        let d: Vec<ElGamalDecryptionShare<C>> = sub.iter().map(|&i| ds[i].clone()).collect();
                        let dk = ElGamalDecryptionKey::<C>::from_shares(&d).unwrap();
                        assert!(dk.decrypt(&ct) == want);
                        dkb = hx(&Vec::<u8>::from(&dk));
                    }
                    out.items.push(json!({"kind": "elgamal_shares", "impl": IMP, "scheme": null, "t": t, "n": n,
                        "pk": pkb(&rpk), "message_key": skb(&key), "ct": hx(&Vec::<u8>::from(&ct)), "dk": dkb,
                        "shares": shares.iter().map(|s| hx(&Vec::<u8>::from(s))).collect::<Vec<_>>(),
                        "dec_shares": ds.iter().map(|s| hx(&Vec::<u8>::from(s))).collect::<Vec<_>>(),
                        "subsets": subs, "expected": hexpt(&want)}));
                }
            }

            pub fn poks(out: &mut Out, rng: &mut ChaCha20Rng) {
                let ks = keys();
                for ki in [0usize, 1, 3] {
                    let sk = &ks[ki].1;
                    let pk = sk.public_key();
                    for scheme in SCHEMES {
                        for len in [0usize, 40] {
                            let m = message(rng, len);
                            let sig = sk.sign(scheme, &m).unwrap();
                            let aug = scheme == SignatureSchemes::MessageAugmentation;
                            // interactive proof; for message augmentation also with the caller-side workaround
                            // (prove and verify over public_key || message)
                            let mut variants = vec![("", m.clone())];
                            if aug {
                                let mut pm = Vec::<u8>::from(&pk);
                                pm.extend_from_slice(&m);
                                variants.push(("message passed as public_key || message", pm));
                            }
                            for (case, pm) in variants {
                                let (commitment, x) = ProofCommitment::<C>::generate(&pm, sig).unwrap();
                                let y = if len == 0 { ProofCommitmentChallenge::<C>::from_hash(format!("golden-challenge-{ki}-{}", sname(scheme))) } else { ProofCommitmentChallenge::<C>::random(&mut *rng) };
                                let proof = commitment.finalize(x, y, sig).unwrap();
                                let r = proof.verify(pk, &pm, y);
                                // known defect (still present): an honest message-augmentation proof never verifies
                                assert_eq!(r.is_ok(), !aug || !case.is_empty());
                                let mut item = json!({"kind": "pok", "impl": IMP, "scheme": sname(scheme), "key": ks[ki].0,
                                    "pk": pkb(&pk), "msg": hx(&pm), "sig": sgb(&sig),
                                    "commitment": hx(&Vec::<u8>::from(&commitment)), "secret": hx(&Vec::<u8>::from(&x)),
                                    "challenge": hx(&Vec::<u8>::from(&y)), "proof": hx(&Vec::<u8>::from(&proof)), "expected": verdict(&r)});
                                if !case.is_empty() {
                                    item["case"] = json!(case);
                                }
                                out.items.push(item);
                                if len == 40 && case.is_empty() && !aug {
                                    let y2 = ProofCommitmentChallenge::<C>::random(&mut *rng);
                                    let r = proof.verify(pk, &pm, y2);
                                    assert!(r.is_err());
                                    out.items.push(json!({"kind": "pok", "impl": IMP, "scheme": sname(scheme), "case": "other challenge",
                                        "pk": pkb(&pk), "msg": hx(&pm), "challenge": hx(&Vec::<u8>::from(&y2)),
                                        "proof": hx(&Vec::<u8>::from(&proof)), "expected": verdict(&r)}));
                                }
                                // non-interactive (timestamp) proof
                                let tp = ProofOfKnowledgeTimestamp::<C>::generate(&pm, sig).unwrap();
                                let r = tp.verify(pk, &pm, None);
                                assert_eq!(r.is_ok(), !aug || !case.is_empty());
                                let mut item = json!({"kind": "pok_timestamp", "impl": IMP, "scheme": sname(scheme), "key": ks[ki].0,
                                    "pk": pkb(&pk), "msg": hx(&pm), "sig": sgb(&sig), "timestamp": tp.timestamp,
                                    "proof": hx(&Vec::<u8>::from(&tp)), "expected": verdict(&r)});
                                if !case.is_empty() {
                                    item["case"] = json!(case);
                                }
                                out.items.push(item);
                                if len == 40 && case.is_empty() && !aug {
                                    let bad = ProofOfKnowledgeTimestamp::<C> { proof: tp.proof, timestamp: tp.timestamp + 1 };
                                    let r = bad.verify(pk, &pm, None);
                                    assert!(r.is_err());
                                    out.items.push(json!({"kind": "pok_timestamp", "impl": IMP, "scheme": sname(scheme), "case": "timestamp moved by 1 ms",
                                        "pk": pkb(&pk), "msg": hx(&pm), "timestamp": bad.timestamp,
                                        "proof": hx(&Vec::<u8>::from(&bad)), "expected": verdict(&r)}));
                                }
                            }
                        }
                    }
                }
            }

            /// every serialized data type in its three forms
            pub fn encodings(out: &mut Out, rng: &mut ChaCha20Rng) {
                let ks = keys();
                let o = |s: SignatureSchemes| Some(sname(s));
                for (kl, sk) in &ks {
                    enc!(out, IMP, "SecretKey", SecretKey<C>, None, kl, sk.clone());
                    enc!(out, IMP, "PublicKey", PublicKey<C>, None, kl, sk.public_key());
                }
                enc!(out, IMP, "PublicKey", PublicKey<C>, None, "default", PublicKey::<C>::default());
                for (kl, sk) in ks.iter().take(3) {
                    enc!(out, IMP, "ProofOfPossession", ProofOfPossession<C>, None, kl, sk.proof_of_possession().unwrap());
                    enc!(out, IMP, "ProofCommitmentSecret", ProofCommitmentSecret<C>, None, kl, ProofCommitmentSecret::<C>(sk.0));
                    enc!(out, IMP, "ProofCommitmentChallenge", ProofCommitmentChallenge<C>, None, kl, ProofCommitmentChallenge::<C>::from_hash(kl));
                }
                enc!(out, IMP, "ProofOfPossession", ProofOfPossession<C>, None, "default", ProofOfPossession::<C>::default());
                enc!(out, IMP, "ProofCommitmentChallenge", ProofCommitmentChallenge<C>, None, "random", ProofCommitmentChallenge::<C>::random(&mut *rng));
                let pks: Vec<PublicKey<C>> = ks.iter().map(|k| k.1.public_key()).collect();
                enc!(out, IMP, "MultiPublicKey", MultiPublicKey<C>, None, "keys 0..2", MultiPublicKey::<C>::from_public_keys(&pks[..2]));
                enc!(out, IMP, "MultiPublicKey", MultiPublicKey<C>, None, "keys 0..6", MultiPublicKey::<C>::from_public_keys(&pks));
                enc!(out, IMP, "MultiPublicKey", MultiPublicKey<C>, None, "default", MultiPublicKey::<C>::default());

                // a split key for the share types
                let tsk = SecretKey::<C>::from_hash("golden-encoding-split");
                let shares = tsk.split_with_rng(2, 3, &mut *rng).unwrap();
                for (i, s) in shares.iter().enumerate() {
                    let label = format!("share {} of 2-of-3", i + 1);
                    enc!(out, IMP, "SecretKeyShare", SecretKeyShare<C>, None, &label, s.clone());
                    let pks = s.public_key().unwrap();
                    enc!(out, IMP, "PublicKeyShare", PublicKeyShare<C>, None, &label, pks);
                }

                for scheme in SCHEMES {
                    for (vi, (kl, sk)) in ks.iter().take(2).enumerate() {
                        let pk = sk.public_key();
                        let m = message(rng, if vi == 0 { 0 } else { 77 });
                        let label = format!("{kl}, msg_len {}", m.len());
                        let sig = sk.sign(scheme, &m).unwrap();
                        let raw = *sig.as_raw_value();
                        enc!(out, IMP, "Signature", Signature<C>, o(scheme), &label, sig);
                        let sig2 = ks[2].1.sign(scheme, &m).unwrap();
                        enc!(out, IMP, "AggregateSignature", AggregateSignature<C>, o(scheme), &label, AggregateSignature::<C>::from_signatures([sig, sig2]).unwrap());
                        let ms = match scheme {
                            SignatureSchemes::MessageAugmentation => MultiSignature::<C>::MessageAugmentation(raw + sig2.as_raw_value()),
                            _ => MultiSignature::<C>::from_signatures([sig, sig2]).unwrap(),
                        };
                        enc!(out, IMP, "MultiSignature", MultiSignature<C>, o(scheme), &label, ms);
                        let (commitment, x) = ProofCommitment::<C>::generate(&m, sig).unwrap();
                        let y = ProofCommitmentChallenge::<C>::random(&mut *rng);
                        enc!(out, IMP, "ProofCommitment", ProofCommitment<C>, o(scheme), &label, commitment);
                        enc!(out, IMP, "ProofOfKnowledge", ProofOfKnowledge<C>, o(scheme), &label, commitment.finalize(x, y, sig).unwrap());
                        enc!(out, IMP, "ProofOfKnowledgeTimestamp", ProofOfKnowledgeTimestamp<C>, o(scheme), &label, ProofOfKnowledgeTimestamp::<C>::generate(&m, sig).unwrap());
                        // signature shares (the message-augmentation variant exists as a value only)
                        let share = &shares[vi];
                        let ss = match scheme {
                            SignatureSchemes::MessageAugmentation => SignatureShare::<C>::MessageAugmentation(*share.sign(SignatureSchemes::Basic, &m).unwrap().as_raw_value()),
                            _ => share.sign(scheme, &m).unwrap(),
                        };
                        enc!(out, IMP, "SignatureShare", SignatureShare<C>, o(scheme), &label, ss);
                        // ciphertexts
                        let body = message(rng, if vi == 0 { 0 } else { 200 });
                        let label = format!("{kl}, msg_len {}", body.len());
                        let ct = pk.sign_crypt(scheme, &body);
                        enc!(out, IMP, "SignCryptCiphertext", SignCryptCiphertext<C>, o(scheme), &label, ct.clone());
                        let tl = pk.encrypt_time_lock(scheme, &body, b"golden-encoding-id").unwrap();
                        enc!(out, IMP, "TimeCryptCiphertext", TimeCryptCiphertext<C>, o(scheme), &label, tl);
                        if scheme == SignatureSchemes::Basic {
                            enc!(out, IMP, "SignCryptDecryptionKey", SignCryptDecryptionKey<C>, None, &label, sk.sign_decryption_key::<&[u8]>(&ct));
                            let tct = tsk.public_key().sign_crypt(scheme, &body);
                            for (i, s) in shares.iter().enumerate() {
                                let l2 = format!("share {} of 2-of-3, msg_len {}", i + 1, body.len());
                                enc!(out, IMP, "SignDecryptionShare", SignDecryptionShare<C>, None, &l2, tct.create_decryption_share(s).unwrap());
                            }
                        }
                    }
                }
                // the default values (identity points, zero scalars, empty payloads)
                enc!(out, IMP, "SecretKey", SecretKey<C>, None, "default", SecretKey::<C>::default());
                enc!(out, IMP, "Signature", Signature<C>, None, "default", Signature::<C>::default());
                enc!(out, IMP, "AggregateSignature", AggregateSignature<C>, None, "default", AggregateSignature::<C>::default());
                enc!(out, IMP, "MultiSignature", MultiSignature<C>, None, "default", MultiSignature::<C>::default());
                enc!(out, IMP, "ProofCommitment", ProofCommitment<C>, None, "default", ProofCommitment::<C>::default());
                enc!(out, IMP, "ProofOfKnowledge", ProofOfKnowledge<C>, None, "default", ProofOfKnowledge::<C>::default());
                enc!(out, IMP, "ProofOfKnowledgeTimestamp", ProofOfKnowledgeTimestamp<C>, None, "default", ProofOfKnowledgeTimestamp::<C>::default());
                enc!(out, IMP, "SignatureShare", SignatureShare<C>, None, "default", SignatureShare::<C>::default());
                enc!(out, IMP, "SignCryptCiphertext", SignCryptCiphertext<C>, None, "default", SignCryptCiphertext::<C>::default());
                enc!(out, IMP, "TimeCryptCiphertext", TimeCryptCiphertext<C>, None, "default", TimeCryptCiphertext::<C>::default());
                enc!(out, IMP, "SignCryptDecryptionKey", SignCryptDecryptionKey<C>, None, "default", SignCryptDecryptionKey::<C>::default());

                // ElGamal
                for (vi, (kl, sk)) in ks.iter().take(3).enumerate() {
                    let pk = sk.public_key();
                    let key = SecretKey::<C>::from_hash(format!("golden-encoding-elgamal-{vi}"));
                    let ct = pk.encrypt_key_el_gamal(&key).unwrap();
                    enc!(out, IMP, "ElGamalCiphertext", ElGamalCiphertext<C>, None, kl, ct);
                    enc!(out, IMP, "ElGamalProof", ElGamalProof<C>, None, kl, pk.encrypt_key_el_gamal_with_proof(&key).unwrap());
                    enc!(out, IMP, "ElGamalDecryptionKey", ElGamalDecryptionKey<C>, None, kl, ElGamalDecryptionKey::<C>(ct.c1 * sk.0));
                }
                let tct = tsk.public_key().encrypt_key_el_gamal(&ks[0].1).unwrap();
                for (i, s) in shares.iter().enumerate() {
                    let label = format!("share {} of 2-of-3", i + 1);
                    let ds = ElGamalDecryptionShare::<C>(<C as BlsSignatureCore>::public_key_share_with_generator(&s.0, tct.c1).unwrap());
                    enc!(out, IMP, "ElGamalDecryptionShare", ElGamalDecryptionShare<C>, None, &label, ds);
                }
                enc!(out, IMP, "ElGamalCiphertext", ElGamalCiphertext<C>, None, "default", ElGamalCiphertext::<C>::default());
                enc!(out, IMP, "ElGamalProof", ElGamalProof<C>, None, "default", ElGamalProof::<C>::default());
                enc!(out, IMP, "ElGamalDecryptionKey", ElGamalDecryptionKey<C>, None, "default", ElGamalDecryptionKey::<C>::default());

                // the raw share containers: signature shares and public key shares of this implementation
                let m = message(rng, 16);
                for (i, s) in shares.iter().enumerate() {
                    let label = format!("share {} of 2-of-3", i + 1);
                    let sig_share: <C as Pairing>::SignatureShare = *s.sign(SignatureSchemes::Basic, &m).unwrap().as_raw_value();
                    let pk_share: <C as Pairing>::PublicKeyShare = s.public_key().unwrap().0;
                    inner_share!(out, &format!("signature {label}"), sig_share);
                    inner_share!(out, &format!("public key {label}"), pk_share);
                }
                inner_share!(out, "default", <C as Pairing>::SignatureShare::default());
                inner_share!(out, "default", <C as Pairing>::PublicKeyShare::default());
            }

            pub fn run(out: &mut Out, rng: &mut ChaCha20Rng) {
                signatures(out, rng);
                aggregates(out, rng);
                multisigs(out, rng);
                thresholds(out, rng);
                signcrypt(out, rng);
                signcrypt_shares(out, rng);
                timelock(out, rng);
                elgamal(out, rng);
                poks(out, rng);
                encodings(out, rng);
            }
        }
    };
}

/// InnerPointShareG1 / InnerPointShareG2, whichever the value is
pub trait InnerShare: Sized {
    const NAME: &'static str;
    fn record(self, out: &mut Out, imp: &str, label: &str);
}
impl InnerShare for InnerPointShareG1 {
    const NAME: &'static str = "InnerPointShareG1";
    fn record(self, out: &mut Out, imp: &str, label: &str) {
        enc!(out, imp, "InnerPointShareG1", InnerPointShareG1, None, label, self);
    }
}
impl InnerShare for InnerPointShareG2 {
    const NAME: &'static str = "InnerPointShareG2";
    fn record(self, out: &mut Out, imp: &str, label: &str) {
        enc!(out, imp, "InnerPointShareG2", InnerPointShareG2, None, label, self);
    }
}
macro_rules! inner_share {
    ($out:expr, $label:expr, $v:expr) => {
        InnerShare::record($v, $out, IMP, $label)
    };
}

gen_impl!(g1, Bls12381G1Impl, "g1");
gen_impl!(g2, Bls12381G2Impl, "g2");

fn main() {
    let path = std::env::args().nth(1).unwrap_or_else(|| "/verif/golden/corpus.json".to_string());
    let mut out = Out { items: vec![], skipped: vec![] };
    let mut rng = ChaCha20Rng::from_seed(*b"blsful golden corpus, C18 ......");
    g1::run(&mut out, &mut rng);
    g2::run(&mut out, &mut rng);
    plain_types(&mut out);

    let mut counts = std::collections::BTreeMap::<String, u64>::new();
    for it in &out.items {
        *counts.entry(it["kind"].as_str().unwrap().to_string()).or_insert(0) += 1;
    }
    let mut all = vec![json!({"kind": "meta", "producer": "blsful 2.5.7, commit 4bdca94 (pinned release), default (blst) backend, release profile",
        "generator": "/verif/harness/goldengen", "items": out.items.len(), "counts": counts,
        "conventions": "hex everywhere (json forms are the hex of the UTF-8 text); `expected` is the pinned release's own outcome: ok | err | plaintext hex | none | point hex"})];
    all.push(json!({"kind": "skipped", "comment": "encoded forms produced by the pinned release that the pinned release itself does not decode back to the same value; not part of the corpus",
        "forms": out.skipped}));
    all.extend(out.items);
    // one item per line
    let mut s = String::from("[\n");
    for (i, it) in all.iter().enumerate() {
        s.push_str(&serde_json::to_string(it).unwrap());
        s.push_str(if i + 1 < all.len() { ",\n" } else { "\n" });
    }
    s.push_str("]\n");
    std::fs::write(&path, &s).expect("write corpus");
    eprintln!("wrote {path}: {} items, {} bytes, {} skipped forms", all.len() - 2, s.len(), all[1]["forms"].as_array().unwrap().len());
    for (k, n) in all[0]["counts"].as_object().unwrap() {
        eprintln!("  {k}: {n}");
    }
    for f in all[1]["forms"].as_array().unwrap() {
        eprintln!("  skipped {f}");
    }
}
