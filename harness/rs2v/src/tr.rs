//! Function body -> Gallina: statements and control flow.
//!
//! A block becomes a term of type `M _`.  Mutation is let-shadowing; a branch or loop that
//! mutates outer variables passes them on as a tuple; `return` and `?` leave through `ret`.
use crate::funcs::{FnInfo, Table};
use crate::rty::{rty_of, RTy};
use std::collections::{BTreeSet, HashMap};
use syn::visit::Visit;

pub type R<T> = Result<T, String>;

#[derive(Clone, Debug)]
pub enum Bind {
    /// x <- m ;;
    M(String, String),
    /// let x := t in
    Let(String, String),
    /// match t with Err e => RET (Err e) | Ok x => .. end      (the `?` operator)
    Try(String, String),
    /// dassert dbg c ( .. )
    Assert(String),
}

#[derive(Clone, Debug)]
pub enum Tail {
    /// end of the function body: the value is returned
    FnRet,
    /// block in value position: yields its value and the listed mutated variables
    Yield(Vec<String>),
    /// statement block: falls through to this text (same scope)
    Then(String),
    /// statement block: falls through by calling a continuation with the mutated variables
    CallK(String, Vec<String>),
    /// loop body: next iteration with the mutated variables
    LoopNext(Vec<String>),
    /// branch whose value is bound by a `let`: continuation applied to (value, mutated variables)
    CallKV(String, Vec<String>),
}

pub struct Tr<'a> {
    pub table: &'a Table,
    pub f: &'a FnInfo,
    pub scopes: Vec<HashMap<String, RTy>>,
    pub fresh: usize,
    pub world: bool,
    /// values returned next to the result: generator parameters, then the world counter
    pub extras: Vec<String>,
    pub loop_depth: usize,
    pub value_depth: usize,
    pub pre: Vec<Bind>,
    /// variable -> the variable it mutably borrows (`let t = x.as_mut()`)
    pub alias: HashMap<String, String>,
    /// target type of the next serde_bare::from_slice (from a let annotation or `.map(Self)`)
    pub bare_hint: Option<RTy>,
}

const RESERVED: &[&str] = &[
    "at", "as", "in", "end", "fun", "match", "return", "type", "mod", "by", "for", "if", "then", "else", "let", "fix", "with", "where", "using",
    "self", "set", "exists", "forall", "bytes", "share", "enc", "pairing", "length", "repr", "sha", "xof", "fs", "eta", "peek", "frame", "rng", "hmap", "O",
    "C", "K", "E", "M", "N", "S", "res", "err", "flow", "bind", "bs", "app", "rev", "map", "combine", "firstn", "skipn", "repeat", "fst", "snd", "option", "list", "nat", "bool", "unit", "tt", "true", "false", "wld",
];

pub fn vname(s: &str) -> String {
    if RESERVED.contains(&s) {
        format!("{}_", s)
    } else {
        s.to_string()
    }
}

pub fn tuple_val(vars: &[String]) -> String {
    match vars.len() {
        0 => "tt".into(),
        1 => vars[0].clone(),
        _ => format!("({})", vars.join(", ")),
    }
}

pub fn tuple_pat(vars: &[String]) -> String {
    match vars.len() {
        0 => "_".into(),
        1 => vars[0].clone(),
        _ => format!("'({})", vars.join(", ")),
    }
}

pub fn translate_fn(table: &Table, f: &FnInfo) -> R<String> {
    let world = table.world.contains(&f.key());
    let mut tr = Tr { table, f, scopes: vec![HashMap::new()], fresh: 0, world, extras: vec![], loop_depth: 0, value_depth: 0, pre: vec![], alias: HashMap::new(), bare_hint: None };
    let mut binders = String::new();
    for (n, t) in f.params() {
        let c = t.coq().ok_or_else(|| format!("parameter `{}` has a type outside the translated fragment", n))?;
        let vn = vname(&n);
        binders.push_str(&format!(" ({} : {})", vn, c));
        if t == RTy::Rng {
            tr.extras.push(vn.clone());
        }
        tr.declare(&n, t);
    }
    if world {
        binders.push_str(" (wld : nat)");
        tr.extras.push("wld".into());
        tr.scopes[0].insert("wld".into(), RTy::Usize);
    }
    let ret = f.ret();
    let mut rc = ret.coq().ok_or_else(|| "return type outside the translated fragment".to_string())?;
    for e in &tr.extras {
        rc = format!("{} * {}", rc, if e == "wld" { "nat" } else { "rng" });
    }
    let body = tr.stmts(&f.block.stmts, &Tail::FnRet)?;
    Ok(format!(
        "Definition {} {{K : FieldOps}} (E : Env K){} : M ({}) :=\n{}.",
        f.coq_name(),
        binders,
        rc,
        indent(&body, 2)
    ))
}

pub fn indent(s: &str, n: usize) -> String {
    let pad = " ".repeat(n);
    s.lines().map(|l| format!("{}{}", pad, l)).collect::<Vec<_>>().join("\n")
}

/// variables mutated by a piece of code (by name; filtered by the caller)
struct Mutated<'t, 'a> {
    tr: &'t Tr<'a>,
    names: BTreeSet<String>,
    declared: BTreeSet<String>,
}

pub const MUT_RECV: &[&str] = &["push", "extend_from_slice", "update", "input_ikm", "append_message", "insert", "value_mut", "copy_from_slice", "fill_bytes", "read", "challenge_bytes"];

pub fn base_var(e: &syn::Expr) -> Option<String> {
    match e {
        syn::Expr::Path(p) if p.path.segments.len() == 1 && p.qself.is_none() => Some(p.path.segments[0].ident.to_string()),
        syn::Expr::Unary(u) => base_var(&u.expr),
        syn::Expr::Paren(p) => base_var(&p.expr),
        syn::Expr::Reference(r) => base_var(&r.expr),
        syn::Expr::Index(i) => base_var(&i.expr),
        syn::Expr::Field(f) => base_var(&f.base),
        syn::Expr::MethodCall(m) if m.method == "identifier_mut" || m.method == "as_mut" => base_var(&m.receiver),
        _ => None,
    }
}

impl<'t, 'a, 'ast> Visit<'ast> for Mutated<'t, 'a> {
    fn visit_expr_assign(&mut self, a: &'ast syn::ExprAssign) {
        if let Some(v) = base_var(&a.left) {
            self.names.insert(v);
        }
        syn::visit::visit_expr_assign(self, a);
    }
    fn visit_expr_binary(&mut self, b: &'ast syn::ExprBinary) {
        use syn::BinOp::*;
        if matches!(b.op, AddAssign(_) | SubAssign(_) | MulAssign(_) | BitXorAssign(_) | BitAndAssign(_) | BitOrAssign(_)) {
            if let Some(v) = base_var(&b.left) {
                self.names.insert(v);
            }
        }
        syn::visit::visit_expr_binary(self, b);
    }
    fn visit_expr_method_call(&mut self, m: &'ast syn::ExprMethodCall) {
        if MUT_RECV.contains(&m.method.to_string().as_str()) {
            if let Some(v) = base_var(&m.receiver) {
                self.names.insert(v);
            }
        }
        syn::visit::visit_expr_method_call(self, m);
    }
    fn visit_expr_reference(&mut self, r: &'ast syn::ExprReference) {
        if r.mutability.is_some() {
            if let Some(v) = base_var(&r.expr) {
                self.names.insert(v);
            }
        }
        syn::visit::visit_expr_reference(self, r);
    }
    fn visit_expr_call(&mut self, c: &'ast syn::ExprCall) {
        // a generator passed by value advances; the process entropy source advances
        for a in &c.args {
            if let Some(v) = base_var(a) {
                if self.tr.lookup(&v) == Some(RTy::Rng) {
                    self.names.insert(v);
                }
            }
        }
        if let syn::Expr::Path(p) = &*c.func {
            let s = quote::quote!(#p).to_string().replace(' ', "");
            if s.ends_with("get_crypto_rng") {
                self.names.insert("wld".into());
            }
            if let Some((t, f)) = crate::funcs::split_call_path(p) {
                if let Some(i) = self.tr.table.resolve(&self.tr.f.container, &t, &f) {
                    if self.tr.table.world.contains(&self.tr.table.fns[i].key()) {
                        self.names.insert("wld".into());
                    }
                }
            }
        }
        syn::visit::visit_expr_call(self, c);
    }
    fn visit_local(&mut self, l: &'ast syn::Local) {
        struct P<'x>(&'x mut BTreeSet<String>);
        impl<'x, 'ast> Visit<'ast> for P<'x> {
            fn visit_pat_ident(&mut self, i: &'ast syn::PatIdent) {
                self.0.insert(i.ident.to_string());
            }
        }
        P(&mut self.declared).visit_pat(&l.pat);
        syn::visit::visit_local(self, l);
    }
}

impl<'a> Tr<'a> {
    pub fn declare(&mut self, n: &str, t: RTy) {
        self.scopes.last_mut().unwrap().insert(n.to_string(), t);
    }
    pub fn lookup(&self, n: &str) -> Option<RTy> {
        for s in self.scopes.iter().rev() {
            if let Some(t) = s.get(n) {
                return Some(t.clone());
            }
        }
        None
    }
    pub fn tmp(&mut self, base: &str) -> String {
        self.fresh += 1;
        format!("{}_{}", base, self.fresh)
    }

    /// outer variables mutated inside the given statements / expression (Coq names)
    pub fn mutated_in_stmts(&self, stmts: &[syn::Stmt]) -> Vec<String> {
        let mut m = Mutated { tr: self, names: BTreeSet::new(), declared: BTreeSet::new() };
        for s in stmts {
            m.visit_stmt(s);
        }
        self.filter_mut(m)
    }
    pub fn mutated_in_expr(&self, e: &syn::Expr) -> Vec<String> {
        let mut m = Mutated { tr: self, names: BTreeSet::new(), declared: BTreeSet::new() };
        m.visit_expr(e);
        self.filter_mut(m)
    }
    fn filter_mut(&self, m: Mutated) -> Vec<String> {
        m.names.iter().filter(|n| !m.declared.contains(*n) && self.lookup(n).is_some()).map(|n| if n == "wld" { n.clone() } else { vname(n) }).collect()
    }

    /// the function's return of value `v`
    pub fn ret(&self, v: &str) -> R<String> {
        if self.value_depth > 0 {
            return Err("`return` or `?` inside a block in value position".into());
        }
        let full = if self.extras.is_empty() { v.to_string() } else { format!("({}, {})", v, self.extras.join(", ")) };
        Ok(if self.loop_depth > 0 { format!("Val (Ret {})", paren(&full)) } else { format!("Val {}", paren(&full)) })
    }

    pub fn take_pre(&mut self) -> Vec<Bind> {
        std::mem::take(&mut self.pre)
    }

    /// wrap `inner` in the given bindings
    pub fn wrap(&self, binds: &[Bind], inner: String) -> R<String> {
        let mut s = inner;
        for b in binds.iter().rev() {
            s = match b {
                Bind::M(p, m) => {
                    let mt = m.trim_start();
                    if mt.starts_with("if ") || mt.starts_with("let ") || mt.starts_with("fun ") {
                        format!("{} <- ({}) ;;\n{}", p, m, s)
                    } else {
                        format!("{} <- {} ;;\n{}", p, m, s)
                    }
                }
                Bind::Let(p, t) => format!("let {} := {} in\n{}", p, t, s),
                Bind::Try(p, t) => {
                    let r = self.ret("(Err e_)")?;
                    format!("match {} with\n| Err e_ => {}\n| Ok {} =>\n{}\nend", t, r, p, indent(&s, 2))
                }
                Bind::Assert(c) => format!("dassert (edbg E) {} (\n{})", paren(c), s),
            };
        }
        Ok(s)
    }

    fn fall(&self, tail: &Tail, value: Option<&str>) -> R<String> {
        Ok(match tail {
            Tail::FnRet => self.ret(value.unwrap_or("tt"))?,
            Tail::Yield(vars) => {
                let v = value.unwrap_or("tt");
                if vars.is_empty() {
                    format!("Val {}", paren(v))
                } else {
                    format!("Val ({}, {})", v, vars.join(", "))
                }
            }
            Tail::Then(t) => t.clone(),
            Tail::CallK(k, vars) => format!("{} {}", k, paren(&tuple_val(vars))),
            Tail::LoopNext(vars) => format!("Val (Next {})", paren(&tuple_val(vars))),
            Tail::CallKV(k, vars) => {
                let mut all = vec![value.unwrap_or("tt").to_string()];
                all.extend(vars.iter().cloned());
                format!("{} {}", k, paren(&tuple_val(&all)))
            }
        })
    }

    pub fn block(&mut self, b: &syn::Block, tail: &Tail) -> R<String> {
        self.scopes.push(HashMap::new());
        let r = self.stmts(&b.stmts, tail);
        self.scopes.pop();
        r
    }

    pub fn stmts(&mut self, stmts: &[syn::Stmt], tail: &Tail) -> R<String> {
        let Some((s, rest)) = stmts.split_first() else {
            return self.fall(tail, None);
        };
        let value_pos = rest.is_empty() && matches!(tail, Tail::FnRet | Tail::Yield(_) | Tail::CallKV(_, _));
        match s {
            syn::Stmt::Item(syn::Item::Const(_)) => self.stmts(rest, tail),
            syn::Stmt::Item(_) => Err("nested item".into()),
            syn::Stmt::Macro(m) => self.macro_stmt(&m.mac, rest, tail),
            syn::Stmt::Local(l) => self.local(l, rest, tail),
            syn::Stmt::Expr(e, semi) => {
                let e = strip(e);
                match e {
                    syn::Expr::If(i) => self.if_stmt(i, rest, tail, value_pos && semi.is_none(), None),
                    syn::Expr::Match(m) => self.match_stmt(m, rest, tail, value_pos && semi.is_none(), None),
                    syn::Expr::ForLoop(f) => self.for_stmt(f, rest, tail),
                    syn::Expr::While(w) => self.while_stmt(w, rest, tail),
                    syn::Expr::Return(r) => {
                        let v = match &r.expr {
                            Some(x) => self.expr(x)?.0,
                            None => "tt".into(),
                        };
                        let pre = self.take_pre();
                        let t = self.ret(&v)?;
                        self.wrap(&pre, t)
                    }
                    syn::Expr::Macro(m) => self.macro_stmt(&m.mac, rest, tail),
                    syn::Expr::Block(b) if !value_pos => {
                        // plain nested block: its lets are local, its mutations shadow
                        let mv = self.mutated_in_stmts(&b.block.stmts);
                        let rest_t = self.stmts(rest, tail)?;
                        let k = self.tmp("k");
                        let body = self.block(&b.block, &Tail::CallK(k.clone(), mv.clone()))?;
                        Ok(format!("let {} := fun {} =>\n{} in\n{}", k, tuple_pat_unit(&mv), indent(&rest_t, 2), body))
                    }
                    _ => {
                        if value_pos && semi.is_none() {
                            let (v, _) = self.expr(e)?;
                            let pre = self.take_pre();
                            let t = self.fall(tail, Some(&v))?;
                            self.wrap(&pre, t)
                        } else {
                            // expression for its effect
                            self.effect_stmt(e)?;
                            let pre = self.take_pre();
                            let r = self.stmts(rest, tail)?;
                            self.wrap(&pre, r)
                        }
                    }
                }
            }
        }
    }

    fn local(&mut self, l: &syn::Local, rest: &[syn::Stmt], tail: &Tail) -> R<String> {
        let (pat, ann) = match &l.pat {
            syn::Pat::Type(pt) => (&*pt.pat, Some(rty_of(&pt.ty, &self.f.generics))),
            p => (p, None),
        };
        let Some(init) = &l.init else {
            self.declare_pat(pat, ann.clone().unwrap_or(RTy::Unknown));
            return self.stmts(rest, tail);
        };
        if init.diverge.is_some() {
            return Err("let-else".into());
        }
        let e = strip(&init.expr);
        // `let p = match s { .. => v, .. => return .. }` : the arms that yield bind p and go on
        if contains_return(e) {
            match e {
                syn::Expr::Match(m) => return self.match_stmt(m, rest, tail, false, Some((pat, ann))),
                syn::Expr::If(i) => return self.if_stmt(i, rest, tail, false, Some((pat, ann))),
                _ => return Err("`return` inside a let initialiser".into()),
            }
        }
        if let (syn::Expr::MethodCall(mc), syn::Pat::Ident(pi)) = (e, pat) {
            if mc.method == "as_mut" {
                if let Some(target) = base_var(&mc.receiver) {
                    self.alias.insert(pi.ident.to_string(), target);
                }
            }
        }
        if let Some(a) = &ann {
            if *a != RTy::Unknown && quote::quote!(#e).to_string().contains("serde_bare :: from_slice") {
                self.bare_hint = Some(a.clone());
            }
        }
        let saved_pre_len = self.pre.len();
        let attempt = self.expr(e);
        let (v, ty) = match attempt {
            Ok(x) => x,
            Err(msg) if matches!(e, syn::Expr::If(_) | syn::Expr::Match(_)) && msg.starts_with("effect inside") => {
                // branches with effects: the statement form, binding the pattern in a continuation
                self.pre.truncate(saved_pre_len);
                self.bare_hint = None;
                return match e {
                    syn::Expr::Match(m) => self.match_stmt(m, rest, tail, false, Some((pat, ann))),
                    syn::Expr::If(i) => self.if_stmt(i, rest, tail, false, Some((pat, ann))),
                    _ => unreachable!(),
                };
            }
            Err(msg) => return Err(msg),
        };
        self.bare_hint = None;
        let pre = self.take_pre();
        let ty = match ann {
            Some(t) if t != RTy::Unknown => t,
            _ => ty,
        };
        let p = self.pat(pat, &ty)?;
        let r = self.stmts(rest, tail)?;
        let mut binds = pre;
        binds.push(Bind::Let(p, v));
        self.wrap(&binds, r)
    }

    /// declare the variables of a pattern; returns the Coq pattern
    pub fn pat(&mut self, p: &syn::Pat, ty: &RTy) -> R<String> {
        Ok(match p {
            syn::Pat::Ident(i) => {
                if i.subpat.is_some() {
                    return Err("@ pattern".into());
                }
                let n = i.ident.to_string();
                self.declare(&n, ty.clone());
                vname(&n)
            }
            syn::Pat::Wild(_) => "_".into(),
            syn::Pat::Reference(r) => self.pat(&r.pat, ty)?,
            syn::Pat::Paren(pp) => self.pat(&pp.pat, ty)?,
            syn::Pat::Type(pt) => {
                let t = rty_of(&pt.ty, &self.f.generics);
                self.pat(&pt.pat, &t)?
            }
            syn::Pat::Tuple(t) => {
                let mut parts = vec![];
                for (k, e) in t.elems.iter().enumerate() {
                    let et = match ty {
                        RTy::Tuple(ts) if k < ts.len() => ts[k].clone(),
                        _ => RTy::Unknown,
                    };
                    parts.push(self.pat(e, &et)?);
                }
                if parts.len() == 1 {
                    parts.remove(0)
                } else {
                    // Rust tuples are flat, Coq pairs nest to the left: (a, b, c) is ((a, b), c) in both notations
                    format!("'({})", parts.iter().map(|x| x.trim_start_matches('\'').to_string()).collect::<Vec<_>>().join(", "))
                }
            }
            syn::Pat::TupleStruct(ts) => {
                let name = ts.path.segments.last().unwrap().ident.to_string();
                {
                    let segs: Vec<String> = ts.path.segments.iter().map(|s| s.ident.to_string()).collect();
                    let owner = if segs[0] == "Self" { self.f.container.clone() } else { segs[0].clone() };
                    if segs.len() == 2 && matches!(crate::wrappers::wrapper(&owner), Some(crate::wrappers::WKind::CurveTagged)) {
                        if let Some(c) = crate::wrappers::curve_ctor(&segs[1]) {
                            let inner = self.pat(&ts.elems[0], &RTy::W("SecretKey".into()))?;
                            return Ok(format!("({}, {})", c, inner.trim_start_matches('\'')));
                        }
                    }
                }
                if let Some((ctor, payload)) = self.variant_ctor(&ts.path) {
                    let mut parts = vec![];
                    for e in &ts.elems {
                        parts.push(self.pat(e, &payload)?.trim_start_matches('\'').to_string());
                    }
                    return Ok(format!("({} {})", ctor, parts.join(" ")));
                }
                let inner = match ty {
                    RTy::Opt(t) | RTy::Res(t) => (**t).clone(),
                    _ => RTy::Unknown,
                };
                let mut parts = vec![];
                for e in &ts.elems {
                    let x = self.pat(e, &inner)?.trim_start_matches('\'').to_string();
                    parts.push(if x.contains(' ') && !x.starts_with('(') { format!("({})", x) } else { x });
                }
                match name.as_str() {
                    "Some" | "Ok" | "Err" => format!("{} {}", name, parts.join(" ")),
                    _ => return Err(format!("pattern constructor `{}`", name)),
                }
            }
            syn::Pat::Struct(ps) => {
                // ProofOfKnowledge::Basic { u, v }
                let segs: Vec<String> = ps.path.segments.iter().map(|s| s.ident.to_string()).collect();
                let owner = if segs[0] == "Self" { self.f.container.clone() } else { segs[0].clone() };
                if segs.len() == 2 && matches!(crate::wrappers::wrapper(&owner), Some(crate::wrappers::WKind::Pok)) {
                    let sc = crate::wrappers::scheme_ctor(&segs[1]).ok_or("scheme variant")?;
                    let mut u = "_".to_string();
                    let mut v = "_".to_string();
                    for fp in &ps.fields {
                        let n = match &fp.member {
                            syn::Member::Named(i) => i.to_string(),
                            _ => return Err("pattern field".into()),
                        };
                        let p = self.pat(&fp.pat, &RTy::SigPt)?;
                        match n.as_str() {
                            "u" => u = p,
                            "v" => v = p,
                            _ => return Err("pattern field".into()),
                        }
                    }
                    return Ok(format!("(mkpok {} {} {})", sc, u, v));
                }
                return Err("struct pattern".into());
            }
            syn::Pat::Path(pp) => {
                let name = pp.path.segments.last().unwrap().ident.to_string();
                let first = pp.path.segments.first().unwrap().ident.to_string();
                if first == "SignatureSchemes" {
                    return crate::wrappers::scheme_ctor(&name).map(|s| s.to_string()).ok_or_else(|| "scheme variant".to_string());
                }
                if first == "Bls12381" {
                    return crate::wrappers::curve_ctor(&name).map(|s| s.to_string()).ok_or_else(|| "curve variant".to_string());
                }
                match name.as_str() {
                    "None" => "None".into(),
                    _ => return Err(format!("pattern path `{}`", name)),
                }
            }
            syn::Pat::Lit(l) => {
                let e = syn::Expr::Lit(syn::ExprLit { attrs: vec![], lit: l.lit.clone() });
                self.expr(&e)?.0
            }
            _ => return Err("pattern form".into()),
        })
    }

    /// `Signature::Basic` / `Self::Basic` of a scheme-tagged enum: (constructor applied to the scheme, payload type)
    pub fn variant_ctor(&self, path: &syn::Path) -> Option<(String, RTy)> {
        let segs: Vec<String> = path.segments.iter().map(|s| s.ident.to_string()).collect();
        if segs.len() != 2 {
            return None;
        }
        let owner = if segs[0] == "Self" { self.f.container.clone() } else { segs[0].clone() };
        if let Some(crate::wrappers::WKind::Tagged(_, ctor, payload)) = crate::wrappers::wrapper(&owner) {
            let sc = crate::wrappers::scheme_ctor(&segs[1])?;
            return Some((format!("{} {}", ctor, sc), payload));
        }
        None
    }

    fn declare_pat(&mut self, p: &syn::Pat, ty: RTy) {
        let _ = self.pat(p, &ty);
    }

    /// debug_assert!, debug_assert_eq!, panic!-like macros in statement position
    fn macro_stmt(&mut self, mac: &syn::Macro, rest: &[syn::Stmt], tail: &Tail) -> R<String> {
        let name = mac.path.segments.last().unwrap().ident.to_string();
        let args: Vec<syn::Expr> = mac
            .parse_body_with(syn::punctuated::Punctuated::<syn::Expr, syn::Token![,]>::parse_terminated)
            .map_err(|e| format!("macro {}!: {}", name, e))?
            .into_iter()
            .collect();
        match name.as_str() {
            "debug_assert_eq" | "debug_assert" => {
                let cond = if name == "debug_assert" {
                    self.expr(&args[0])?.0
                } else {
                    // peephole: `c.unwrap_u8() == 0u8` is `!c`, `== 1u8` is `c`
                    let lit = lit_int(&args[1]);
                    match (strip(&args[0]), lit) {
                        (syn::Expr::MethodCall(m), Some(0)) if m.method == "unwrap_u8" => format!("negb {}", paren(&self.expr(&m.receiver)?.0)),
                        (syn::Expr::MethodCall(m), Some(1)) if m.method == "unwrap_u8" => self.expr(&m.receiver)?.0,
                        _ => {
                            let a = self.expr(&args[0])?.0;
                            let b = self.expr(&args[1])?.0;
                            format!("rs_eqb {} {}", paren(&a), paren(&b))
                        }
                    }
                };
                let mut pre = self.take_pre();
                pre.push(Bind::Assert(cond));
                let r = self.stmts(rest, tail)?;
                self.wrap(&pre, r)
            }
            "assert" | "assert_eq" => Err("assert! (a panic in every build) is outside the fragment".into()),
            "matches" if rest.is_empty() => {
                let e = syn::Expr::Macro(syn::ExprMacro { attrs: vec![], mac: mac.clone() });
                let (v, _) = self.expr(&e)?;
                let pre = self.take_pre();
                let t = self.fall(tail, Some(&v))?;
                self.wrap(&pre, t)
            }
            _ => Err(format!("macro `{}!` in statement position", name)),
        }
    }

    fn branch_tail(&mut self, rest: &[syn::Stmt], tail: &Tail, falls: &[bool], blocks_nonempty: &[bool], mv: &[String], bind: &Option<String>) -> R<(Tail, Option<(String, String)>)> {
        // how the branches continue, and an optional `let k := ..` header (name, definition)
        let n_fall = falls.iter().filter(|x| **x).count();
        if n_fall == 0 {
            return Ok((tail.clone(), None));
        }
        let rest_t = self.stmts(rest, tail)?;
        let single_trivial = n_fall == 1 && bind.is_none() && falls.iter().zip(blocks_nonempty).all(|(f, ne)| !*f || !*ne);
        if single_trivial {
            return Ok((Tail::Then(rest_t), None));
        }
        let k = self.tmp("k");
        let mut vars: Vec<String> = vec![];
        if let Some(b) = bind {
            vars.push(b.clone());
        }
        vars.extend(mv.iter().cloned());
        let def = format!("fun {} =>\n{}", tuple_pat_unit(&vars), indent(&rest_t, 2));
        Ok((Tail::CallK(k.clone(), mv.to_vec()), Some((k, def))))
    }

    /// `if` in statement or value position.  `bind`: the `let` pattern the value is bound to.
    pub fn if_stmt(&mut self, i: &syn::ExprIf, rest: &[syn::Stmt], tail: &Tail, value_pos: bool, bind: Option<(&syn::Pat, Option<RTy>)>) -> R<String> {
        // condition
        let (head, pre) = match strip(&i.cond) {
            syn::Expr::Let(l) => {
                let (v, ty) = self.expr(&l.expr)?;
                let pre = self.take_pre();
                self.scopes.push(HashMap::new());
                let ptxt = self.pat(&l.pat, &ty);
                self.scopes.pop();
                (IfHead::Let(v, ty, (*l.pat).clone(), ptxt?.trim_start_matches('\'').to_string()), pre)
            }
            c => {
                let v = self.expr(c)?.0;
                let pre = self.take_pre();
                (IfHead::Cond(v), pre)
            }
        };
        let else_stmts: Vec<syn::Stmt> = match &i.else_branch {
            None => vec![],
            Some((_, e)) => match strip(e) {
                syn::Expr::Block(b) => b.block.stmts.clone(),
                other => vec![syn::Stmt::Expr(other.clone(), None)],
            },
        };
        let then_stmts = &i.then_branch.stmts;
        let text = if value_pos {
            let a = self.scoped_head(&head, then_stmts, tail)?;
            let b = self.scoped(&else_stmts, tail)?;
            head.render(&a, &b)
        } else if let Some((pat, ann)) = bind {
            // value of the falling branches is bound to `pat`, then the rest
            let falls = [!diverges(then_stmts), !diverges(&else_stmts)];
            let mut mv = self.mutated_in_stmts(then_stmts);
            for x in self.mutated_in_stmts(&else_stmts) {
                if !mv.contains(&x) {
                    mv.push(x);
                }
            }
            let bv = self.tmp("v");
            self.scopes.push(HashMap::new());
            let p = self.pat(pat, &ann.unwrap_or(RTy::Unknown))?;
            let rest_t = self.stmts(rest, tail);
            self.scopes.pop();
            let rest_t = rest_t?;
            let k = self.tmp("k");
            let mut vars = vec![bv.clone()];
            vars.extend(mv.iter().cloned());
            let def = format!("fun {} =>\nlet {} := {} in\n{}", tuple_pat_unit(&vars), p, bv, indent(&rest_t, 2));
            let t2 = Tail::CallK(k.clone(), mv.clone());
            let a = if falls[0] { self.scoped_head_value(&head, then_stmts, &t2)? } else { self.scoped_head(&head, then_stmts, tail)? };
            let b = if falls[1] { self.scoped_value(&else_stmts, &t2)? } else { self.scoped(&else_stmts, tail)? };
            format!("let {} := {} in\n{}", k, def, head.render(&a, &b))
        } else {
            let falls = [!diverges(then_stmts), !diverges(&else_stmts)];
            let nonempty = [!then_stmts.is_empty(), !else_stmts.is_empty()];
            let mut mv = self.mutated_in_stmts(then_stmts);
            for x in self.mutated_in_stmts(&else_stmts) {
                if !mv.contains(&x) {
                    mv.push(x);
                }
            }
            let (t2, header) = self.branch_tail(rest, tail, &falls, &nonempty, &mv, &None)?;
            let a = self.scoped_head(&head, then_stmts, &t2)?;
            let b = self.scoped(&else_stmts, &t2)?;
            let body = head.render(&a, &b);
            match header {
                Some((k, def)) => format!("let {} := {} in\n{}", k, def, body),
                None => body,
            }
        };
        self.wrap(&pre, text)
    }

    fn scoped(&mut self, stmts: &[syn::Stmt], tail: &Tail) -> R<String> {
        self.scopes.push(HashMap::new());
        let r = self.stmts(stmts, tail);
        self.scopes.pop();
        r
    }

    /// statements whose final value is passed to a continuation `k (value, mutated..)`
    fn scoped_value(&mut self, stmts: &[syn::Stmt], tail: &Tail) -> R<String> {
        let Tail::CallK(k, mv) = tail else { return Err("internal: scoped_value".into()) };
        self.scopes.push(HashMap::new());
        let r = self.stmts_value_k(stmts, k, mv);
        self.scopes.pop();
        r
    }

    fn stmts_value_k(&mut self, stmts: &[syn::Stmt], k: &str, mv: &[String]) -> R<String> {
        self.stmts(stmts, &Tail::CallKV(k.to_string(), mv.to_vec()))
    }

    fn scoped_head(&mut self, head: &IfHead, stmts: &[syn::Stmt], tail: &Tail) -> R<String> {
        self.scopes.push(HashMap::new());
        if let IfHead::Let(_, ty, pat, _) = head {
            let _ = self.pat(pat, ty)?;
        }
        let r = self.stmts(stmts, tail);
        self.scopes.pop();
        r
    }
    fn scoped_head_value(&mut self, head: &IfHead, stmts: &[syn::Stmt], tail: &Tail) -> R<String> {
        let Tail::CallK(k, mv) = tail else { return Err("internal: scoped_head_value".into()) };
        self.scopes.push(HashMap::new());
        if let IfHead::Let(_, ty, pat, _) = head {
            let _ = self.pat(pat, ty)?;
        }
        let r = self.stmts_value_k(stmts, k, mv);
        self.scopes.pop();
        r
    }

    pub fn match_stmt(&mut self, m: &syn::ExprMatch, rest: &[syn::Stmt], tail: &Tail, value_pos: bool, bind: Option<(&syn::Pat, Option<RTy>)>) -> R<String> {
        let (sv, sty) = self.expr(&m.expr)?;
        let pre = self.take_pre();
        let arm_stmts: Vec<Vec<syn::Stmt>> = m
            .arms
            .iter()
            .map(|a| match strip(&a.body) {
                syn::Expr::Block(b) => b.block.stmts.clone(),
                other => vec![syn::Stmt::Expr(other.clone(), None)],
            })
            .collect();
        let falls: Vec<bool> = arm_stmts.iter().map(|s| !diverges(s)).collect();
        let nonempty: Vec<bool> = arm_stmts.iter().map(|s| !s.is_empty()).collect();
        let mut mv: Vec<String> = vec![];
        for s in &arm_stmts {
            for x in self.mutated_in_stmts(s) {
                if !mv.contains(&x) {
                    mv.push(x);
                }
            }
        }
        let mut header = None;
        let mut value_k: Option<(String, Vec<String>)> = None;
        let t2 = if value_pos {
            tail.clone()
        } else if let Some((pat, ann)) = &bind {
            let bv = self.tmp("v");
            self.scopes.push(HashMap::new());
            let p = self.pat(pat, &ann.clone().unwrap_or(RTy::Unknown))?;
            let rest_t = self.stmts(rest, tail);
            self.scopes.pop();
            let rest_t = rest_t?;
            let k = self.tmp("k");
            let mut vars = vec![bv.clone()];
            vars.extend(mv.iter().cloned());
            header = Some((k.clone(), format!("fun {} =>\nlet {} := {} in\n{}", tuple_pat_unit(&vars), p, bv, indent(&rest_t, 2))));
            value_k = Some((k.clone(), mv.clone()));
            Tail::CallK(k, mv.clone())
        } else {
            let (t2, h) = self.branch_tail(rest, tail, &falls, &nonempty, &mv, &None)?;
            header = h;
            t2
        };
        // the wildcard arm's text, for guards
        let mut arms_txt: Vec<(String, String)> = vec![];
        let mut wild_body: Option<String> = None;
        // translate last wildcard first so guards can refer to it
        if let Some(last) = m.arms.last() {
            if matches!(last.pat, syn::Pat::Wild(_)) && last.guard.is_none() {
                let k = m.arms.len() - 1;
                let b = if value_k.is_some() && falls[k] {
                    let (kn, kmv) = value_k.clone().unwrap();
                    self.scopes.push(HashMap::new());
                    let r = self.stmts_value_k(&arm_stmts[k], &kn, &kmv);
                    self.scopes.pop();
                    r?
                } else {
                    self.scoped(&arm_stmts[k], if falls[k] { &t2 } else { tail })?
                };
                wild_body = Some(b);
            }
        }
        for (k, a) in m.arms.iter().enumerate() {
            if k == m.arms.len() - 1 && wild_body.is_some() {
                arms_txt.push(("_".into(), wild_body.clone().unwrap()));
                continue;
            }
            self.scopes.push(HashMap::new());
            let p = self.pat(&a.pat, &sty);
            let body = match &p {
                Err(_) => Err(String::new()),
                Ok(_) => {
                    if value_k.is_some() && falls[k] {
                        let (kn, kmv) = value_k.clone().unwrap();
                        self.stmts_value_k(&arm_stmts[k], &kn, &kmv)
                    } else {
                        self.stmts(&arm_stmts[k], if falls[k] { &t2 } else { tail })
                    }
                }
            };
            let guard = match (&p, &a.guard) {
                (Ok(_), Some((_, g))) => Some(self.expr(g).map(|x| x.0)),
                _ => None,
            };
            self.scopes.pop();
            let p = p?;
            let mut body = body?;
            if let Some(g) = guard {
                let g = g?;
                if !self.pre.is_empty() {
                    return Err("effect in a match guard".into());
                }
                let Some(w) = &wild_body else { return Err("match guard without a final wildcard arm".into()) };
                body = format!("if {} then\n{}\nelse\n{}", g, indent(&body, 2), indent(w, 2));
            }
            arms_txt.push((p.trim_start_matches('\'').to_string(), body));
        }
        let mut s = format!("match {} with\n", sv);
        for (p, b) in arms_txt {
            s.push_str(&format!("| {} =>\n{}\n", p, indent(&b, 2)));
        }
        s.push_str("end");
        if let Some((k, def)) = header {
            s = format!("let {} := {} in\n{}", k, def, s);
        }
        self.wrap(&pre, s)
    }

    fn for_stmt(&mut self, f: &syn::ExprForLoop, rest: &[syn::Stmt], tail: &Tail) -> R<String> {
        let (lv, lty) = self.expr(&f.expr)?;
        let pre = self.take_pre();
        let ety = match lty {
            RTy::List(t) => *t,
            RTy::Bytes => RTy::U8,
            _ => RTy::Unknown,
        };
        let mv = self.mutated_in_stmts(&f.body.stmts);
        let rest_t = self.stmts(rest, tail)?;
        self.scopes.push(HashMap::new());
        let p = self.pat(&f.pat, &ety);
        self.loop_depth += 1;
        let body = match &p {
            Ok(_) => self.stmts(&f.body.stmts, &Tail::LoopNext(mv.clone())),
            Err(e) => Err(e.clone()),
        };
        self.loop_depth -= 1;
        self.scopes.pop();
        let p = p?;
        let body = body?;
        let text = format!(
            "rs_for {} {}\n  (fun {} {} =>\n{})\n  (fun {} =>\n{})",
            paren(&lv),
            paren(&tuple_val(&mv)),
            tuple_pat_unit(&mv),
            if p.starts_with('\'') || !p.contains(' ') { p.clone() } else { format!("({})", p) },
            indent(&body, 4),
            tuple_pat_unit(&mv),
            indent(&rest_t, 4)
        );
        self.wrap(&pre, text)
    }

    fn while_stmt(&mut self, w: &syn::ExprWhile, rest: &[syn::Stmt], tail: &Tail) -> R<String> {
        let mv = self.mutated_in_stmts(&w.body.stmts);
        let rest_t = self.stmts(rest, tail)?;
        let c = self.expr(&w.cond)?.0;
        if !self.pre.is_empty() {
            self.pre.clear();
            return Err("effect in a while condition".into());
        }
        self.loop_depth += 1;
        let body = self.block(&w.body, &Tail::LoopNext(mv.clone()));
        self.loop_depth -= 1;
        let body = body?;
        Ok(format!(
            "rs_while {}\n  (fun {} => {})\n  (fun {} =>\n{})\n  (fun {} =>\n{})",
            paren(&tuple_val(&mv)),
            tuple_pat_unit(&mv),
            c,
            tuple_pat_unit(&mv),
            indent(&body, 4),
            tuple_pat_unit(&mv),
            indent(&rest_t, 4)
        ))
    }
}

pub enum IfHead {
    Cond(String),
    Let(String, RTy, syn::Pat, String),
}

impl IfHead {
    fn render(&self, a: &str, b: &str) -> String {
        match self {
            IfHead::Cond(c) => format!("if {} then\n{}\nelse\n{}", c, indent(a, 2), indent(b, 2)),
            IfHead::Let(v, _, _, p) => {
                format!("match {} with\n| {} =>\n{}\n| _ =>\n{}\nend", v, p, indent(a, 2), indent(b, 2))
            }
        }
    }
}

/// textual Coq pattern of an `if let` pattern (variables keep their names)
fn pat_text(p: &syn::Pat) -> String {
    match p {
        syn::Pat::Ident(i) => vname(&i.ident.to_string()),
        syn::Pat::Wild(_) => "_".into(),
        syn::Pat::Reference(r) => pat_text(&r.pat),
        syn::Pat::Paren(pp) => pat_text(&pp.pat),
        syn::Pat::Tuple(t) => format!("({})", t.elems.iter().map(pat_text).collect::<Vec<_>>().join(", ")),
        syn::Pat::TupleStruct(ts) => format!("{} {}", ts.path.segments.last().unwrap().ident, ts.elems.iter().map(pat_text).collect::<Vec<_>>().join(" ")),
        syn::Pat::Path(pp) => pp.path.segments.last().unwrap().ident.to_string(),
        _ => "_".into(),
    }
}

pub fn tuple_pat_unit(vars: &[String]) -> String {
    if vars.is_empty() {
        "(_ : unit)".into()
    } else {
        tuple_pat(vars)
    }
}

pub fn paren(s: &str) -> String {
    let t = s.trim();
    let simple = t.chars().all(|c| c.is_alphanumeric() || c == '_' || c == '\'' || c == '.' || c == '%');
    if simple || (t.starts_with('(') && matching_close(t) == Some(t.len() - 1)) || (t.starts_with('[') && t.ends_with(']') && !t.contains("++")) {
        t.to_string()
    } else {
        format!("({})", t)
    }
}

fn matching_close(t: &str) -> Option<usize> {
    let mut d = 0i32;
    for (i, c) in t.char_indices() {
        if c == '(' {
            d += 1;
        } else if c == ')' {
            d -= 1;
            if d == 0 {
                return Some(i);
            }
        }
    }
    None
}

pub fn strip(e: &syn::Expr) -> &syn::Expr {
    match e {
        syn::Expr::Paren(p) => strip(&p.expr),
        syn::Expr::Group(g) => strip(&g.expr),
        _ => e,
    }
}

pub fn lit_int(e: &syn::Expr) -> Option<u128> {
    if let syn::Expr::Lit(l) = strip(e) {
        if let syn::Lit::Int(i) = &l.lit {
            return i.base10_parse::<u128>().ok();
        }
    }
    None
}

pub fn diverges(stmts: &[syn::Stmt]) -> bool {
    match stmts.last() {
        Some(syn::Stmt::Expr(e, _)) => match strip(e) {
            syn::Expr::Return(_) => true,
            syn::Expr::If(i) => match &i.else_branch {
                Some((_, e)) => {
                    diverges(&i.then_branch.stmts)
                        && match strip(e) {
                            syn::Expr::Block(b) => diverges(&b.block.stmts),
                            other => diverges(&[syn::Stmt::Expr(other.clone(), None)]),
                        }
                }
                None => false,
            },
            syn::Expr::Match(m) => m.arms.iter().all(|a| match strip(&a.body) {
                syn::Expr::Block(b) => diverges(&b.block.stmts),
                other => diverges(&[syn::Stmt::Expr(other.clone(), None)]),
            }),
            _ => false,
        },
        _ => false,
    }
}

pub fn contains_return(e: &syn::Expr) -> bool {
    struct V(bool, bool);
    impl<'ast> Visit<'ast> for V {
        fn visit_expr_return(&mut self, _: &'ast syn::ExprReturn) {
            self.0 = true;
        }
        fn visit_expr_try(&mut self, _: &'ast syn::ExprTry) {
            if self.1 {
                self.0 = true;
            }
        }
        fn visit_expr_closure(&mut self, _: &'ast syn::ExprClosure) {}
    }
    let mut v = V(false, matches!(e, syn::Expr::Match(_) | syn::Expr::If(_)));
    v.visit_expr(e);
    v.0
}
