//! Simplified Rust types, as far as the translated functions use them, and their Coq rendering.
#[derive(Clone, Debug, PartialEq)]
pub enum RTy {
    PkPt,
    SigPt,
    GtPt,
    Scalar,
    Bytes,
    PkShare,
    SigShare,
    SkShare,
    U64,
    U128,
    Usize,
    U8,
    I8,
    Bool,
    Unit,
    Rng,
    Scheme,
    Curve,
    /// a wrapper type of src/*.rs, by its Rust name
    W(String),
    Opt(Box<RTy>),
    Res(Box<RTy>),
    List(Box<RTy>),
    Tuple(Vec<RTy>),
    Unknown,
}

impl RTy {
    pub fn coq(&self) -> Option<String> {
        Some(match self {
            RTy::PkPt => "(pt K Gpk)".into(),
            RTy::SigPt => "(pt K Gsig)".into(),
            RTy::GtPt => "(pt K Gt)".into(),
            RTy::Scalar => "(car K)".into(),
            RTy::Bytes => "bytes".into(),
            RTy::PkShare | RTy::SigShare | RTy::SkShare => "share".into(),
            RTy::U64 | RTy::U128 | RTy::U8 | RTy::I8 => "N".into(),
            RTy::Usize => "nat".into(),
            RTy::Bool => "bool".into(),
            RTy::Unit => "unit".into(),
            RTy::Rng => "rng".into(),
            RTy::Scheme => "scheme".into(),
            RTy::Curve => "curve".into(),
            RTy::W(n) => return crate::wrappers::coq_type(n),
            RTy::Opt(t) => format!("(option {})", t.coq()?),
            RTy::Res(t) => format!("(res {})", t.coq()?),
            RTy::List(t) => format!("(list {})", t.coq()?),
            RTy::Tuple(ts) => {
                if ts.is_empty() {
                    "unit".into()
                } else {
                    let mut parts = vec![];
                    for t in ts {
                        parts.push(t.coq()?);
                    }
                    format!("({})%type", parts.join(" * "))
                }
            }
            RTy::Unknown => return None,
        })
    }
}

fn norm(t: &syn::Type) -> String {
    quote::quote!(#t).to_string().replace(' ', "")
}

/// `generics`: names of generic parameters with their bounds, rendered without blanks
pub fn rty_of(t: &syn::Type, generics: &[(String, String)]) -> RTy {
    match t {
        syn::Type::Reference(r) => return rty_of(&r.elem, generics),
        syn::Type::Paren(p) => return rty_of(&p.elem, generics),
        syn::Type::Tuple(tt) => {
            if tt.elems.is_empty() {
                return RTy::Unit;
            }
            return RTy::Tuple(tt.elems.iter().map(|e| rty_of(e, generics)).collect());
        }
        syn::Type::Slice(s) => {
            let e = rty_of(&s.elem, generics);
            return if e == RTy::U8 { RTy::Bytes } else { RTy::List(Box::new(e)) };
        }
        syn::Type::Array(a) => {
            let e = rty_of(&a.elem, generics);
            return if e == RTy::U8 { RTy::Bytes } else { RTy::List(Box::new(e)) };
        }
        syn::Type::ImplTrait(_) => {
            let s = norm(t);
            if s.contains("RngCore") || s.contains("CryptoRng") {
                return RTy::Rng;
            }
            return RTy::Unknown;
        }
        _ => {}
    }
    let s = norm(t);
    match s.as_str() {
        "Self::PublicKey" | "<SelfasPairing>::PublicKey" | "<CasPairing>::PublicKey" | "C::PublicKey" => return RTy::PkPt,
        "Self::Signature" | "<SelfasPairing>::Signature" | "<CasPairing>::Signature" | "C::Signature" => return RTy::SigPt,
        "Self::PairingResult" => return RTy::GtPt,
        "<Self::PublicKeyasGroup>::Scalar" | "<Self::SignatureasGroup>::Scalar" | "<<CasPairing>::PublicKeyasGroup>::Scalar"
        | "<<CasPairing>::SignatureasGroup>::Scalar" | "Scalar" => return RTy::Scalar,
        "Self" if generics.iter().any(|(g, b)| g == "Self" && (b == "[u8]" || b == "Vec<u8>")) => return RTy::Bytes,
        // `type Output = Self` of the operator impls
        "Self::Output" if generics.iter().any(|(g, b)| g == "Self" && crate::wrappers::wrapper(b).is_some()) => {
            let b = generics.iter().find(|(g, _)| g == "Self").unwrap().1.clone();
            return RTy::W(b);
        }
        "Self::SecretKeyShare" | "<CasPairing>::SecretKeyShare" => return RTy::SkShare,
        "Self::PublicKeyShare" | "<CasPairing>::PublicKeyShare" => return RTy::PkShare,
        "Self::SignatureShare" | "<SelfasPairing>::SignatureShare" | "<CasPairing>::SignatureShare" => return RTy::SigShare,
        "u64" => return RTy::U64,
        "usize" => return RTy::Usize,
        "u8" => return RTy::U8,
        "i8" => return RTy::I8,
        "bool" | "Choice" => return RTy::Bool,
        "Vec<u8>" => return RTy::Bytes,
        _ => {}
    }
    if let syn::Type::Path(p) = t {
        let last = p.path.segments.last().unwrap();
        let name = last.ident.to_string();
        let arg0 = || -> Option<RTy> {
            if let syn::PathArguments::AngleBracketed(a) = &last.arguments {
                for g in &a.args {
                    if let syn::GenericArgument::Type(t) = g {
                        return Some(rty_of(t, generics));
                    }
                }
            }
            None
        };
        match name.as_str() {
            "Option" | "CtOption" => return RTy::Opt(Box::new(arg0().unwrap_or(RTy::Unknown))),
            "BlsResult" | "Result" => return RTy::Res(Box::new(arg0().unwrap_or(RTy::Unknown))),
            "Vec" => return RTy::List(Box::new(arg0().unwrap_or(RTy::Unknown))),
            _ => {}
        }
        if name == "SignatureSchemes" {
            return RTy::Scheme;
        }
        if name == "Bls12381" {
            return RTy::Curve;
        }
        if crate::wrappers::wrapper(&name).is_some() {
            return RTy::W(name);
        }
        if name == "Self" && p.path.segments.len() == 1 {
            for (g, b) in generics {
                if g == "Self" {
                    return RTy::W(b.clone());
                }
            }
        }
        // generic parameter
        if p.path.segments.len() == 1 {
            for (g, bound) in generics {
                if *g == name {
                    if bound.contains("AsRef<[u8]>") {
                        return RTy::Bytes;
                    }
                    if let Some(pos) = bound.find("AsRef<[") {
                        let inner = &bound[pos + "AsRef<[".len()..];
                        if let Some(end) = inner.rfind("]>") {
                            if let Ok(ty) = syn::parse_str::<syn::Type>(&inner[..end]) {
                                return RTy::List(Box::new(rty_of(&ty, generics)));
                            }
                        }
                    }
                    if let Some(pos) = bound.find("Iterator<Item=") {
                        let inner = &bound[pos + "Iterator<Item=".len()..];
                        // strip the closing '>' of Iterator<...>
                        let inner = inner.trim_end_matches('>');
                        if let Ok(ty) = syn::parse_str::<syn::Type>(inner) {
                            return RTy::List(Box::new(rty_of(&ty, generics)));
                        }
                        if let Ok(ty) = syn::parse_str::<syn::Type>(&format!("{}>", inner)) {
                            return RTy::List(Box::new(rty_of(&ty, generics)));
                        }
                    }
                    if bound.contains("RngCore") || bound.contains("CryptoRng") {
                        return RTy::Rng;
                    }
                }
            }
        }
    }
    RTy::Unknown
}
