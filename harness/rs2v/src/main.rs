//! rs2v: regenerates Coq definitions from /repo/src on every run (DESIGN.md section 4).
//!
//! Phase 1 (this file): constants, transcript labels and serde layouts.
//!   rs2v <repo/src dir> <out dir>   writes  Consts.v  and  Shapes.v
//! The output is compared with the hand-written model by coq/Refine/*.v (reflexivity), so that a
//! change of a tag, salt, label, label order, field order or variant order in the source breaks a
//! proof obligation even when it is applied consistently to producer and consumer.
use std::collections::BTreeMap;
use std::fmt::Write as _;
use syn::visit::Visit;

mod funcs;
mod rty;
mod tr;
mod trexpr;
mod wrappers;

fn bytes_lit(b: &[u8]) -> String {
    let mut s = String::from("[");
    for (i, x) in b.iter().enumerate() {
        if i > 0 {
            s.push_str("; ");
        }
        write!(s, "{}", x).unwrap();
    }
    s.push_str("]%N");
    s
}

fn ident_of_type(t: &syn::Type) -> String {
    quote::quote!(#t).to_string().replace(' ', "")
}

struct ConstCollector {
    /// (qualified name, bytes)
    consts: Vec<(String, Vec<u8>)>,
    ctx: Vec<String>,
}

impl ConstCollector {
    fn record(&mut self, name: &str, expr: &syn::Expr) {
        fn lit_bytes(e: &syn::Expr) -> Option<Vec<u8>> {
            match e {
                syn::Expr::Lit(l) => match &l.lit {
                    syn::Lit::ByteStr(b) => Some(b.value()),
                    _ => None,
                },
                syn::Expr::Reference(r) => lit_bytes(&r.expr),
                syn::Expr::Array(a) => {
                    let mut v = vec![];
                    for el in &a.elems {
                        if let syn::Expr::Lit(l) = el {
                            if let syn::Lit::Int(i) = &l.lit {
                                v.push(i.base10_parse::<u8>().ok()?);
                                continue;
                            }
                        }
                        return None;
                    }
                    Some(v)
                }
                _ => None,
            }
        }
        if let Some(b) = lit_bytes(expr) {
            let q = if self.ctx.is_empty() { name.to_string() } else { format!("{}__{}", self.ctx.join("__"), name) };
            self.consts.push((q, b));
        }
    }
}

impl<'ast> Visit<'ast> for ConstCollector {
    fn visit_item_impl(&mut self, i: &'ast syn::ItemImpl) {
        let ty = ident_of_type(&i.self_ty);
        let tr = i.trait_.as_ref().map(|(_, p, _)| p.segments.last().unwrap().ident.to_string()).unwrap_or_default();
        self.ctx.push(format!("{}_{}", ty, tr).replace(['<', '>', ':', ','], "_"));
        syn::visit::visit_item_impl(self, i);
        self.ctx.pop();
    }
    fn visit_item_trait(&mut self, i: &'ast syn::ItemTrait) {
        self.ctx.push(i.ident.to_string());
        syn::visit::visit_item_trait(self, i);
        self.ctx.pop();
    }
    fn visit_impl_item_fn(&mut self, i: &'ast syn::ImplItemFn) {
        self.ctx.push(i.sig.ident.to_string());
        syn::visit::visit_impl_item_fn(self, i);
        self.ctx.pop();
    }
    fn visit_trait_item_fn(&mut self, i: &'ast syn::TraitItemFn) {
        self.ctx.push(i.sig.ident.to_string());
        syn::visit::visit_trait_item_fn(self, i);
        self.ctx.pop();
    }
    fn visit_item_fn(&mut self, i: &'ast syn::ItemFn) {
        self.ctx.push(i.sig.ident.to_string());
        syn::visit::visit_item_fn(self, i);
        self.ctx.pop();
    }
    fn visit_item_const(&mut self, i: &'ast syn::ItemConst) {
        self.record(&i.ident.to_string(), &i.expr);
    }
    fn visit_item_mod(&mut self, m: &'ast syn::ItemMod) {
        // test modules and the verification hooks are not part of the library's behaviour
        let a = attrs_string(&m.attrs);
        if a.contains("cfg (test)") || a.contains("blsful_verif") {
            return;
        }
        syn::visit::visit_item_mod(self, m);
    }
    fn visit_impl_item_const(&mut self, i: &'ast syn::ImplItemConst) {
        self.record(&i.ident.to_string(), &i.expr);
    }
}

/// ordered byte-string literals passed to merlin calls, per enclosing function
struct LabelCollector {
    cur: String,
    labels: BTreeMap<String, Vec<(String, Vec<u8>)>>,
}

impl<'ast> Visit<'ast> for LabelCollector {
    fn visit_trait_item_fn(&mut self, i: &'ast syn::TraitItemFn) {
        self.cur = i.sig.ident.to_string();
        syn::visit::visit_trait_item_fn(self, i);
    }
    fn visit_expr_method_call(&mut self, m: &'ast syn::ExprMethodCall) {
        let name = m.method.to_string();
        if name == "append_message" || name == "challenge_bytes" {
            if let Some(syn::Expr::Lit(l)) = m.args.first() {
                if let syn::Lit::ByteStr(b) = &l.lit {
                    self.labels.entry(self.cur.clone()).or_default().push((name.clone(), b.value()));
                }
            }
        }
        syn::visit::visit_expr_method_call(self, m);
    }
    fn visit_expr_call(&mut self, c: &'ast syn::ExprCall) {
        let f = quote::quote!(#c).to_string();
        if f.contains("Transcript :: new") {
            if let Some(syn::Expr::Lit(l)) = c.args.first() {
                if let syn::Lit::ByteStr(b) = &l.lit {
                    self.labels.entry(self.cur.clone()).or_default().push(("new".into(), b.value()));
                }
            }
        }
        syn::visit::visit_expr_call(self, c);
    }
}

/// serde layout of a field type, as a Coq `shape` term (in a context where `C : Impl` is bound)
fn shape_of_type(ty: &str, attrs: &str) -> Option<String> {
    let t = ty.replace(' ', "");
    let a = attrs.replace(' ', "");
    if a.contains("traits::signature::") || t == "<CasPairing>::Signature" {
        return Some("SFixed (SIG_LEN C)".into());
    }
    if a.contains("traits::public_key::") || t == "<CasPairing>::PublicKey" {
        return Some("SFixed (PK_LEN C)".into());
    }
    if a.contains("traits::scalar::") {
        return Some("SFixed 32".into());
    }
    if a.contains("traits::secret_key_share::") {
        return Some("SFixed 33".into());
    }
    if a.contains("traits::public_key_share::") || t == "<CasPairing>::PublicKeyShare" {
        return Some("SFixed (S (PK_LEN C))".into());
    }
    if t == "<CasPairing>::SignatureShare" {
        return Some("SFixed (S (SIG_LEN C))".into());
    }
    match t.as_str() {
        "Vec<u8>" => Some("SBytes".into()),
        "[u8;32]" => Some("SFixed 32".into()),
        "[u8;49]" => Some("SFixed 49".into()),
        "[u8;97]" => Some("SFixed 97".into()),
        "u64" => Some("SU64".into()),
        "SignatureSchemes" => Some("SU8".into()),
        "ElGamalCiphertext<C>" => Some("gen_sh_ElGamalCiphertext C".into()),
        "ProofOfKnowledge<C>" => Some("gen_sh_ProofOfKnowledge C".into()),
        _ => None,
    }
}

fn attrs_string(attrs: &[syn::Attribute]) -> String {
    attrs.iter().map(|a| quote::quote!(#a).to_string()).collect::<Vec<_>>().join(" ")
}

fn fields_shape(fields: &syn::Fields) -> Result<String, String> {
    let mut parts = vec![];
    for f in fields.iter() {
        let ty = ident_of_type(&f.ty);
        let at = attrs_string(&f.attrs);
        match shape_of_type(&ty, &at) {
            Some(s) => parts.push(s),
            None => return Err(format!("untranslatable field type `{}`", ty)),
        }
    }
    if parts.is_empty() {
        return Err("no fields".into());
    }
    // right-nested pairs in field order
    let mut it = parts.into_iter().rev();
    let mut acc = it.next().unwrap();
    for p in it {
        acc = format!("SPair ({}) ({})", p, acc);
    }
    Ok(acc)
}

fn has_serde_derive(attrs: &[syn::Attribute]) -> bool {
    attrs_string(attrs).contains("Serialize")
}

struct ShapeCollector {
    out: Vec<(String, Result<String, String>)>,
    discriminants: Vec<(String, Vec<(String, Option<String>)>)>,
    /// named fields of every serde struct, in declaration order (the positional binary forms depend on it even
    /// when neighbouring fields have the same layout)
    fields: Vec<(String, Vec<String>)>,
}

impl<'ast> Visit<'ast> for ShapeCollector {
    fn visit_item_struct(&mut self, s: &'ast syn::ItemStruct) {
        if has_serde_derive(&s.attrs) {
            let names: Vec<String> = s.fields.iter().filter_map(|f| f.ident.as_ref().map(|i| i.to_string())).collect();
            if !names.is_empty() {
                self.fields.push((s.ident.to_string(), names));
            }
        }
        if has_serde_derive(&s.attrs) && s.generics.params.iter().count() > 0 {
            self.out.push((s.ident.to_string(), fields_shape(&s.fields)));
        } else if has_serde_derive(&s.attrs) && (s.ident == "InnerPointShareG1" || s.ident == "InnerPointShareG2") {
            self.out.push((s.ident.to_string(), fields_shape(&s.fields)));
        }
    }
    fn visit_item_enum(&mut self, e: &'ast syn::ItemEnum) {
        let mut vs = vec![];
        for v in &e.variants {
            vs.push((v.ident.to_string(), v.discriminant.as_ref().map(|(_, d)| quote::quote!(#d).to_string())));
        }
        self.discriminants.push((e.ident.to_string(), vs));
        if has_serde_derive(&e.attrs) && e.generics.params.iter().count() > 0 {
            // all variants must carry the same payload layout
            let mut shapes = vec![];
            for v in &e.variants {
                shapes.push(fields_shape(&v.fields));
            }
            let first = shapes[0].clone();
            let r = if shapes.iter().all(|s| *s == first) {
                first.map(|p| format!("SEnum {} ({})", e.variants.len(), p))
            } else {
                Err("variants with different payload layouts".into())
            };
            self.out.push((e.ident.to_string(), r));
        }
    }
}

fn walk(dir: &std::path::Path, files: &mut Vec<std::path::PathBuf>) {
    let mut ents: Vec<_> = std::fs::read_dir(dir).unwrap().map(|e| e.unwrap().path()).collect();
    ents.sort();
    for p in ents {
        if p.is_dir() {
            walk(&p, files);
        } else if p.extension().map(|e| e == "rs").unwrap_or(false) {
            files.push(p);
        }
    }
}

fn main() {
    let args: Vec<String> = std::env::args().collect();
    let src = std::path::PathBuf::from(&args[1]);
    let out = std::path::PathBuf::from(&args[2]);
    std::fs::create_dir_all(&out).unwrap();
    let mut files = vec![];
    walk(&src, &mut files);
    let mut cc = ConstCollector { consts: vec![], ctx: vec![] };
    let mut lc = LabelCollector { cur: String::new(), labels: BTreeMap::new() };
    let mut sc = ShapeCollector { out: vec![], discriminants: vec![], fields: vec![] };
    let mut parsed = vec![];
    for f in &files {
        let text = std::fs::read_to_string(f).unwrap();
        let ast = syn::parse_file(&text).unwrap_or_else(|e| panic!("cannot parse {}: {}", f.display(), e));
        cc.ctx = vec![f.file_stem().unwrap().to_string_lossy().to_string()];
        cc.visit_file(&ast);
        if f.ends_with("traits/elgamal.rs") {
            lc.visit_file(&ast);
        }
        sc.visit_file(&ast);
        parsed.push((f.strip_prefix(&src).unwrap().to_string_lossy().to_string(), ast));
    }

    // ---- Consts.v
    let mut s = String::new();
    s.push_str("(* GENERATED by rs2v from /repo/src on every run. Do not edit. *)\nFrom BV Require Import Sem.Base.\nLocal Open Scope N_scope.\n\n");
    cc.consts.sort();
    for (n, b) in &cc.consts {
        writeln!(s, "Definition {} : bytes := {}.  (* {:?} *)", n.replace(['<', '>', ':'], "_"), bytes_lit(b), String::from_utf8_lossy(b)).unwrap();
    }
    s.push_str("\n(* merlin calls in source order: (method, label) *)\n");
    for (f, ls) in &lc.labels {
        let items: Vec<String> = ls.iter().map(|(m, b)| format!("({}, {})", bytes_lit(m.as_bytes()), bytes_lit(b))).collect();
        writeln!(s, "Definition labels_{} : list (bytes * bytes) := [{}].", f, items.join("; ")).unwrap();
    }
    s.push_str("\n(* enum variants in source order with their explicit discriminants *)\n");
    for (e, vs) in &sc.discriminants {
        let items: Vec<String> = vs
            .iter()
            .map(|(v, d)| format!("({}, {})", bytes_lit(v.as_bytes()), match d { Some(x) => format!("Some {}", x.trim()), None => "None".into() }))
            .collect();
        writeln!(s, "Definition variants_{} : list (bytes * option N) := [{}].", e, items.join("; ")).unwrap();
    }
    s.push_str("\n(* named fields of the serde structs in declaration order *)\n");
    for (n, fs) in &sc.fields {
        let items: Vec<String> = fs.iter().map(|f| bytes_lit(f.as_bytes())).collect();
        writeln!(s, "Definition fields_{} : list bytes := [{}].", n, items.join("; ")).unwrap();
    }
    std::fs::write(out.join("Consts.v"), s).unwrap();

    // ---- Shapes.v
    let mut s = String::new();
    s.push_str("(* GENERATED by rs2v from /repo/src on every run. Do not edit. *)\nFrom BV Require Import Sem.Base Model.Core Model.Codec.\n\n");
    // dependency order: types referenced by others first
    let order = |n: &str| if n == "ElGamalCiphertext" || n == "ProofOfKnowledge" { 0 } else { 1 };
    let mut shapes = sc.out.clone();
    shapes.sort_by_key(|(n, _)| (order(n), n.clone()));
    for (n, r) in &shapes {
        match r {
            Ok(t) => writeln!(s, "Definition gen_sh_{} (C : Impl) : shape := {}.", n, t).unwrap(),
            Err(e) => writeln!(s, "(* untranslatable: {}: {} *)", n, e).unwrap(),
        }
    }
    std::fs::write(out.join("Shapes.v"), s).unwrap();

    // ---- function bodies (phase 2)
    funcs::emit(&parsed, &out);
}
