//! Function body -> Gallina: expressions, calls, methods.
use crate::rty::{rty_of, RTy};
use crate::tr::{base_var, lit_int, paren, strip, tuple_val, vname, Bind, Tail, Tr, R};

fn norm<T: quote::ToTokens>(t: &T) -> String {
    quote::quote!(#t).to_string().replace(' ', "")
}

const ERASE: &[&str] = &["as_ref", "as_slice", "clone", "to_vec", "into", "iter", "copied", "to_owned", "as_mut", "borrow", "into_iter", "collect", "as_mut_slice"];

fn bytes_lit(b: &[u8]) -> String {
    if !b.is_empty() && b.iter().all(|c| (0x20..0x7f).contains(c) && *c != b'"') {
        format!("(bs \"{}\")", String::from_utf8_lossy(b))
    } else {
        format!("[{}]%N", b.iter().map(|x| x.to_string()).collect::<Vec<_>>().join("; "))
    }
}

impl<'a> Tr<'a> {
    fn o(&self) -> &'static str {
        "(eO E)"
    }

    /// errors: `BlsError::X(..)` -> X
    fn err_ctor(&self, e: &syn::Expr) -> R<String> {
        let s = match strip(e) {
            syn::Expr::Call(c) => norm(&c.func),
            syn::Expr::Path(p) => norm(p),
            _ => return Err("error value form".into()),
        };
        let n = s.rsplit("::").next().unwrap().to_string();
        match n.as_str() {
            "SigningError" | "InvalidInputs" | "InvalidSignature" | "InvalidProof" | "InvalidSignatureScheme" | "InvalidDecryptionShare" | "VsssError" | "DeserializationError" => Ok(n),
            _ => Err(format!("error constructor `{}`", s)),
        }
    }

    pub fn expr(&mut self, e: &syn::Expr) -> R<(String, RTy)> {
        let e = strip(e);
        match e {
            syn::Expr::Lit(l) => match &l.lit {
                syn::Lit::Int(i) => {
                    let v: u128 = i.base10_parse().map_err(|_| "integer literal".to_string())?;
                    match i.suffix() {
                        "u8" => Ok((format!("{}%N", v), RTy::U8)),
                        "u64" => Ok((format!("{}%N", v), RTy::U64)),
                        "usize" => Ok((format!("{}%nat", v), RTy::Usize)),
                        "" => Ok((format!("(rs_num {}%N)", v), RTy::Unknown)),
                        s => Err(format!("literal suffix {}", s)),
                    }
                }
                syn::Lit::ByteStr(b) => Ok((bytes_lit(&b.value()), RTy::Bytes)),
                syn::Lit::Bool(b) => Ok((if b.value { "true".into() } else { "false".into() }, RTy::Bool)),
                _ => Err("literal form".into()),
            },
            syn::Expr::Path(p) => self.path_expr(p),
            syn::Expr::Reference(r) => self.expr(&r.expr),
            syn::Expr::Unary(u) => {
                let (v, t) = self.expr(&u.expr)?;
                match u.op {
                    syn::UnOp::Deref(_) => Ok((v, t)),
                    syn::UnOp::Neg(_) => Ok((format!("rs_neg {}", paren(&v)), t)),
                    syn::UnOp::Not(_) => Ok((format!("negb {}", paren(&v)), RTy::Bool)),
                    _ => Err("unary operator".into()),
                }
            }
            syn::Expr::Binary(b) => {
                use syn::BinOp::*;
                let (l, lt) = self.expr(&b.left)?;
                let n0 = self.pre.len();
                let (r, rt) = self.expr(&b.right)?;
                if matches!(b.op, And(_) | Or(_)) && self.pre.len() > n0 {
                    // short-circuit: the effects of the right operand happen only when it is evaluated
                    let extra: Vec<Bind> = self.pre.drain(n0..).collect();
                    let inner = self.wrap(&extra, format!("Val {}", paren(&r)))?;
                    let tmp = self.tmp("c");
                    let t = if matches!(b.op, And(_)) {
                        format!("if {} then\n{}\nelse Val false", l, crate::tr::indent(&inner, 2))
                    } else {
                        format!("if {} then Val true else\n{}", l, crate::tr::indent(&inner, 2))
                    };
                    self.pre.push(Bind::M(tmp.clone(), t));
                    return Ok((tmp, RTy::Bool));
                }
                let (l, r) = (paren(&l), paren(&r));
                if lt == RTy::I8 {
                    // two's-complement byte arithmetic of `impl IsZero for [u8]`
                    return match (&b.op, lit_int(&b.right)) {
                        (BitOr(_), _) => Ok((format!("N.lor {} {}", l, r), RTy::I8)),
                        (Shr(_), Some(7)) => Ok((format!("i8_sar7 {}", l), RTy::I8)),
                        (Add(_), Some(1)) => Ok((format!("i8_add1 {}", l), RTy::I8)),
                        _ => Err("i8 arithmetic outside the fragment".into()),
                    };
                }
                Ok(match b.op {
                    Mul(_) => (format!("rs_mul {} {}", l, r), if lt == RTy::Unknown { rt } else { lt }),
                    Add(_) => (format!("rs_add {} {}", l, r), if lt == RTy::Unknown { rt } else { lt }),
                    Sub(_) => (format!("rs_sub {} {}", l, r), if lt == RTy::Unknown { rt } else { lt }),
                    BitAnd(_) | And(_) => (format!("{} && {}", l, r), RTy::Bool),
                    BitOr(_) | Or(_) => (format!("{} || {}", l, r), RTy::Bool),
                    BitXor(_) => (format!("N.lxor {} {}", l, r), RTy::U8),
                    Eq(_) => (format!("rs_eqb {} {}", l, r), RTy::Bool),
                    Ne(_) => (format!("negb (rs_eqb {} {})", l, r), RTy::Bool),
                    Lt(_) => (format!("rs_ltb {} {}", l, r), RTy::Bool),
                    Le(_) => (format!("rs_leb {} {}", l, r), RTy::Bool),
                    Gt(_) => (format!("rs_ltb {} {}", r, l), RTy::Bool),
                    Ge(_) => (format!("rs_leb {} {}", r, l), RTy::Bool),
                    _ => return Err("binary operator".into()),
                })
            }
            syn::Expr::Tuple(t) => {
                if t.elems.is_empty() {
                    return Ok(("tt".into(), RTy::Unit));
                }
                let mut vs = vec![];
                let mut ts = vec![];
                for x in &t.elems {
                    let (v, ty) = self.expr(x)?;
                    vs.push(v);
                    ts.push(ty);
                }
                Ok((format!("({})", vs.join(", ")), RTy::Tuple(ts)))
            }
            syn::Expr::Array(a) => {
                let mut vs = vec![];
                let mut et = RTy::Unknown;
                for x in &a.elems {
                    let (v, ty) = self.expr(x)?;
                    vs.push(v);
                    et = ty;
                }
                let t = if et == RTy::U8 { RTy::Bytes } else { RTy::List(Box::new(et)) };
                Ok((format!("[{}]", vs.join("; ")), t))
            }
            syn::Expr::Repeat(r) => {
                if lit_int(&r.expr) != Some(0) {
                    return Err("array repeat of a non-zero value".into());
                }
                let n = match lit_int(&r.len) {
                    Some(n) => format!("{}%nat", n),
                    None => self.expr(&r.len)?.0,
                };
                Ok((format!("rs_vec_zeros {}", paren(&n)), RTy::Bytes))
            }
            syn::Expr::Macro(m) => {
                let name = m.mac.path.segments.last().unwrap().ident.to_string();
                if name == "vec" {
                    let toks = m.mac.tokens.to_string();
                    if toks.trim().is_empty() {
                        return Ok(("[]".into(), RTy::Unknown));
                    }
                    if let Ok(syn::Expr::Repeat(r)) = syn::parse_str::<syn::Expr>(&format!("[{}]", toks)) {
                        if lit_int(&r.expr) != Some(0) {
                            return Err("vec! of a non-zero value".into());
                        }
                        let n = self.expr(&r.len)?.0;
                        return Ok((format!("rs_vec_zeros {}", paren(&n)), RTy::Bytes));
                    }
                }
                if name == "matches" {
                    // matches!(e, p1 | p2 | ..)
                    struct MA(syn::Expr, syn::Pat);
                    impl syn::parse::Parse for MA {
                        fn parse(input: syn::parse::ParseStream) -> syn::Result<Self> {
                            let e: syn::Expr = input.parse()?;
                            let _: syn::Token![,] = input.parse()?;
                            let p = syn::Pat::parse_multi_with_leading_vert(input)?;
                            Ok(MA(e, p))
                        }
                    }
                    let ma: MA = syn::parse2(m.mac.tokens.clone()).map_err(|e| format!("matches!: {}", e))?;
                    let (sv, sty) = self.expr(&ma.0)?;
                    let pats: Vec<syn::Pat> = match ma.1 {
                        syn::Pat::Or(o) => o.cases.into_iter().collect(),
                        p => vec![p],
                    };
                    let mut s = format!("match {} with", sv);
                    for p in &pats {
                        self.scopes.push(Default::default());
                        let pt = self.pat(p, &sty);
                        self.scopes.pop();
                        s.push_str(&format!(" | {} => true", pt?.trim_start_matches('\'')));
                    }
                    s.push_str(" | _ => false end");
                    return Ok((format!("({})", s), RTy::Bool));
                }
                Err(format!("macro `{}!` in expression position", name))
            }
            syn::Expr::Cast(c) => {
                let (v, t) = self.expr(&c.expr)?;
                let to = rty_of(&c.ty, &self.f.generics);
                match (&t, &to) {
                    (RTy::U64, RTy::Usize) => Ok((format!("N.to_nat ({} mod USIZE)", paren(&v)), RTy::Usize)),
                    (RTy::U8, RTy::I8) => Ok((format!("N.land {} 255", paren(&v)), RTy::I8)),
                    (RTy::I8, RTy::U8) => Ok((v, RTy::U8)),
                    (RTy::U8, RTy::Usize) => Ok((format!("N.to_nat {}", paren(&v)), RTy::Usize)),
                    (RTy::U128, RTy::U64) => Ok((format!("{} mod 2 ^ 64", paren(&v)), RTy::U64)),
                    (RTy::Usize, RTy::U64) => Ok((format!("N.of_nat {}", paren(&v)), RTy::U64)),
                    (a, b) if a == b => Ok((v, to)),
                    _ => Err(format!("cast from {:?} to {:?}", t, to)),
                }
            }
            syn::Expr::Try(t) => self.try_expr(&t.expr),
            syn::Expr::Call(c) => self.call(c),
            syn::Expr::MethodCall(m) => self.method(m),
            syn::Expr::Field(f) => {
                let (v, t) = self.expr(&f.base)?;
                match (&f.member, &t) {
                    (syn::Member::Unnamed(i), RTy::U64) if i.index == 0 => Ok((v, RTy::U64)), // Uint(x).0
                    (syn::Member::Unnamed(i), RTy::W(n)) if i.index == 0 => match crate::wrappers::wrapper(n) {
                        Some(crate::wrappers::WKind::Newtype(inner)) => Ok((v, inner)),
                        _ => Err("field .0 of a non-newtype".into()),
                    },
                    (syn::Member::Named(id), RTy::W(n)) => match crate::wrappers::wrapper(n) {
                        Some(crate::wrappers::WKind::Record(_, _, fields)) => {
                            let fname = id.to_string();
                            match fields.iter().find(|(rn, _, _)| *rn == fname) {
                                Some((_, proj, ft)) => Ok((format!("{} {}", proj, paren(&v)), ft.clone())),
                                None => Err(format!("field `{}`", fname)),
                            }
                        }
                        _ => Err("named field of a non-record".into()),
                    },
                    _ => Err(format!("field access on {:?}", t)),
                }
            }
            syn::Expr::Struct(st) => {
                let segs: Vec<String> = st.path.segments.iter().map(|s| s.ident.to_string()).collect();
                let owner = if segs[0] == "Self" { self.f.container.clone() } else { segs[0].clone() };
                let mut given: Vec<(String, String)> = vec![];
                for fv in &st.fields {
                    let n = match &fv.member {
                        syn::Member::Named(i) => i.to_string(),
                        _ => return Err("struct literal member".into()),
                    };
                    given.push((n, self.expr(&fv.expr)?.0));
                }
                if st.rest.is_some() {
                    return Err("struct update syntax".into());
                }
                match crate::wrappers::wrapper(&owner) {
                    Some(crate::wrappers::WKind::Record(_, ctor, fields)) if segs.len() == 1 => {
                        let mut args = vec![];
                        for (rn, _, _) in &fields {
                            match given.iter().find(|(n, _)| n == rn) {
                                Some((_, v)) => args.push(paren(v)),
                                None => return Err(format!("struct literal lacks `{}`", rn)),
                            }
                        }
                        if given.len() != fields.len() {
                            return Err("struct literal with unknown fields".into());
                        }
                        Ok((format!("{} {}", ctor, args.join(" ")), RTy::W(owner)))
                    }
                    Some(crate::wrappers::WKind::Pok) if segs.len() == 2 => {
                        let sc = crate::wrappers::scheme_ctor(&segs[1]).ok_or("scheme variant")?;
                        let get = |k: &str| given.iter().find(|(n, _)| n == k).map(|(_, v)| paren(v));
                        match (get("u"), get("v")) {
                            (Some(u), Some(v)) if given.len() == 2 => Ok((format!("mkpok {} {} {}", sc, u, v), RTy::W(owner))),
                            _ => Err("ProofOfKnowledge literal".into()),
                        }
                    }
                    _ => Err(format!("struct literal `{}`", segs.join("::"))),
                }
            }
            syn::Expr::Index(ix) => {
                let (v, t) = self.expr(&ix.expr)?;
                if let syn::Expr::Range(r) = strip(&ix.index) {
                    let lo = match &r.start {
                        Some(s) => self.expr(s)?.0,
                        None => "0%nat".into(),
                    };
                    let hi = match &r.end {
                        Some(s) => self.expr(s)?.0,
                        None => format!("length {}", paren(&v)),
                    };
                    let tmp = self.tmp("sl");
                    self.pre.push(Bind::M(tmp.clone(), format!("rs_slice {} {} {}", paren(&v), paren(&lo), paren(&hi))));
                    return Ok((tmp, t));
                }
                let el = match &t {
                    RTy::List(e) => (**e).clone(),
                    RTy::Bytes => RTy::U8,
                    _ => RTy::Unknown,
                };
                let (i, _) = self.expr(&ix.index)?;
                let i = match lit_int(&ix.index) {
                    Some(n) => format!("{}%nat", n),
                    None => i,
                };
                let tmp = self.tmp("e");
                self.pre.push(Bind::M(tmp.clone(), format!("rs_index {} {}", paren(&v), paren(&i))));
                Ok((tmp, el))
            }
            syn::Expr::If(i) => self.cond_expr_if(i),
            syn::Expr::Match(m) => self.cond_expr_match(m),
            syn::Expr::Block(b) if matches!(b.block.stmts.as_slice(), [syn::Stmt::Expr(_, None)]) => {
                let [syn::Stmt::Expr(inner, None)] = b.block.stmts.as_slice() else { unreachable!() };
                self.expr(inner)
            }
            syn::Expr::Block(b) => {
                let mv = self.mutated_in_stmts(&b.block.stmts);
                self.value_depth += 1;
                let saved = self.take_pre();
                let t = self.block(&b.block, &Tail::Yield(mv.clone()));
                self.value_depth -= 1;
                self.pre = saved;
                let t = t?;
                let tmp = self.tmp("b");
                let mut vars = vec![tmp.clone()];
                vars.extend(mv);
                self.pre.push(Bind::M(format!("'{}", tuple_val(&vars)).replace("''", "'"), t));
                Ok((tmp, RTy::Unknown))
            }
            _ => Err(format!("expression form `{}`", short(&norm(e)))),
        }
    }

    fn path_expr(&mut self, p: &syn::ExprPath) -> R<(String, RTy)> {
        let segs: Vec<String> = p.path.segments.iter().map(|s| s.ident.to_string()).collect();
        let s = norm(p);
        if segs.len() == 1 && p.qself.is_none() {
            let n = &segs[0];
            if let Some(t) = self.lookup(n) {
                return Ok((vname(n), t));
            }
            if let Some(c) = self.f.consts.get(n) {
                return Ok((c.clone(), RTy::Bytes));
            }
            match n.as_str() {
                "None" => return Ok(("None".into(), RTy::Opt(Box::new(RTy::Unknown)))),
                "KEYGEN_SALT" => return Ok(("helpers__KEYGEN_SALT".into(), RTy::Bytes)),
                _ => {}
            }
            return Err(format!("unknown name `{}`", n));
        }
        let last = segs.last().unwrap().as_str();
        if segs.len() == 2 && segs[0] == "SignatureSchemes" {
            if let Some(sc) = crate::wrappers::scheme_ctor(last) {
                return Ok((sc.to_string(), RTy::Scheme));
            }
        }
        if segs.len() == 2 && segs[0] == "Bls12381" {
            if let Some(c) = crate::wrappers::curve_ctor(last) {
                return Ok((c.to_string(), RTy::Curve));
            }
        }
        if s == "u8::MAX" {
            return Ok(("255%N".into(), RTy::U8));
        }
        // associated constants of the scheme traits
        let tr_name = if let Some(q) = &p.qself {
            if q.position >= 1 {
                Some(segs[q.position - 1].clone())
            } else {
                None
            }
        } else if segs.len() == 2 && segs[0] == "Self" {
            Some(self.f.container.clone())
        } else {
            None
        };
        if let Some(t) = tr_name {
            let c = match (t.as_str(), last) {
                ("BlsSignatureBasic", "DST") => Some("DST_NUL"),
                ("BlsSignatureMessageAugmentation", "DST") => Some("DST_AUG"),
                ("BlsSignaturePop", "SIG_DST") => Some("DST_POPSIG"),
                ("BlsSignaturePop", "POP_DST") => Some("DST_POP"),
                ("BlsElGamal", "ENC_DST") => Some("ENC_DST"),
                _ => None,
            };
            if let Some(c) = c {
                return Ok((format!("({} (eC E))", c), RTy::Bytes));
            }
        }
        if last == "ZERO" && s.contains("Scalar") {
            return Ok(("(f0 K)".into(), RTy::Scalar));
        }
        Err(format!("path `{}`", s))
    }

    fn try_expr(&mut self, inner: &syn::Expr) -> R<(String, RTy)> {
        // `s.value_mut(buf).map_err(..)?` writes the share on success
        let mut core = strip(inner);
        let mut mapped: Option<String> = None;
        if let syn::Expr::MethodCall(m) = core {
            if m.method == "map_err" {
                if let Some(syn::Expr::Closure(c)) = m.args.first().map(strip) {
                    mapped = Some(self.err_ctor(&c.body)?);
                    core = strip(&m.receiver);
                }
            }
        }
        if let syn::Expr::MethodCall(m) = core {
            if m.method == "value_mut" {
                let sv = base_var(&m.receiver).ok_or("value_mut on a non-variable")?;
                let buf = self.expr(&m.args[0])?.0;
                let mut t = format!("share_value_mut {} {}", vname(&sv), paren(&buf));
                if let Some(e) = &mapped {
                    t = format!("rs_map_err ({}) {}", t, e);
                }
                self.pre.push(Bind::Try(vname(&sv), t));
                return Ok(("tt".into(), RTy::Unit));
            }
        }
        let (v, t) = self.expr(inner)?;
        let tmp = self.tmp("x");
        self.pre.push(Bind::Try(tmp.clone(), v));
        let it = match t {
            RTy::Res(t) => *t,
            _ => RTy::Unknown,
        };
        Ok((tmp, it))
    }

    /// if / match in expression position with pure branches
    fn cond_expr_if(&mut self, i: &syn::ExprIf) -> R<(String, RTy)> {
        let saved = self.take_pre();
        let r = (|| -> R<(String, RTy)> {
            let c = match strip(&i.cond) {
                syn::Expr::Let(_) => return Err("if-let in expression position".into()),
                c => self.expr(c)?.0,
            };
            let a = self.pure_block(&i.then_branch)?;
            let b = match &i.else_branch {
                Some((_, e)) => match strip(e) {
                    syn::Expr::Block(b) => self.pure_block(&b.block)?,
                    other => self.expr(other)?,
                },
                None => return Err("if without else in expression position".into()),
            };
            if !self.pre.is_empty() {
                return Err("effect inside a conditional expression".into());
            }
            Ok((format!("(if {} then {} else {})", c, a.0, b.0), a.1))
        })();
        let extra = self.take_pre();
        self.pre = saved;
        if r.is_ok() && !extra.is_empty() {
            return Err("effect inside a conditional expression".into());
        }
        r
    }

    fn pure_block(&mut self, b: &syn::Block) -> R<(String, RTy)> {
        match b.stmts.as_slice() {
            [syn::Stmt::Expr(e, None)] => self.expr(e),
            _ => Err("block with statements in expression position".into()),
        }
    }

    fn cond_expr_match(&mut self, m: &syn::ExprMatch) -> R<(String, RTy)> {
        let (sv, sty) = self.expr(&m.expr)?;
        let n0 = self.pre.len();
        let mut s = format!("match {} with", sv);
        let mut ty = RTy::Unknown;
        for a in &m.arms {
            if a.guard.is_some() {
                return Err("guard in a match expression".into());
            }
            self.scopes.push(Default::default());
            let p = self.pat(&a.pat, &sty);
            let v = match &p {
                Ok(_) => self.expr(&a.body),
                Err(e) => Err(e.clone()),
            };
            self.scopes.pop();
            let (v, t) = v?;
            ty = t;
            s.push_str(&format!(" | {} => {}", p?.trim_start_matches('\''), v));
        }
        s.push_str(" end");
        if self.pre.len() != n0 {
            return Err("effect inside a match expression".into());
        }
        Ok((format!("({})", s), ty))
    }

    /// a generator argument: a variable, `&mut var`, or a fresh one from the process source
    fn rng_arg(&mut self, a: &syn::Expr) -> R<String> {
        if let Some(v) = base_var(a) {
            if self.lookup(&v) == Some(RTy::Rng) {
                return Ok(vname(&v));
            }
        }
        if norm(a).ends_with("get_crypto_rng()") {
            if !self.world {
                return Err("internal: world".into());
            }
            let r = self.tmp("rng");
            self.pre.push(Bind::Let(format!("'({}, wld)", r), "world_rng (eent E) wld".into()));
            self.declare(&r, RTy::Rng);
            return Ok(r);
        }
        Err("generator argument form".into())
    }

    fn call(&mut self, c: &syn::ExprCall) -> R<(String, RTy)> {
        let syn::Expr::Path(p) = strip(&c.func) else { return Err("call of a non-path".into()) };
        let s = norm(p);
        let segs: Vec<String> = p.path.segments.iter().map(|x| x.ident.to_string()).collect();
        let last = segs.last().unwrap().as_str();
        let args: Vec<&syn::Expr> = c.args.iter().collect();
        // wrapper constructors: newtypes are erased, scheme-tagged variants build the model's records
        {
            let owner = if segs[0] == "Self" { self.f.container.clone() } else { segs[0].clone() };
            if segs.len() == 1 {
                if let Some(crate::wrappers::WKind::Newtype(_)) = crate::wrappers::wrapper(&owner) {
                    let (v, _) = self.expr(args[0])?;
                    return Ok((v, RTy::W(owner)));
                }
            }
            if segs.len() == 2 && matches!(crate::wrappers::wrapper(&owner), Some(crate::wrappers::WKind::CurveTagged)) {
                if let Some(c) = crate::wrappers::curve_ctor(&segs[1]) {
                    let (v, _) = self.expr(args[0])?;
                    return Ok((format!("({}, {})", c, v), RTy::W(owner)));
                }
                if segs[1] == "default" {
                    return Ok(("(CurveG1, f0 K)".into(), RTy::W(owner)));
                }
            }
            if segs.len() == 2 {
                if let Some((ctor, _)) = self.variant_ctor(&p.path) {
                    let (v, _) = self.expr(args[0])?;
                    return Ok((format!("{} {}", ctor, paren(&v)), RTy::W(owner)));
                }
            }
        }
        // free helper functions of src/helpers.rs and the vsss-rs entry points
        {
            let base = s.split("::<").next().unwrap_or(&s).to_string();
            match base.as_str() {
                "scalar_to_be_bytes" | "scalar_to_le_bytes" => {
                    let (v, _) = self.expr(args[0])?;
                    return Ok((format!("{} {} {}", base, self.o(), paren(&v)), RTy::Bytes));
                }
                "scalar_from_be_bytes" | "scalar_from_le_bytes" => {
                    let (v, _) = self.expr(args[0])?;
                    return Ok((format!("{} {} {}", base, self.o(), paren(&v)), RTy::Opt(Box::new(RTy::Scalar))));
                }
                "shamir::split_secret" => {
                    let th = self.expr(args[0])?.0;
                    let li = self.expr(args[1])?.0;
                    let sc = self.expr(args[2])?.0;
                    if matches!(strip(args[3]), syn::Expr::Reference(_)) {
                        return Err("split_secret with a borrowed generator".into());
                    }
                    let r = self.rng_arg(args[3])?;
                    let tmp = self.tmp("x");
                    self.pre.push(Bind::M(tmp.clone(), format!("vsss_split_secret {} {} {} {} (fst {}) (snd {})", self.o(), paren(&sc), paren(&th), paren(&li), r, r)));
                    return Ok((tmp, RTy::Res(Box::new(RTy::List(Box::new(RTy::SkShare))))));
                }
                "combine_shares" => {
                    let v = self.expr(args[0])?.0;
                    let tmp = self.tmp("x");
                    self.pre.push(Bind::M(tmp.clone(), format!("combine_secret_shares {} {}", self.o(), paren(&v))));
                    return Ok((tmp, RTy::Res(Box::new(RTy::Scalar))));
                }
                _ => {}
            }
        }
        // `<C as HashToScalar>::hash_to_scalar`, `<C as Pairing>::Signature::identity()` in the wrappers
        if s == "<CasHashToScalar>::hash_to_scalar" || s == "<TasHashToScalar>::hash_to_scalar" {
            let a = self.expr(args[0])?.0;
            let b = self.expr(args[1])?.0;
            let tmp = self.tmp("x");
            self.pre.push(Bind::M(tmp.clone(), format!("hash_to_scalar {} {} {}", self.o(), paren(&a), paren(&b))));
            return Ok((tmp, RTy::Scalar));
        }
        if s == "<CasPairing>::Signature::default" || s == "C::Signature::default" {
            return Ok(("(@pid K Gsig)".into(), RTy::SigPt));
        }
        if s == "C::PublicKey::default" || s == "<CasPairing>::PublicKey::default" {
            return Ok(("(@pid K Gpk)".into(), RTy::PkPt));
        }
        if s == "C::PublicKey::from_bytes" {
            let v = self.expr(args[0])?.0;
            return Ok((format!("dec_pk_pt {} {}", self.o(), paren(&v)), RTy::Opt(Box::new(RTy::PkPt))));
        }
        if s == "C::Signature::from_bytes" {
            let v = self.expr(args[0])?.0;
            return Ok((format!("dec_sig_pt {} {}", self.o(), paren(&v)), RTy::Opt(Box::new(RTy::SigPt))));
        }
        if s == "Option::from" {
            return self.expr(args[0]);
        }
        if s == "Bls12381::try_from" {
            let v = self.expr(args[0])?.0;
            return Ok((format!("rs_ok_or (curve_of_u8 {}) DeserializationError", paren(&v)), RTy::Res(Box::new(RTy::Curve))));
        }
        if s == "u8::from" {
            let (v, t) = self.expr(args[0])?;
            if t == RTy::Curve || t == RTy::Unknown {
                // (an argument of another type does not type-check against u8_of_curve)
                return Ok((format!("u8_of_curve {}", paren(&v)), RTy::U8));
            }
            return Err("u8::from of a non-curve value".into());
        }
        if s == "Vec::from" {
            // Vec::from(&wrapper) is the wrapper's byte form; Vec::from(array) is the array
            let (v, t) = self.expr(args[0])?;
            if let RTy::W(tn) = &t {
                if let Some(&i) = self.table.by_key.get(&format!("{}::to_vec_bytes", tn)) {
                    let callee = &self.table.fns[i];
                    let tmp = self.tmp("r");
                    self.pre.push(Bind::M(tmp.clone(), format!("{} E {}", callee.coq_name(), paren(&v))));
                    return Ok((tmp, RTy::Bytes));
                }
                return Err(format!("Vec::from of {}", tn));
            }
            return Ok((v, RTy::Bytes));
        }
        // SecretKey::<Bls12381G1Impl>::try_from(bytes): the byte conversion of the wrapper
        if segs.len() == 2 && segs[1] == "try_from" && crate::wrappers::wrapper(&segs[0]).is_some() && segs[0] != self.f.container {
            if let Some(&i) = self.table.by_key.get(&format!("{}::try_from_bytes", segs[0])) {
                let callee = &self.table.fns[i];
                let v = self.expr(args[0])?.0;
                let tmp = self.tmp("r");
                self.pre.push(Bind::M(tmp.clone(), format!("{} E {}", callee.coq_name(), paren(&v))));
                return Ok((tmp, callee.ret()));
            }
        }
        if s == "serde_bare::to_vec" {
            let (v, t) = self.expr(args[0])?;
            let key = bare_key(&t).ok_or_else(|| format!("serde_bare::to_vec of {:?}", t))?;
            return Ok((format!("bare_to_vec_{} {} (eC E) {}", key, self.o(), paren(&v)), RTy::Res(Box::new(RTy::Bytes))));
        }
        if s == "serde_bare::from_slice" {
            let v = self.expr(args[0])?.0;
            let target = self.bare_hint.take().unwrap_or_else(|| RTy::W(self.f.container.clone()));
            let key = bare_key(&target).ok_or_else(|| format!("serde_bare::from_slice into {:?}", target))?;
            return Ok((format!("bare_from_slice_{} {} (eC E) {}", key, self.o(), paren(&v)), RTy::Res(Box::new(target))));
        }
        // constructors
        match s.as_str() {
            "Ok" | "Some" => {
                let (v, t) = self.expr(args[0])?;
                let ty = if s == "Ok" { RTy::Res(Box::new(t)) } else { RTy::Opt(Box::new(t)) };
                return Ok((format!("{} {}", s, paren(&v)), ty));
            }
            "Err" => return Ok((format!("Err {}", self.err_ctor(args[0])?), RTy::Res(Box::new(RTy::Unknown)))),
            "CtOption::new" => {
                let (v, t) = self.expr(args[0])?;
                let cnd = self.choice(args[1])?;
                return Ok((format!("(if {} then Some {} else None)", cnd, paren(&v)), RTy::Opt(Box::new(t))));
            }
            "ConditionallySelectable::conditional_select" => {
                let (a, t) = self.expr(args[0])?;
                let b = self.expr(args[1])?.0;
                let cnd = self.choice(args[2])?;
                return Ok((format!("(if {} then {} else {})", cnd, b, a), t));
            }
            "SystemTime::now" => return Ok(("tt".into(), RTy::Unit)),
            "Choice::from" => {
                return Ok(match lit_int(args[0]) {
                    Some(0) => ("false".into(), RTy::Bool),
                    Some(1) => ("true".into(), RTy::Bool),
                    _ => {
                        let v = self.expr(args[0])?.0;
                        (format!("rs_eqb {} 1%N", paren(&v)), RTy::Bool)
                    }
                });
            }
            "hkdf::HkdfExtract::<sha2::Sha256>::new" => {
                let v = self.expr(args[0])?.0;
                return Ok((format!("hkdf_new {}", paren(&v)), RTy::Unknown));
            }
            "Scalar::from_okm" => {
                let v = self.expr(args[0])?.0;
                return Ok((format!("from_okm {} {}", self.o(), paren(&v)), RTy::Scalar));
            }
            "Vec::with_capacity" | "Vec::new" => return Ok(("[]".into(), RTy::Unknown)),
            "HashMap::new" => return Ok(("(@nil (bytes * nat))".into(), RTy::Unknown)),
            "Shake128::default" | "Sha256::default" => return Ok(("(@nil N)".into(), RTy::Bytes)),
            "Sha256::digest" => {
                let v = self.expr(args[0])?.0;
                return Ok((format!("sha {} {}", self.o(), paren(&v)), RTy::Bytes));
            }
            "merlin::Transcript::new" => {
                let v = self.expr(args[0])?.0;
                return Ok((format!("tr_new {}", paren(&v)), RTy::Unknown));
            }
            "uint_zigzag::Uint::from" => {
                let (v, t) = self.expr(args[0])?;
                if t != RTy::Usize {
                    return Err("Uint::from of a non-usize".into());
                }
                return Ok((format!("N.of_nat {}", paren(&v)), RTy::U64));
            }
            "uint_zigzag::Uint::peek" => {
                let v = self.expr(args[0])?.0;
                return Ok((format!("peek {}", paren(&v)), RTy::Opt(Box::new(RTy::Usize))));
            }
            "uint_zigzag::Uint::try_from" => {
                let v = self.expr(args[0])?.0;
                return Ok((format!("varint_dec {}", paren(&v)), RTy::Opt(Box::new(RTy::U64))));
            }
            "<[u8;32]>::try_from" => {
                let v = self.expr(args[0])?.0;
                return Ok((format!("rs_try_array 32 {}", paren(&v)), RTy::Res(Box::new(RTy::Bytes))));
            }
            "byte_xor" => {
                let a = self.expr(args[0])?.0;
                let b = self.expr(args[1])?.0;
                let tmp = self.tmp("x");
                self.pre.push(Bind::M(tmp.clone(), format!("byte_xor (edbg E) {} {}", paren(&a), paren(&b))));
                return Ok((tmp, RTy::Bytes));
            }
            "get_crypto_rng" => {
                let r = self.rng_arg(&syn::Expr::Call(c.clone()))?;
                return Ok((r, RTy::Rng));
            }
            "combine_shares_group" => {
                let (v, t) = self.expr(args[0])?;
                let (f, rt) = match t {
                    RTy::List(b) if *b == RTy::SigShare => ("rs_combine_sig", RTy::SigPt),
                    RTy::List(b) if *b == RTy::PkShare => ("rs_combine_pk", RTy::PkPt),
                    _ => return Err("combine_shares_group on shares of unknown kind".into()),
                };
                let tmp = self.tmp("x");
                self.pre.push(Bind::M(tmp.clone(), format!("{} {} {}", f, self.o(), paren(&v))));
                return Ok((tmp, RTy::Res(Box::new(rt))));
            }
            "<Sha256asDigest>::update" => return Err("hasher update in expression position".into()),
            _ => {}
        }
        if s.ends_with("Scalar::from_repr") {
            let v = self.expr(args[0])?.0;
            return Ok((format!("unrepr {} {}", self.o(), paren(&v)), RTy::Opt(Box::new(RTy::Scalar))));
        }
        if s.ends_with("Repr::default") {
            return Ok(("rs_vec_zeros 32%nat".into(), RTy::Bytes));
        }
        if s.starts_with("<[u8;") && s.ends_with("]>::try_from") {
            // <[u8; N]>::try_from(slice) with a const generic length
            let n = &s["<[u8;".len()..s.len() - "]>::try_from".len()];
            let nv = match n.parse::<u64>() {
                Ok(k) => format!("{}%nat", k),
                Err(_) => vname(n),
            };
            let v = self.expr(args[0])?.0;
            return Ok((format!("rs_try_array {} {}", nv, paren(&v)), RTy::Res(Box::new(RTy::Bytes))));
        }
        // group constants
        if last == "generator" || last == "identity" {
            let g = if s.contains("PublicKey") {
                ("Gpk", RTy::PkPt)
            } else if s.contains("Signature") {
                ("Gsig", RTy::SigPt)
            } else {
                return Err(format!("group of `{}`", s));
            };
            return Ok((format!("(@{} K {})", if last == "generator" { "pgen" } else { "pid" }, g.0), g.1));
        }
        if last == "random" && s.contains("Scalar") {
            let r = self.rng_arg(args[0])?;
            let x = self.tmp("x");
            self.pre.push(Bind::Let(format!("'({}, {})", x, r), format!("rng_random {} {}", self.o(), r)));
            return Ok((x, RTy::Scalar));
        }
        // primitives of the implementation traits
        if (segs.len() == 2 && segs[0] == "Self") || s.starts_with("Self::PublicKeyHasher::") {
            match last {
                "hash_to_point" if s.starts_with("Self::PublicKeyHasher::") => {
                    let a = self.expr(args[0])?.0;
                    let b = self.expr(args[1])?.0;
                    return Ok((format!("(@mkpt K Gpk (eta_pk {} {} {}))", self.o(), paren(&a), paren(&b)), RTy::PkPt));
                }
                "hash_to_point" => {
                    let a = self.expr(args[0])?.0;
                    let b = self.expr(args[1])?.0;
                    return Ok((format!("hash_to_point {} {} {}", self.o(), paren(&a), paren(&b)), RTy::SigPt));
                }
                "hash_to_scalar" => {
                    let a = self.expr(args[0])?.0;
                    let b = self.expr(args[1])?.0;
                    let tmp = self.tmp("x");
                    self.pre.push(Bind::M(tmp.clone(), format!("hash_to_scalar {} {} {}", self.o(), paren(&a), paren(&b))));
                    return Ok((tmp, RTy::Scalar));
                }
                "pairing" => {
                    let a = self.expr(args[0])?.0;
                    return Ok((format!("pairing {}", paren(&a)), RTy::GtPt));
                }
                "scalar_from_bytes_wide" => {
                    let a = self.expr(args[0])?.0;
                    return Ok((format!("rs_from_bytes_wide {} {}", self.o(), paren(&a)), RTy::Scalar));
                }
                _ => {}
            }
        }
        // share containers
        if last == "empty_share_with_capacity" {
            let cap = if s.contains("PublicKeyShare") {
                "(PK_LEN (eC E))"
            } else if s.contains("SignatureShare") {
                "(SIG_LEN (eC E))"
            } else {
                return Err("share kind".into());
            };
            let _ = self.expr(args[0])?; // the size hint is ignored by the array containers
            let ty = if s.contains("PublicKeyShare") { RTy::PkShare } else { RTy::SigShare };
            return Ok((format!("share_empty {}", cap), ty));
        }
        // translated functions
        if let Some((t, f)) = crate::funcs::split_call_path(p) {
            if let Some(i) = self.table.resolve(&self.f.container, &t, &f) {
                let callee = &self.table.fns[i];
                let params = callee.params();
                if params.len() != args.len() {
                    return Err(format!("arity of {}", callee.key()));
                }
                let mut avs = vec![];
                let mut outs = vec![];
                for ((_, pt), a) in params.iter().zip(args.iter()) {
                    if *pt == RTy::Rng {
                        let r = self.rng_arg(a)?;
                        outs.push(r.clone());
                        avs.push(r);
                    } else {
                        avs.push(paren(&self.expr(a)?.0));
                    }
                }
                let callee_world = self.table.world.contains(&callee.key());
                if callee_world {
                    avs.push("wld".into());
                    outs.push("wld".into());
                }
                let tmp = self.tmp("r");
                let pat = if outs.is_empty() { tmp.clone() } else { format!("'({}, {})", tmp, outs.join(", ")) };
                self.pre.push(Bind::M(pat, format!("{} E {}", callee.coq_name(), avs.join(" "))));
                return Ok((tmp, callee.ret()));
            }
        }
        Err(format!("call of `{}`", short(&s)))
    }

    /// a `Choice` argument: expression, or `0u8.into()` / `1u8.into()`
    fn choice(&mut self, e: &syn::Expr) -> R<String> {
        if let syn::Expr::MethodCall(m) = strip(e) {
            if m.method == "into" {
                if let Some(v) = lit_int(&m.receiver) {
                    return Ok(if v == 0 { "false".into() } else { "true".into() });
                }
            }
        }
        Ok(self.expr(e)?.0)
    }

    fn closure1(&mut self, c: &syn::Expr, arg_ty: &RTy) -> R<(String, String, RTy)> {
        let syn::Expr::Closure(cl) = strip(c) else { return Err("expected a closure".into()) };
        self.scopes.push(Default::default());
        let n0 = self.pre.len();
        let r = (|| -> R<(String, String, RTy)> {
            let p = match cl.inputs.first() {
                Some(p) => self.pat(p, arg_ty)?,
                None => "_".into(),
            };
            let (b, t) = self.expr(&cl.body)?;
            Ok((p, b, t))
        })();
        self.scopes.pop();
        if self.pre.len() != n0 {
            self.pre.truncate(n0);
            return Err("effect inside a closure".into());
        }
        r
    }

    fn method(&mut self, m: &syn::ExprMethodCall) -> R<(String, RTy)> {
        let name = m.method.to_string();
        let args: Vec<&syn::Expr> = m.args.iter().collect();
        // whole-chain patterns on the clock
        let whole = norm(m);
        if whole == "SystemTime::now().duration_since(UNIX_EPOCH).unwrap().as_millis()" {
            return Ok(("N.div (enow E) 1000000".into(), RTy::U128));
        }
        if whole.starts_with("UNIX_EPOCH.checked_add(Duration::from_millis(") && whole.ends_with(".and_then(|since|now.duration_since(since).ok()).map(|d|d.as_millis()asu64)") {
            // elapsed milliseconds since the timestamp, None when it lies in the future or overflows
            let inner = &whole["UNIX_EPOCH.checked_add(Duration::from_millis(".len()..];
            let tvar = inner.split(')').next().unwrap();
            if self.lookup("now").is_none() {
                return Err("clock pattern without `now`".into());
            }
            return Ok((format!("elapsed_ms (enow E) {}", vname(tvar)), RTy::Opt(Box::new(RTy::U64))));
        }
        if whole == "SystemTime::now()" {
            return Ok(("tt".into(), RTy::Unit));
        }
        if name == "gen" {
            // get_crypto_rng().gen::<[u8; 32]>() / rng.gen::<[u8; N]>()
            let r = self.rng_arg(&m.receiver)?;
            return Ok((format!("rng_gen32 {} {}", self.o(), r), RTy::Bytes));
        }
        if name == "insert" && lit_int(args[0]) == Some(0) {
            // Vec::insert(0, x)
            let sv = base_var(&m.receiver).ok_or("insert on a non-variable")?;
            let v = self.expr(args[1])?.0;
            self.pre.push(Bind::Let(vname(&sv), format!("{} :: {}", v, vname(&sv))));
            return Ok(("tt".into(), RTy::Unit));
        }
        if name == "insert" {
            let sv = base_var(&m.receiver).ok_or("insert on a non-variable")?;
            let k = self.expr(args[0])?.0;
            let v = self.expr(args[1])?.0;
            let tmp = self.tmp("old");
            self.pre.push(Bind::Let(format!("'({}, {})", tmp, vname(&sv)), format!("hm_insert {} {} {}", vname(&sv), paren(&k), paren(&v))));
            return Ok((tmp, RTy::Opt(Box::new(RTy::Usize))));
        }
        if name == "unwrap_or_else" {
            let (r, rt) = self.expr(&m.receiver)?;
            let syn::Expr::Closure(cl) = strip(args[0]) else { return Err("unwrap_or_else without a closure".into()) };
            let it = match rt {
                RTy::Opt(t) => *t,
                _ => RTy::Unknown,
            };
            let mv = self.mutated_in_expr(&cl.body);
            let saved = self.take_pre();
            let body = self.expr(&cl.body);
            let inner = self.take_pre();
            self.pre = saved;
            let (bv, _) = body?;
            if inner.is_empty() && mv.is_empty() {
                return Ok((format!("(match {} with Some x_ => x_ | None => {} end)", r, bv), it));
            }
            if inner.iter().any(|b| !matches!(b, Bind::Let(_, _))) {
                if inner.iter().any(|b| matches!(b, Bind::Try(_, _))) {
                    return Err("`?` inside unwrap_or_else".into());
                }
                let mut vars = vec!["x_".to_string()];
                vars.extend(mv.iter().cloned());
                let none_val = format!("Val ({}{})", bv, mv.iter().map(|x| format!(", {}", x)).collect::<String>());
                let none_branch = self.wrap(&inner, none_val)?;
                let tmp = self.tmp("x");
                let mut outs = vec![tmp.clone()];
                outs.extend(mv.iter().cloned());
                let pat = if outs.len() == 1 { tmp.clone() } else { format!("'({})", outs.join(", ")) };
                self.pre.push(Bind::M(
                    pat,
                    format!("match {} with\n| Some x_ => Val {}\n| None =>\n{}\nend", r, paren(&tuple_val(&vars)), crate::tr::indent(&none_branch, 2)),
                ));
                return Ok((tmp, it));
            }
            let mut vars = vec!["x_".to_string()];
            vars.extend(mv.iter().cloned());
            let mut none_branch = format!("({}{})", bv, mv.iter().map(|x| format!(", {}", x)).collect::<String>());
            for b in inner.iter().rev() {
                if let Bind::Let(p, t) = b {
                    none_branch = format!("let {} := {} in {}", p, t, none_branch);
                }
            }
            let tmp = self.tmp("x");
            let mut outs = vec![tmp.clone()];
            outs.extend(mv.iter().cloned());
            self.pre.push(Bind::Let(
                format!("'({})", outs.join(", ")),
                format!("match {} with Some x_ => ({}) | None => {} end", r, vars.join(", "), none_branch),
            ));
            return Ok((tmp, it));
        }
        if name == "into" {
            // `0u8.into()` / `1u8.into()` build a Choice
            if let syn::Expr::Lit(l) = strip(&m.receiver) {
                if let syn::Lit::Int(i) = &l.lit {
                    if i.suffix() == "u8" {
                        match i.base10_parse::<u8>() {
                            Ok(0) => return Ok(("false".into(), RTy::Bool)),
                            Ok(1) => return Ok(("true".into(), RTy::Bool)),
                            _ => {}
                        }
                    }
                }
            }
        }
        if name == "map" && args.len() == 1 {
            // serde_bare::from_slice(..).map(Self): the decoded value is the newtype's payload
            if let (syn::Expr::Path(p), syn::Expr::Call(c)) = (strip(args[0]), strip(&m.receiver)) {
                if p.path.is_ident("Self") && norm(&c.func) == "serde_bare::from_slice" {
                    if let Some(crate::wrappers::WKind::Newtype(inner)) = crate::wrappers::wrapper(&self.f.container) {
                        self.bare_hint = Some(inner);
                    }
                }
            }
        }
        let (r, rt) = self.expr(&m.receiver)?;
        // inherent method of a wrapper type
        if let RTy::W(tn) = &rt {
            if let Some(&i) = self.table.by_key.get(&format!("{}::{}", tn, name)) {
                let callee = &self.table.fns[i];
                let params = callee.params();
                if params.len() != args.len() + 1 {
                    return Err(format!("arity of {}", callee.key()));
                }
                let mut avs = vec![paren(&r)];
                let mut outs = vec![];
                for ((_, pt), a) in params.iter().skip(1).zip(args.iter()) {
                    if *pt == RTy::Rng {
                        let g = self.rng_arg(a)?;
                        outs.push(g.clone());
                        avs.push(g);
                    } else {
                        avs.push(paren(&self.expr(a)?.0));
                    }
                }
                if self.table.world.contains(&callee.key()) {
                    avs.push("wld".into());
                    outs.push("wld".into());
                }
                let tmp = self.tmp("r");
                let pat = if outs.is_empty() { tmp.clone() } else { format!("'({}, {})", tmp, outs.join(", ")) };
                self.pre.push(Bind::M(pat, format!("{} E {}", callee.coq_name(), avs.join(" "))));
                return Ok((tmp, callee.ret()));
            }
        }
        let rt = crate::wrappers::erase(&rt);
        if name == "map" && args.len() == 1 {
            // `.map(Self)` / `.map(PublicKey)`: wrapping in an erased newtype
            if let syn::Expr::Path(p) = strip(args[0]) {
                let n = p.path.segments.last().unwrap().ident.to_string();
                let owner = if n == "Self" { self.f.container.clone() } else { n };
                if p.path.segments.len() == 1 {
                    if let Some(crate::wrappers::WKind::Newtype(_)) = crate::wrappers::wrapper(&owner) {
                        let nt = match &rt {
                            RTy::Opt(_) => RTy::Opt(Box::new(RTy::W(owner))),
                            RTy::Res(_) => RTy::Res(Box::new(RTy::W(owner))),
                            RTy::List(_) => RTy::List(Box::new(RTy::W(owner))),
                            other => other.clone(),
                        };
                        return Ok((r, nt));
                    }
                }
            }
        }
        if name == "skip" {
            let n = match lit_int(args[0]) {
                Some(n) => format!("{}%nat", n),
                None => self.expr(args[0])?.0,
            };
            return Ok((format!("skipn {} {}", paren(&n), paren(&r)), rt));
        }
        if name == "to_vec" && rt == RTy::U64 {
            return Ok((format!("varint_enc {}", paren(&r)), RTy::Bytes)); // Uint::to_vec
        }
        if ERASE.contains(&name.as_str()) {
            return Ok((r, rt));
        }
        let rp = paren(&r);
        Ok(match name.as_str() {
            "is_zero" if rt == RTy::Bytes => (format!("is_zero_bytes {}", rp), RTy::Bool),
            "is_zero" => (format!("is_zero_s {}", rp), RTy::Bool),
            "wrapping_neg" if rt == RTy::I8 => (format!("i8_wrapping_neg {}", rp), RTy::I8),
            "finalize" => (format!("(tt, hkdf_extract {} (fst {}) (snd {}))", self.o(), rp, rp), RTy::Tuple(vec![RTy::Unit, RTy::Bytes])),
            "expand" => {
                let info = self.expr(args[0])?.0;
                let buf = base_var(args[1]).ok_or("expand buffer")?;
                self.pre.push(Bind::Let(vname(&buf), format!("hkdf_expand {} {} {} (length {})", self.o(), rp, paren(&info), vname(&buf))));
                ("(@Ok unit tt)".into(), RTy::Res(Box::new(RTy::Unit)))
            }
            "is_identity" => (format!("is_id {}", rp), RTy::Bool),
            "to_bytes" => match rt {
                RTy::PkPt | RTy::SigPt | RTy::GtPt => (format!("enc {} {}", self.o(), rp), RTy::Bytes),
                _ => return Err("to_bytes on a value of unknown kind".into()),
            },
            "to_repr" => (format!("repr {} {}", self.o(), rp), RTy::Bytes),
            "to_le_bytes" if rt == RTy::U64 => (format!("le64 {}", rp), RTy::Bytes),
            "len" => (format!("length {}", rp), RTy::Usize),
            "is_empty" => (format!("Nat.eqb (length {}) 0", rp), RTy::Bool),
            "is_some" => (format!("rs_is_some {}", rp), RTy::Bool),
            "try_into" if rt == RTy::Bytes => (format!("rs_try_array SECRET_KEY_BYTES {}", rp), RTy::Res(Box::new(RTy::Bytes))),
            "split_first" => (format!("rs_split_first {}", rp), RTy::Opt(Box::new(RTy::Tuple(vec![RTy::U8, RTy::Bytes])))),
            "unwrap_u8" => (format!("b2u8 {}", rp), RTy::U8),
            "identifier" => (format!("sid {}", rp), RTy::U8),
            "as_field_element" => (format!("share_as_field_element {} {}", self.o(), rp), RTy::Res(Box::new(RTy::Scalar))),
            "as_group_element" => match rt {
                RTy::PkShare => (format!("share_as_pk {} {}", self.o(), rp), RTy::Res(Box::new(RTy::PkPt))),
                RTy::SigShare => (format!("share_as_sig {} {}", self.o(), rp), RTy::Res(Box::new(RTy::SigPt))),
                _ => return Err("as_group_element on a share of unknown kind".into()),
            },
            "map_err" => {
                let syn::Expr::Closure(cl) = strip(args[0]) else { return Err("map_err without a closure".into()) };
                let e = self.err_ctor(&cl.body)?;
                (format!("rs_map_err {} {}", rp, e), rt)
            }
            "ok_or_else" | "ok_or" => {
                let e = match strip(args[0]) {
                    syn::Expr::Closure(cl) => self.err_ctor(&cl.body)?,
                    other => self.err_ctor(other)?,
                };
                let it = match rt {
                    RTy::Opt(t) => *t,
                    _ => RTy::Unknown,
                };
                (format!("rs_ok_or {} {}", rp, e), RTy::Res(Box::new(it)))
            }
            "ok" => {
                let it = match rt {
                    RTy::Res(t) => *t,
                    _ => RTy::Unknown,
                };
                (format!("rs_ok {}", rp), RTy::Opt(Box::new(it)))
            }
            "unwrap" | "expect" => {
                let it = match rt {
                    RTy::Opt(t) | RTy::Res(t) => *t,
                    _ => RTy::Unknown,
                };
                let tmp = self.tmp("u");
                self.pre.push(Bind::M(tmp.clone(), format!("rs_unwrap {}", rp)));
                (tmp, it)
            }
            "enumerate" => {
                let it = match rt {
                    RTy::List(t) => *t,
                    RTy::Bytes => RTy::U8,
                    _ => RTy::Unknown,
                };
                (format!("rs_enumerate {}", rp), RTy::List(Box::new(RTy::Tuple(vec![RTy::Usize, it]))))
            }
            "zip" => {
                let (b, bt) = self.expr(args[0])?;
                let el = |t: RTy| match t {
                    RTy::List(t) => *t,
                    RTy::Bytes => RTy::U8,
                    _ => RTy::Unknown,
                };
                (format!("combine {} {}", rp, paren(&b)), RTy::List(Box::new(RTy::Tuple(vec![el(rt), el(bt)]))))
            }
            "chain" => {
                let b = self.expr(args[0])?.0;
                (format!("{} ++ {}", rp, paren(&b)), rt)
            }
            "map" => {
                let it = match &rt {
                    RTy::List(t) => (**t).clone(),
                    RTy::Opt(t) => (**t).clone(),
                    RTy::Bytes => RTy::U8,
                    _ => RTy::Unknown,
                };
                match self.closure1(args[0], &it) {
                    Ok((p, b, bt)) => match rt {
                        RTy::Opt(_) => (format!("option_map (fun {} => {}) {}", p, b, rp), RTy::Opt(Box::new(bt))),
                        _ => (format!("map (fun {} => {}) {}", p, b, rp), RTy::List(Box::new(bt))),
                    },
                    Err(_) if !matches!(rt, RTy::Opt(_)) => {
                        // closure with calls or statements: mapM over the list
                        let syn::Expr::Closure(cl) = strip(args[0]) else { return Err("map without a closure".into()) };
                        if !self.mutated_in_expr(&cl.body).is_empty() {
                            return Err("closure mutating its environment".into());
                        }
                        self.scopes.push(Default::default());
                        let saved = self.take_pre();
                        self.value_depth += 1;
                        let r2 = (|| -> R<(String, String)> {
                            let p = match cl.inputs.first() {
                                Some(p) => self.pat(p, &it)?,
                                None => "_".into(),
                            };
                            let body = match strip(&cl.body) {
                                syn::Expr::Block(b) => self.stmts(&b.block.stmts, &Tail::Yield(vec![]))?,
                                other => {
                                    let v = self.expr(other)?.0;
                                    let pre = self.take_pre();
                                    self.wrap(&pre, format!("Val {}", paren(&v)))?
                                }
                            };
                            Ok((p, body))
                        })();
                        self.value_depth -= 1;
                        self.pre = saved;
                        self.scopes.pop();
                        let (p, body) = r2?;
                        let tmp = self.tmp("l");
                        self.pre.push(Bind::M(tmp.clone(), format!("mapM (fun {} =>\n{}) {}", p, crate::tr::indent(&body, 2), rp)));
                        (tmp, RTy::List(Box::new(RTy::Unknown)))
                    }
                    Err(e) => return Err(e),
                }
            }
            "all" | "any" => {
                let it = match &rt {
                    RTy::List(t) => (**t).clone(),
                    RTy::Bytes => RTy::U8,
                    _ => RTy::Unknown,
                };
                match self.closure1(args[0], &it) {
                    Ok((p, b, _)) => (format!("{} (fun {} => {}) {}", if name == "all" { "forallb" } else { "existsb" }, p, b, rp), RTy::Bool),
                    Err(_) if name == "all" => {
                        // closure with effects (indexing, calls): short-circuiting monadic version
                        let syn::Expr::Closure(cl) = strip(args[0]) else { return Err("all without a closure".into()) };
                        if !self.mutated_in_expr(&cl.body).is_empty() {
                            return Err("closure mutating its environment".into());
                        }
                        self.scopes.push(Default::default());
                        let saved = self.take_pre();
                        self.value_depth += 1;
                        let r2 = (|| -> R<(String, String)> {
                            let p = match cl.inputs.first() {
                                Some(p) => self.pat(p, &it)?,
                                None => "_".into(),
                            };
                            let v = self.expr(&cl.body)?.0;
                            let pre = self.take_pre();
                            let body = self.wrap(&pre, format!("Val {}", paren(&v)))?;
                            Ok((p, body))
                        })();
                        self.value_depth -= 1;
                        self.pre = saved;
                        self.scopes.pop();
                        let (p, body) = r2?;
                        let tmp = self.tmp("c");
                        self.pre.push(Bind::M(tmp.clone(), format!("rs_allM (fun {} =>\n{}) {}", p, crate::tr::indent(&body, 2), rp)));
                        (tmp, RTy::Bool)
                    }
                    Err(e) => return Err(e),
                }
            }
            "finalize_xof" => (r, RTy::Bytes),
            "finalize_fixed" => (format!("sha {} {}", self.o(), rp), RTy::Bytes),
            _ => return Err(format!("method `{}`", name)),
        })
    }

    /// `let t = x.as_mut();` makes t an alias of x: after a write through t, x is updated too
    pub fn sync_alias(&mut self, n: &str) {
        if let Some(target) = self.alias.get(n).cloned() {
            self.pre.push(Bind::Let(vname(&target), vname(n)));
        }
    }

    /// an expression statement evaluated for its effect on variables
    pub fn effect_stmt(&mut self, e: &syn::Expr) -> R<()> {
        match strip(e) {
            syn::Expr::Assign(a) => {
                let v = self.expr(&a.right)?.0;
                if let syn::Expr::Unary(u) = strip(&a.left) {
                    if let syn::Expr::MethodCall(m) = strip(&u.expr) {
                        if m.method == "identifier_mut" {
                            let s = base_var(&m.receiver).ok_or("identifier_mut on a non-variable")?;
                            self.pre.push(Bind::Let(vname(&s), format!("share_set_identifier {} {}", vname(&s), paren(&v))));
                            return Ok(());
                        }
                    }
                }
                match strip(&a.left) {
                    syn::Expr::Path(p) if p.path.segments.len() == 1 => {
                        let n = p.path.segments[0].ident.to_string();
                        if self.lookup(&n).is_none() {
                            return Err(format!("assignment to unknown `{}`", n));
                        }
                        self.pre.push(Bind::Let(vname(&n), v));
                        Ok(())
                    }
                    _ => Err("assignment target".into()),
                }
            }
            syn::Expr::Binary(b) if matches!(b.op, syn::BinOp::BitOrAssign(_)) => {
                let n = base_var(&b.left).ok_or("compound assignment target")?;
                let v = self.expr(&b.right)?.0;
                self.pre.push(Bind::Let(vname(&n), format!("N.lor {} {}", vname(&n), paren(&v))));
                self.sync_alias(&n);
                Ok(())
            }
            syn::Expr::Binary(b) if matches!(b.op, syn::BinOp::AddAssign(_) | syn::BinOp::SubAssign(_)) => {
                let n = base_var(&b.left).ok_or("compound assignment target")?;
                let v = self.expr(&b.right)?.0;
                let op = if matches!(b.op, syn::BinOp::AddAssign(_)) { "rs_add" } else { "rs_sub" };
                self.pre.push(Bind::Let(vname(&n), format!("{} {} {}", op, vname(&n), paren(&v))));
                Ok(())
            }
            syn::Expr::Call(c) if norm(&c.func) == "<Sha256asDigest>::update" => {
                let h = base_var(&c.args[0]).ok_or("hasher argument")?;
                let v = self.expr(&c.args[1])?.0;
                self.pre.push(Bind::Let(vname(&h), format!("{} ++ {}", vname(&h), paren(&v))));
                Ok(())
            }
            syn::Expr::MethodCall(m) => {
                let name = m.method.to_string();
                let args: Vec<&syn::Expr> = m.args.iter().collect();
                match name.as_str() {
                    "push" | "extend_from_slice" | "update" => {
                        let n = base_var(&m.receiver).ok_or("mutating method on a non-variable")?;
                        let v = self.expr(args[0])?.0;
                        let t = if name == "push" { format!("{} ++ [{}]", vname(&n), v) } else { format!("{} ++ {}", vname(&n), paren(&v)) };
                        self.pre.push(Bind::Let(vname(&n), t));
                        Ok(())
                    }
                    "reverse" => {
                        let n = base_var(&m.receiver).ok_or("reverse on a non-variable")?;
                        self.pre.push(Bind::Let(vname(&n), format!("rev {}", vname(&n))));
                        self.sync_alias(&n);
                        Ok(())
                    }
                    "input_ikm" => {
                        let n = base_var(&m.receiver).ok_or("extractor variable")?;
                        let v = self.expr(args[0])?.0;
                        self.pre.push(Bind::Let(vname(&n), format!("(fst {}, snd {} ++ {})", vname(&n), vname(&n), paren(&v))));
                        Ok(())
                    }
                    "copy_from_slice" if base_var(&m.receiver).is_some() && !matches!(strip(&m.receiver), syn::Expr::Index(_)) => {
                        let n = base_var(&m.receiver).unwrap();
                        let v = self.expr(args[0])?.0;
                        self.pre.push(Bind::M(vname(&n), format!("rs_copy_range {} 0%nat (length {}) {}", vname(&n), vname(&n), paren(&v))));
                        self.sync_alias(&n);
                        Ok(())
                    }
                    "append_message" => {
                        let n = base_var(&m.receiver).ok_or("transcript variable")?;
                        let l = self.expr(args[0])?.0;
                        let v = self.expr(args[1])?.0;
                        self.pre.push(Bind::Let(vname(&n), format!("tr_append {} {} {}", vname(&n), paren(&l), paren(&v))));
                        Ok(())
                    }
                    "challenge_bytes" => {
                        let n = base_var(&m.receiver).ok_or("transcript variable")?;
                        let l = self.expr(args[0])?.0;
                        let buf = base_var(args[1]).ok_or("challenge buffer")?;
                        self.pre.push(Bind::Let(vname(&buf), format!("tr_challenge {} {} {}", vname(&n), paren(&l), vname(&buf))));
                        Ok(())
                    }
                    "read" => {
                        let rd = self.expr(&m.receiver)?.0;
                        let buf = base_var(args[0]).ok_or("read buffer")?;
                        self.pre.push(Bind::Let(vname(&buf), format!("xof {} {} (length {})", self.o(), paren(&rd), vname(&buf))));
                        Ok(())
                    }
                    "copy_from_slice" => {
                        let syn::Expr::Index(ix) = strip(&m.receiver) else { return Err("copy_from_slice target".into()) };
                        let n = base_var(&ix.expr).ok_or("copy_from_slice target")?;
                        let syn::Expr::Range(r) = strip(&ix.index) else { return Err("copy_from_slice range".into()) };
                        let lo = match &r.start {
                            Some(s) => self.expr(s)?.0,
                            None => "0%nat".into(),
                        };
                        let hi = match &r.end {
                            Some(s) => self.expr(s)?.0,
                            None => format!("length {}", vname(&n)),
                        };
                        let v = self.expr(args[0])?.0;
                        self.pre.push(Bind::M(vname(&n), format!("rs_copy_range {} {} {} {}", vname(&n), paren(&lo), paren(&hi), paren(&v))));
                        Ok(())
                    }
                    _ => {
                        self.expr(e)?;
                        Ok(())
                    }
                }
            }
            _ => {
                self.expr(e)?;
                Ok(())
            }
        }
    }
}

/// name of the serde_bare primitive for a value type
fn bare_key(t: &RTy) -> Option<String> {
    Some(match t {
        RTy::W(n) => n.clone(),
        RTy::PkShare => "pk_share".into(),
        RTy::SkShare => "sk_share".into(),
        RTy::SigShare => "sig_share".into(),
        RTy::Tuple(ts) if ts.len() == 2 && ts[0] == RTy::Scheme && ts[1] == RTy::SigShare => "scheme_share".into(),
        _ => return None,
    })
}

fn short(s: &str) -> String {
    if s.len() > 60 {
        format!("{}..", &s[..60])
    } else {
        s.to_string()
    }
}
