//! The wrapper types of src/*.rs and the model types (coq/Model/Api.v) they are read as.
//! Newtypes are erased; scheme-tagged enums become `tagged` / `tagged_share` / `pok`; structs become the
//! model's records.  This table is part of the translator's trusted base; the serde layouts of the same
//! types are tied separately (Gen/Shapes.v).
use crate::rty::RTy;

pub enum WKind {
    Newtype(RTy),
    /// enum { Basic(T), MessageAugmentation(T), ProofOfPossession(T) }: coq type, constructor, payload
    Tagged(&'static str, &'static str, RTy),
    /// enum with struct variants { u, v }
    Pok,
    /// SecretKeyEnum { G1(SecretKey<G1Impl>), G2(SecretKey<G2Impl>) }: a pair (curve, scalar)
    CurveTagged,
    /// struct: coq type, constructor, fields in constructor order (rust name, projection, type)
    Record(&'static str, &'static str, Vec<(&'static str, &'static str, RTy)>),
}

pub fn wrapper(name: &str) -> Option<WKind> {
    use RTy::*;
    Some(match name {
        "PublicKey" | "MultiPublicKey" | "SignCryptDecryptionKey" | "ElGamalDecryptionKey" => WKind::Newtype(PkPt),
        "SecretKey" | "ProofCommitmentSecret" | "ProofCommitmentChallenge" => WKind::Newtype(Scalar),
        "ProofOfPossession" => WKind::Newtype(SigPt),
        "SecretKeyShare" => WKind::Newtype(SkShare),
        "PublicKeyShare" | "SignDecryptionShare" | "ElGamalDecryptionShare" => WKind::Newtype(PkShare),
        "Signature" | "AggregateSignature" | "MultiSignature" | "ProofCommitment" => WKind::Tagged("(@tagged K)", "mktagged", SigPt),
        "SignatureShare" => WKind::Tagged("tagged_share", "mktshare", SigShare),
        "ProofOfKnowledge" => WKind::Pok,
        "SecretKeyEnum" => WKind::CurveTagged,
        "BlsSignature" => WKind::Newtype(Unit),       // PhantomData carrier of the implementation type
        "ProofOfKnowledgeTimestamp" => WKind::Record("(@pok_ts K)", "mkpokts", vec![("proof", "pts_proof", W("ProofOfKnowledge".into())), ("timestamp", "pts_timestamp", U64)]),
        "SignCryptCiphertext" => WKind::Record("(@sc_ct K)", "mkscct", vec![("u", "sc_u", PkPt), ("v", "sc_v", Bytes), ("w", "sc_w", SigPt), ("scheme", "sc_scheme", Scheme)]),
        "TimeCryptCiphertext" => WKind::Record("(@tl_ct K)", "mktlct", vec![("u", "tl_u", PkPt), ("v", "tl_v", Bytes), ("w", "tl_w", Bytes), ("scheme", "tl_scheme", Scheme)]),
        "ElGamalCiphertext" => WKind::Record("(@eg_ct K)", "mkegct", vec![("c1", "eg_c1", PkPt), ("c2", "eg_c2", PkPt)]),
        "ElGamalProof" => WKind::Record(
            "(@eg_proof K)",
            "mkegproof",
            vec![("ciphertext", "egp_ct", W("ElGamalCiphertext".into())), ("message_proof", "egp_mp", Scalar), ("blinder_proof", "egp_bp", Scalar), ("challenge", "egp_ch", Scalar)],
        ),
        _ => return None,
    })
}

pub fn scheme_ctor(variant: &str) -> Option<&'static str> {
    match variant {
        "Basic" => Some("Basic"),
        "MessageAugmentation" => Some("Aug"),
        "ProofOfPossession" => Some("Pop"),
        _ => None,
    }
}

pub fn coq_type(name: &str) -> Option<String> {
    match wrapper(name)? {
        WKind::Newtype(t) => t.coq(),
        WKind::Tagged(c, _, _) => Some(c.to_string()),
        WKind::Pok => Some("(@pok K)".to_string()),
        WKind::CurveTagged => Some("(curve * car K)%type".to_string()),
        WKind::Record(c, _, _) => Some(c.to_string()),
    }
}

/// the type a value of wrapper type is handled as (newtypes erased)
pub fn erase(t: &RTy) -> RTy {
    if let RTy::W(n) = t {
        if let Some(WKind::Newtype(i)) = wrapper(n) {
            return i;
        }
    }
    t.clone()
}

pub fn curve_ctor(variant: &str) -> Option<&'static str> {
    match variant {
        "G1" => Some("CurveG1"),
        "G2" => Some("CurveG2"),
        _ => None,
    }
}
