//! Phase 2: function bodies of /repo/src -> Gallina definitions (coq/Gen/Funcs.v).
//! Collection of the functions, call graph, world-use analysis, emission order.
use crate::rty::{rty_of, RTy};
use crate::tr;
use std::collections::{BTreeMap, BTreeSet};
use std::fmt::Write as _;
use syn::visit::Visit;

pub struct FnInfo {
    pub container: String,
    pub name: String,
    pub file: String,
    pub sig: syn::Signature,
    pub block: syn::Block,
    pub generics: Vec<(String, String)>,
    /// file-level / function-level byte constants visible by bare name: name -> generated constant
    pub consts: BTreeMap<String, String>,
}

impl FnInfo {
    pub fn key(&self) -> String {
        format!("{}::{}", self.container, self.name)
    }
    pub fn coq_name(&self) -> String {
        format!("gen_{}_{}", self.container, self.name)
    }
    pub fn params(&self) -> Vec<(String, RTy)> {
        let mut v = vec![];
        for p in &self.sig.generics.params {
            if let syn::GenericParam::Const(c) = p {
                v.push((c.ident.to_string(), RTy::Usize));
            }
        }
        for a in &self.sig.inputs {
            match a {
                syn::FnArg::Receiver(_) => v.push(("self".to_string(), if self.container == "IsZero" { RTy::Bytes } else { RTy::W(self.container.clone()) })),
                syn::FnArg::Typed(pt) => {
                    fn pname(p: &syn::Pat) -> String {
                        match p {
                            syn::Pat::Ident(i) => i.ident.to_string(),
                            syn::Pat::Reference(r) => pname(&r.pat),
                            _ => "_".into(),
                        }
                    }
                    let name = pname(&pt.pat);
                    v.push((name, rty_of(&pt.ty, &self.generics)));
                }
            }
        }
        v
    }
    pub fn ret(&self) -> RTy {
        match &self.sig.output {
            syn::ReturnType::Default => RTy::Unit,
            syn::ReturnType::Type(_, t) => rty_of(t, &self.generics),
        }
    }
}

fn generics_of(sig: &syn::Signature) -> Vec<(String, String)> {
    let mut v = vec![];
    for p in &sig.generics.params {
        if let syn::GenericParam::Type(t) = p {
            let b = &t.bounds;
            v.push((t.ident.to_string(), quote::quote!(#b).to_string().replace(' ', "")));
        }
    }
    if let Some(w) = &sig.generics.where_clause {
        for p in &w.predicates {
            if let syn::WherePredicate::Type(t) = p {
                let ty = &t.bounded_ty;
                let b = &t.bounds;
                v.push((quote::quote!(#ty).to_string().replace(' ', ""), quote::quote!(#b).to_string().replace(' ', "")));
            }
        }
    }
    v
}

struct Calls {
    calls: Vec<(Option<String>, String)>,
    methods: Vec<String>,
    world: bool,
    vec_from: bool,
}
impl<'ast> Visit<'ast> for Calls {
    fn visit_expr_method_call(&mut self, m: &'ast syn::ExprMethodCall) {
        self.methods.push(m.method.to_string());
        syn::visit::visit_expr_method_call(self, m);
    }
    fn visit_expr_call(&mut self, c: &'ast syn::ExprCall) {
        if let syn::Expr::Path(p) = &*c.func {
            let s = quote::quote!(#p).to_string().replace(' ', "");
            if s.ends_with("get_crypto_rng") {
                self.world = true;
            }
            if s == "Vec::from" {
                self.vec_from = true;
            }
            if let Some((t, f)) = split_call_path(p) {
                self.calls.push((t, f));
            }
        }
        syn::visit::visit_expr_call(self, c);
    }
}

/// `Self::f` -> (None, f); `<Self as T>::f` / `<C as T>::f` -> (Some(T), f)
pub fn split_call_path(p: &syn::ExprPath) -> Option<(Option<String>, String)> {
    let segs: Vec<String> = p.path.segments.iter().map(|s| s.ident.to_string()).collect();
    if let Some(q) = &p.qself {
        let ty = &q.ty;
        let tys = quote::quote!(#ty).to_string().replace(' ', "");
        if (tys == "Self" || tys == "C" || tys == "T") && q.position + 1 == segs.len() && q.position >= 1 {
            return Some((Some(segs[q.position - 1].clone()), segs[segs.len() - 1].clone()));
        }
        return None;
    }
    if segs.len() == 2 && segs[0] == "Self" {
        return Some((None, segs[1].clone()));
    }
    if segs.len() == 2 && crate::wrappers::wrapper(&segs[0]).is_some() {
        return Some((Some(segs[0].clone()), segs[1].clone()));
    }
    if segs.len() == 1 {
        return Some((Some("<free>".into()), segs[0].clone()));
    }
    None
}

pub struct Table {
    pub fns: Vec<FnInfo>,
    pub by_key: BTreeMap<String, usize>,
    pub world: BTreeSet<String>,
}

impl Table {
    pub fn resolve(&self, cur: &str, t: &Option<String>, f: &str) -> Option<usize> {
        match t {
            Some(tn) if tn == "<free>" => self.by_key.get(&format!("free::{}", f)).copied(),
            Some(tn) => self.by_key.get(&format!("{}::{}", tn, f)).copied(),
            None => {
                if let Some(i) = self.by_key.get(&format!("{}::{}", cur, f)) {
                    return Some(*i);
                }
                // a supertrait's method: unique among the translated traits
                let c: Vec<usize> = self.fns.iter().enumerate().filter(|(_, x)| x.name == f && x.container.starts_with("Bls")).map(|(i, _)| i).collect();
                if c.len() == 1 {
                    Some(c[0])
                } else {
                    None
                }
            }
        }
    }
}

/// the files whose functions are translated, and the generated-constant prefix of their `const`s
const FILES: &[&str] = &[
    "traits/sig_core.rs",
    "traits/sig_basic.rs",
    "traits/sig_aug.rs",
    "traits/sig_pop.rs",
    "traits/sig_multi.rs",
    "traits/pk_multi.rs",
    "traits/sig_proof.rs",
    "traits/sign_crypt.rs",
    "traits/time_crypt.rs",
    "traits/elgamal.rs",
    "helpers.rs",
    "impls.rs",
    "secret_key.rs",
    "public_key.rs",
    "signature.rs",
    "aggregate_signature.rs",
    "multi_signature.rs",
    "multi_public_key.rs",
    "proof_of_possession.rs",
    "secret_key_share.rs",
    "public_key_share.rs",
    "signature_share.rs",
    "proof_commitment.rs",
    "proof_of_knowledge.rs",
    "sign_crypt_ciphertext.rs",
    "sign_decryption_share.rs",
    "time_crypt_ciphertext.rs",
    "elgamal_ciphertext.rs",
    "elgamal_proof.rs",
    "elgamal_decryption_share.rs",
];

pub fn emit(parsed: &[(String, syn::File)], out: &std::path::Path) {
    let mut fns: Vec<FnInfo> = vec![];
    for (path, ast) in parsed {
        if !FILES.contains(&path.as_str()) {
            continue;
        }
        let stem = std::path::Path::new(path).file_stem().unwrap().to_string_lossy().to_string();
        let mut file_consts = BTreeMap::new();
        for it in &ast.items {
            if let syn::Item::Const(c) = it {
                file_consts.insert(c.ident.to_string(), format!("{}__{}", stem, c.ident));
            }
        }
        for it in &ast.items {
            if let syn::Item::Fn(func) = it {
                // free helper functions (src/helpers.rs); the generator source, the pairing wrappers of the
                // backends and the serde string guard are outside the fragment
                let n = func.sig.ident.to_string();
                if stem == "helpers" && !["get_crypto_rng", "pairing_g1_g2", "pairing_g2_g1", "checked_hex_str"].contains(&n.as_str()) {
                    let mut consts = file_consts.clone();
                    for s in &func.block.stmts {
                        if let syn::Stmt::Item(syn::Item::Const(c)) = s {
                            consts.insert(c.ident.to_string(), format!("{}__{}__{}", stem, n, c.ident));
                        }
                    }
                    fns.push(FnInfo { container: "free".into(), name: n, file: path.clone(), sig: func.sig.clone(), block: (*func.block).clone(), generics: generics_of(&func.sig), consts });
                }
            }
            if let syn::Item::Impl(im) = it {
                if let (syn::Type::Slice(_), Some((_, tp, _))) = (&*im.self_ty, &im.trait_) {
                    if tp.segments.last().unwrap().ident == "IsZero" {
                        for ii in &im.items {
                            if let syn::ImplItem::Fn(m) = ii {
                                let mut g = generics_of(&m.sig);
                                g.push(("Self".into(), "[u8]".into()));
                                fns.push(FnInfo { container: "IsZero".into(), name: m.sig.ident.to_string(), file: path.clone(), sig: m.sig.clone(), block: m.block.clone(), generics: g, consts: file_consts.clone() });
                            }
                        }
                    }
                }
            }
            if let syn::Item::Impl(im) = it {
                // impl From<&T<C>> for Vec<u8>: the byte form of a wrapper type
                if let (syn::Type::Path(sp), Some((_, tp, _))) = (&*im.self_ty, &im.trait_) {
                    let st = quote::quote!(#sp).to_string().replace(' ', "");
                    let ts = quote::quote!(#tp).to_string().replace(' ', "");
                    if st == "Vec<u8>" && ts.starts_with("From<&") {
                        let tn: String = ts["From<&".len()..].chars().take_while(|c| c.is_alphanumeric() || *c == '_').collect();
                        if crate::wrappers::wrapper(&tn).is_some() {
                            for ii in &im.items {
                                if let syn::ImplItem::Fn(m) = ii {
                                    let mut g = generics_of(&m.sig);
                                    g.push(("Self".into(), "Vec<u8>".into()));
                                    fns.push(FnInfo { container: tn.clone(), name: "to_vec_bytes".into(), file: path.clone(), sig: m.sig.clone(), block: m.block.clone(), generics: g, consts: file_consts.clone() });
                                }
                            }
                        }
                    }
                }
            }
            if let syn::Item::Impl(im) = it {
                // inherent methods of the wrapper types, and TryFrom<&[Signature<C>]> (the accumulators)
                let self_name = match &*im.self_ty {
                    syn::Type::Path(p) => p.path.segments.last().unwrap().ident.to_string(),
                    _ => continue,
                };
                if crate::wrappers::wrapper(&self_name).is_none() {
                    continue;
                }
                let tr_s = im.trait_.as_ref().map(|(_, p, _)| quote::quote!(#p).to_string().replace(' ', ""));
                let take = match &tr_s {
                    None => true,
                    Some(t) => t == "TryFrom<&[Signature<C>]>" || t == "TryFrom<&[u8]>"
                        // the one `+` of ElGamalCiphertext every other spelling delegates to
                        || (self_name == "ElGamalCiphertext" && t == "Add<ElGamalCiphertext<C>>"
                            && !matches!(&*im.self_ty, syn::Type::Reference(_))),
                };
                if !take {
                    continue;
                }
                let bytes_conv = tr_s.as_deref() == Some("TryFrom<&[u8]>");
                for ii in &im.items {
                    if let syn::ImplItem::Fn(m) = ii {
                        if self_name == "BlsSignature" && m.sig.ident == "new" {
                            continue; // BlsSignature(PhantomData): no behaviour
                        }
                        let mut g = generics_of(&m.sig);
                        g.push(("Self".into(), self_name.clone()));
                        fns.push(FnInfo {
                            container: self_name.clone(),
                            name: if bytes_conv { "try_from_bytes".to_string() } else { m.sig.ident.to_string() },
                            file: path.clone(),
                            sig: m.sig.clone(),
                            block: m.block.clone(),
                            generics: g,
                            consts: file_consts.clone(),
                        });
                    }
                }
            }
            if let syn::Item::Trait(t) = it {
                for ti in &t.items {
                    if let syn::TraitItem::Fn(f) = ti {
                        if let Some(b) = &f.default {
                            let mut consts = file_consts.clone();
                            for s in &b.stmts {
                                if let syn::Stmt::Item(syn::Item::Const(c)) = s {
                                    consts.insert(c.ident.to_string(), format!("{}__{}__{}__{}", stem, t.ident, f.sig.ident, c.ident));
                                }
                            }
                            fns.push(FnInfo {
                                container: t.ident.to_string(),
                                name: f.sig.ident.to_string(),
                                file: path.clone(),
                                sig: f.sig.clone(),
                                block: b.clone(),
                                generics: generics_of(&f.sig),
                                consts,
                            });
                        }
                    }
                }
            }
        }
    }
    let mut by_key = BTreeMap::new();
    for (i, f) in fns.iter().enumerate() {
        by_key.insert(f.key(), i);
    }
    let mut table = Table { fns, by_key, world: BTreeSet::new() };

    // call graph and transitive use of the process entropy source
    let mut callees: Vec<Vec<usize>> = vec![];
    let mut direct_world = vec![];
    for f in &table.fns {
        let mut c = Calls { calls: vec![], methods: vec![], world: false, vec_from: false };
        c.visit_block(&f.block);
        let mut v = vec![];
        for (t, n) in &c.calls {
            if let Some(i) = table.resolve(&f.container, t, n) {
                v.push(i);
            }
            // T::try_from(bytes) is the byte conversion of wrapper T
            if let (Some(tn), "try_from") = (t, n.as_str()) {
                if let Some(i) = table.by_key.get(&format!("{}::try_from_bytes", tn)) {
                    v.push(*i);
                }
            }
        }
        if c.vec_from {
            // Vec::from(&wrapper): any byte form (ordering only)
            for (i, g) in table.fns.iter().enumerate() {
                if g.name == "to_vec_bytes" && g.container != f.container && !v.contains(&i) {
                    v.push(i);
                }
            }
        }
        // method calls on wrapper values: every inherent method of that name (ordering and entropy use only)
        for mname in &c.methods {
            for (i, g) in table.fns.iter().enumerate() {
                if g.name == *mname && !g.container.starts_with("Bls") && !v.contains(&i) {
                    v.push(i);
                }
            }
        }
        callees.push(v);
        direct_world.push(c.world);
    }
    let mut world: Vec<bool> = direct_world.clone();
    loop {
        let mut changed = false;
        for i in 0..world.len() {
            if !world[i] && callees[i].iter().any(|j| world[*j]) {
                world[i] = true;
                changed = true;
            }
        }
        if !changed {
            break;
        }
    }
    for (i, f) in table.fns.iter().enumerate() {
        if world[i] {
            table.world.insert(f.key());
        }
    }

    // translate; a function whose callee failed fails too
    let n = table.fns.len();
    let mut results: Vec<Option<Result<String, String>>> = (0..n).map(|_| None).collect();
    let mut order: Vec<usize> = vec![];
    fn visit(i: usize, table: &Table, callees: &Vec<Vec<usize>>, results: &mut Vec<Option<Result<String, String>>>, order: &mut Vec<usize>, stack: &mut Vec<usize>) {
        if results[i].is_some() || stack.contains(&i) {
            return;
        }
        stack.push(i);
        for j in &callees[i] {
            visit(*j, table, callees, results, order, stack);
        }
        stack.pop();
        let mut r = tr::translate_fn(table, &table.fns[i]);
        if let Ok(text) = &r {
            let mut bad = None;
            for j in &callees[i] {
                if *j != i {
                    if let Some(Err(_)) = &results[*j] {
                        if text.contains(&format!("{} E", table.fns[*j].coq_name())) {
                            bad = Some(table.fns[*j].key());
                        }
                    }
                }
            }
            if let Some(b) = bad {
                r = Err(format!("calls {} which is not translated", b));
            }
        }
        results[i] = Some(r);
        order.push(i);
    }
    let mut stack = vec![];
    for i in 0..n {
        visit(i, &table, &callees, &mut results, &mut order, &mut stack);
    }

    let mut s = String::new();
    s.push_str("(* GENERATED by rs2v from the function bodies of /repo/src on every run. Do not edit.\n   One definition per translated function; vocabulary: coq/Refine/Prelude.v. *)\n");
    s.push_str("From BV Require Import Alg.Field Alg.Dlog Sem.Base Model.Oracles Model.Helpers Model.Varint Model.Core\n     Model.Protocols Model.Api Model.Codec Gen.Consts Refine.Prelude Refine.PreludeCodec.\n\n");
    let mut ok = 0;
    let mut failed = vec![];
    for i in order {
        let f = &table.fns[i];
        match results[i].as_ref().unwrap() {
            Ok(t) => {
                writeln!(s, "(* {} :: {}  ({}) *)", f.container, f.name, f.file).unwrap();
                s.push_str(t);
                s.push_str("\n\n");
                ok += 1;
            }
            Err(e) => {
                writeln!(s, "(* NOT TRANSLATED {} :: {}  ({}): {} *)\n", f.container, f.name, f.file, e.replace("*)", "* )")).unwrap();
                failed.push(format!("{}: {}", f.key(), e));
            }
        }
    }
    std::fs::write(out.join("Funcs.v"), s).unwrap();
    eprintln!("rs2v: {} functions translated, {} not translated", ok, failed.len());
    for f in failed {
        eprintln!("  not translated: {}", f);
    }
}
