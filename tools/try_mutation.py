#!/usr/bin/env python3
"""Confirm a seeded change (patch + demonstration) in a scratch worktree, then run the registered
checks against it with the patch applied to /repo, and undo it straight afterwards.

  try_mutation.py <src dir with patch.diff, demo.rs, meta.json> <seeded id> <prop> [more props...]

Writes /verif/seeded/<id>/{patch.diff, demo.rs, meta.json}.
"""
import json, os, re, shutil, subprocess, sys, time

REPO = "/repo"
VERIF = "/verif"
TARGET = "/tmp/mv-target"


def sh(cmd, cwd=None, timeout=3600, env=None):
    e = dict(os.environ, CARGO_NET_OFFLINE="true")
    if env:
        e.update(env)
    p = subprocess.run(cmd, cwd=cwd, shell=isinstance(cmd, str), stdout=subprocess.PIPE,
                       stderr=subprocess.STDOUT, timeout=timeout, env=e)
    return p.returncode, p.stdout.decode(errors="replace")


def count_tests(out):
    passed = sum(int(m.group(1)) for m in re.finditer(r"test result: \w+\. (\d+) passed", out))
    failed = sum(int(m.group(1)) for m in re.finditer(r"test result: \w+\. \d+ passed; (\d+) failed", out))
    return passed, failed


def confirm(src, sid):
    """(a) patch applied: builds, 37 tests pass, demo fails; (b) without patch: demo passes."""
    wt = "/tmp/mv-%s" % sid
    sh(["git", "-C", REPO, "worktree", "remove", "--force", wt])
    rc, out = sh(["git", "-C", REPO, "worktree", "add", "--detach", wt, "HEAD"])
    res = {}
    try:
        env = {"CARGO_TARGET_DIR": TARGET}
        demo_name = "demo_seeded_%s" % re.sub(r"\W", "_", sid)
        shutil.copy(os.path.join(src, "demo.rs"), os.path.join(wt, "tests", demo_name + ".rs"))
        # (b) unchanged tree: demo passes
        rc, out = sh(["cargo", "test", "--offline", "--test", demo_name], cwd=wt, env=env)
        p, f = count_tests(out)
        res["demo_passes_without_patch"] = (rc == 0 and f == 0 and p > 0)
        # (a) patched tree
        rc, out = sh(["git", "apply", os.path.join(src, "patch.diff")], cwd=wt)
        res["patch_applies"] = rc == 0
        rc, out = sh(["cargo", "build", "--offline"], cwd=wt, env=env)
        res["builds"] = rc == 0
        os.remove(os.path.join(wt, "tests", demo_name + ".rs"))
        rc, out = sh(["cargo", "test", "--offline", "--no-fail-fast"], cwd=wt, env=env)
        p, f = count_tests(out)
        res["existing_tests"] = {"passed": p, "failed": f}
        shutil.copy(os.path.join(src, "demo.rs"), os.path.join(wt, "tests", demo_name + ".rs"))
        rc, out = sh(["cargo", "test", "--offline", "--test", demo_name], cwd=wt, env=env)
        p, f = count_tests(out)
        res["demo_fails_with_patch"] = (rc != 0)
        res["demo_with_patch"] = {"passed": p, "failed": f}
        if rc == 0:
            # a change that only shows with the pure-Rust backend
            rust = ["--no-default-features", "--features", "rust"]
            rc2, out2 = sh(["cargo", "test", "--offline"] + rust + ["--test", demo_name], cwd=wt, env=env)
            p2, f2 = count_tests(out2)
            res["demo_with_patch_rust_backend"] = {"passed": p2, "failed": f2}
            if rc2 != 0:
                sh(["git", "checkout", "--", "src"], cwd=wt)
                rc3, out3 = sh(["cargo", "test", "--offline"] + rust + ["--test", demo_name], cwd=wt, env=env)
                p3, f3 = count_tests(out3)
                res["demo_without_patch_rust_backend"] = {"passed": p3, "failed": f3}
                if rc3 == 0 and p3 > 0:
                    res["demo_fails_with_patch"] = True
                    res["manifests_only_under"] = "--no-default-features --features rust"
    finally:
        sh(["git", "-C", REPO, "worktree", "remove", "--force", wt])
        shutil.rmtree(wt, ignore_errors=True)
    res["confirmed"] = bool(res.get("demo_passes_without_patch") and res.get("patch_applies") and res.get("builds")
                            and res.get("existing_tests") == {"passed": 37, "failed": 0} and res.get("demo_fails_with_patch"))
    return res


def run_checks(src, props, tier="quick"):
    rc, out = sh(["git", "-C", REPO, "status", "--porcelain"])
    if out.strip():
        raise SystemExit("/repo is not clean:\n" + out)
    results = {}
    rc, out = sh(["git", "-C", REPO, "apply", os.path.join(src, "patch.diff")])
    if rc != 0:
        raise SystemExit("patch does not apply to /repo: " + out)
    try:
        for p in props:
            t0 = time.time()
            rc, out = sh(["python3", "check.py", p, "--tier", tier], cwd=VERIF, timeout=7200)
            viol = [l for l in out.splitlines() if l.startswith("VIOLATION")]
            detail = ""
            if viol:
                m = re.search(r"replay=(\S+)", viol[0])
                if m and os.path.exists(m.group(1)):
                    r = json.load(open(m.group(1)))
                    kinds = {}
                    for f in r.get("failures", []):
                        k = f.get("class") or f.get("kind")
                        kinds[k] = kinds.get(k, 0) + 1
                    detail = {"failure_kinds": kinds, "broken_obligations": [b.get("kind") for b in r.get("broken_obligations", [])],
                              "first": (r.get("failures") or [None])[0]}
            results[p] = {"exit": rc, "violation_line": viol[0] if viol else None, "detail": detail,
                          "summary": out.strip().splitlines()[-1] if out.strip() else "", "wall_s": round(time.time() - t0)}
    finally:
        sh(["git", "-C", REPO, "checkout", "--", "."])
    return results


def main():
    src, sid, props = sys.argv[1], sys.argv[2], sys.argv[3:]
    tier = os.environ.get("MUT_TIER", "quick")
    meta = json.load(open(os.path.join(src, "meta.json")))
    out = os.path.join(VERIF, "seeded", sid)
    os.makedirs(out, exist_ok=True)
    conf = confirm(src, sid)
    print("confirm:", json.dumps(conf))
    checks = run_checks(src, props, tier) if conf["confirmed"] else {}
    for p, r in checks.items():
        print(p, "->", "CAUGHT" if r["exit"] == 1 and r["violation_line"] else "MISSED", r["summary"])
    shutil.copy(os.path.join(src, "patch.diff"), os.path.join(out, "patch.diff"))
    shutil.copy(os.path.join(src, "demo.rs"), os.path.join(out, "demo.rs"))
    meta_out = {"breaks_property": props[0], "summary": meta.get("summary"), "needs": meta.get("needs"),
                "demo_cmd": "cp demo.rs /repo-worktree/tests/demo.rs && cargo test --offline --test demo",
                "files_touched": meta.get("files_touched"), "author": "independent sub-agent (saw only the property text and a scratch worktree)",
                "confirmed_by_me": conf,
                "checks_run_with_patch_applied": checks,
                "caught_by": [p for p, r in checks.items() if r["exit"] == 1 and r["violation_line"]]}
    json.dump(meta_out, open(os.path.join(out, "meta.json"), "w"), indent=1)


if __name__ == "__main__":
    main()
