#!/usr/bin/env python3
"""Re-run checks against an already confirmed seeded change: rerun_seeded.py <id> <prop> [props...]
Appends the result to seeded/<id>/meta.json under `reruns`."""
import json, os, subprocess, sys, time, re
sys.path.insert(0, "/verif/tools")
import try_mutation as tm
sid, props = sys.argv[1], sys.argv[2:]
d = "/verif/seeded/" + sid
res = tm.run_checks(d, props)
m = json.load(open(d + "/meta.json"))
m.setdefault("reruns", []).append({"when": time.strftime("%Y-%m-%d %H:%M"), "checks": res})
caught = set(m.get("caught_by") or [])
for p, r in res.items():
    ok = r["exit"] == 1 and r["violation_line"]
    print(sid, p, "->", "CAUGHT" if ok else "MISSED", r["summary"])
    if ok:
        caught.add(p)
m["caught_by"] = sorted(caught)
json.dump(m, open(d + "/meta.json", "w"), indent=1)
