#!/usr/bin/env python3
"""Writes MANIFEST.json from the per-property texts below."""
import json, os
ROOT = os.path.join(os.path.dirname(os.path.abspath(__file__)), "..")
TB = ("Coq 8.16.1 kernel; no axioms (every property theorem prints `Closed under the global context`); theorem hypotheses: "
      "FieldLaws K (that the BLS12-381 scalar field is a field is not proved here), OracleLaws / EmbedLaw / explicit non-degeneracy side conditions where named; "
      "dlog model of the pairing groups and oracles for hash-to-curve, HKDF, SHAKE128, SHA-256, merlin, point/scalar encodings, ChaCha20 (DESIGN.md 3); "
      "the model (coq/Model) is hand-written and tied to /repo by the correspondence run: extraction (ExtrOcamlBasic directives only) + ocaml/driver.ml + harness/blsdiff "
      "with the hooks of --cfg blsful_verif, checked and release builds; curve crates, sha2, sha3, hkdf, merlin, vsss-rs, uint-zigzag, serde_* are trusted and exercised by the search")
TECH = "Coq proof over a dlog model + extracted-model/implementation correspondence + reference search"
P = {
 "C01": "Theorems for all keys, messages of any length, schemes and both group assignments: signing succeeds and equals H(amsg)*sk (deterministic), the honest signature verifies, the zero key is refused, the degenerate-hash branch is rejected. Tied to the code by running the extracted model and the real library on the same generated cases, plus an un-hooked search (reference verifier on the other backend, every encoding).",
 "C02": "Exact characterisation of Signature::verify (guards + CoreVerify equation); uniqueness of the accepted group element; every other point / key rejected absolutely; other message, length, bit or scheme label accepted only at an explicit hash-oracle collision between two provably different (input, tag) pairs; valid related tuples stay valid.",
 "C03": "PARTIAL. Proved: the tags, KeyGen salt and info are the draft's strings; KeyGen = HKDF-Extract(salt, IKM||0)/Expand(I2OSP(48,2),48)/OS2IP mod r; Sign/Verify per scheme are CoreSign/CoreVerify on msg resp. PK||msg under the scheme tag; PopProve/PopVerify over the public-key bytes under the POP tag; Aggregate = sum; CoreAggregateVerify = product of pairings. Decided by the runs, not by a theorem: byte-exactness of points (SSWU, isogeny, cofactor clearing, compression live in the curve crates): the hooked correspondence run recomputes KeyGen from HMAC-SHA-256 and compares every key/signature byte for byte, and the un-hooked conformance search compares library output with a reference on the pure-Rust backend and replays RFC 9380 vectors.",
 "C04": "One guard theorem per entry point (verify, aggregate with the identity at any position, multi, PoP, PoK, signcryption validity/decrypt/share, time-lock open/seal, ElGamal seal/verify/verify-and-decrypt, signing with the zero scalar, byte import of zero) plus the exhaustively proved zero test; the attack lemma shows the pairing equation alone would accept.",
 "C05": "All 15 tag/salt constants pairwise distinct (by computation on the model's constants) and equal to the IETF strings; cross-scheme and signature-vs-PoP acceptance proved to require a hash collision between different (input, tag) pairs; variant-driven tag selection.",
 "C06": "For every list length: accumulation = plain sum with exact error kinds for <2 / mixed; exact acceptance condition of AggregateSignature::verify incl. Basic's distinct-message rule; completeness; permutation invariance; dropped/added/altered/swapped pairs reduced to explicit relations.",
 "C07": "Accumulation = plain sum, refusal of Aug / mixed / <2 with exact error kinds; accumulated key = sum; completeness; zero-sum key rejected; another signer set accepted only if the accumulated keys are equal (absolute), hence missing/added signer contributes 0 and a replaced signer has the same key; other message only at a hash collision.",
 "C08": "Lagrange interpolation as vsss-rs computes it returns p(0) for ANY >= t distinct points (polynomial root-bound argument, all t, n, subsets, orders); split errors outside 2<=t<=n<=255; recombination of key, public-key shares and partial signatures to exactly the whole-key results; partial signatures verify under their own share; fewer than t shares leave the secret undetermined; every error case with its error kind.",
 "C09": "PoP completeness, exact acceptance condition, any change to the proof rejected absolutely, other key only at a relation between the hash oracle at two different inputs, zero key refused.",
 "C10": "Exact acceptance condition of the proof of knowledge; completeness for Basic/PoP; binding to challenge, key, u and v (absolute) and to message/scheme (collision); timestamp variant: independence of the clock without timeout, within/after timeout, future timestamps rejected, never panics for any timestamp/timeout/clock value. The MessageAugmentation incompleteness of the library is proved (C10_aug_incomplete) and listed as a known finding.",
 "C11": "Varint and framing round trip for every length, sealed ciphertext valid and decrypts to exactly the message through every wrapper path, exact validity condition, changed W invalid (absolute), changed U/V/label only at a hash relation, invalid ciphertexts decrypt to nothing through all three paths, wrong key needs a keystream collision (known finding for the empty message).",
 "C12": "Decryption shares are f(i)*U; exact share-verification condition; own key share verifies for the ciphertext's scheme, another participant's only if share values coincide; >= t shares decrypt directly and through a combined key; fewer than two give nothing; below threshold undetermined.",
 "C13": "Seal specification, round trip for all three schemes through the wrappers, soundness of opening (U equals the hash of the recovered alpha and message), gating by scheme / identity, altered payload opens only at a collision, altering only W gives the original or nothing.",
 "C15": "Generic theorem: every well-formed value of every serde_bare layout decodes from its encoding in front of arbitrary trailing bytes (hence round trip), plus per-type instances for all byte conversions (keys, PoP, scalars big/little endian, the curve-tagged key wrapper, signatures, commitments, proofs of knowledge with every u64 timestamp, all share containers, both ciphertext types with any payload length, ElGamal ciphertexts and proofs); fixed-size layouts have a length depending only on type and group. JSON forms are covered by the search harness only (stated).",
 "C16": "Generic theorem: every proper prefix of a valid encoding is rejected, for every layout; exact-length types reject every other length; zero scalars are not importable and nothing imported is zero; combining or verifying share containers with an invalid payload is an error. That returned points are subgroup points holds by construction of the dlog model and is tied to the code by feeding off-subgroup / off-curve / bad-flag encodings at every point position of every type to model and implementation.",
 "C17": "Totality theorems (neither panic nor non-termination, debug and release semantics) for every consuming entry point that contains a panicking construct: zero test (exhaustive over the 256 OR-values), length-prefix parsing and slicing, share combination (Lagrange denominator), Signature::from_shares on the empty list, aggregate verification, proof-of-knowledge and timestamp verification for every u64, all signcryption decrypt paths with payloads of any size, time-lock decryption, the curve-tagged key wrapper on empty slices; under the oracle side conditions the code itself asserts. Panics inside dependencies: search harness only.",
 "C18": "Pinning theorems for every salt, tag, transcript label and order, framing rule, hash input layout and serde layout of the model, plus seal = documented construction for signcryption and time lock; tied to the code by the byte-exact correspondence run over all four constructions and all layouts, to the documented constructions by an independent reference implementation exchanging tuples in both directions, and to the pinned release by a golden corpus.",
 "C19": "PARTIAL. Proved: every deterministic operation of the blsful layer depends on the arithmetic backend only through the primitives of the oracle record (key derivation, sign, verify, PoP, share combination: equal primitives give equal results); static obligation: the only backend-conditional item in src/ is the inner_types re-export. Decided by the two-build differential run, not by a theorem: that blstrs_plus and bls12_381_plus compute the same primitives - the generated cases of nine properties run against the harness built with the pure-Rust backend and are compared byte for byte with the extracted model, every deterministic output is compared between the two builds, and randomized artefacts produced under one backend are consumed under the other in both directions.",
 "C20": "PARTIAL. Proved (invariant by induction over arbitrary call histories of any length): every randomized entry point consumes at least one fresh entropy index unless it is refused before anything randomized happens; the draw counter never decreases; two different calls in a history consume disjoint non-empty index ranges; single-draw entry points are functions of exactly the seed at their index; equal ephemeral points imply equal derived scalars (seed-derivation collision). Outside the model: that from_entropy() yields distinct unpredictable seeds across calls, threads and processes (OS behaviour) - tested by the search harness (N identical calls, 8 threads, two processes).",
 "C14": "Encryption/decryption correctness, additive homomorphism for any list, decryption keys from shares, exact proof verification condition, completeness, verify-and-decrypt under own key only, transcript binds every public component injectively, modified tuples need a Fiat-Shamir collision.",
}
def main():
    checks = []
    for pid in sorted(P):
        checks.append({
            "property_id": pid,
            "quick_cmd": "python3 check.py %s --tier quick" % pid,
            "thorough_cmd": "python3 check.py %s --tier thorough" % pid,
            "evidence_file": "/verif/evidence/%s.json" % pid,
            "replay_cmd_template": "python3 check.py %s --replay {path}" % pid,
            "engine": "coq-model+correspondence",
            "level_claimed": {"category": "proof", "text": P[pid], "design_ref": "DESIGN.md section 7, %s" % pid},
            "level_note": TB,
            "technique": TECH})
    allp = ["C%02d" % i for i in range(1, 21)]
    m = {"version": 1, "setup_cmd": "./setup.sh",
         "hooks": {"guard": "blsful_verif",
                   "enable": "RUSTFLAGS=\"--cfg blsful_verif\" (set by check.py for every cargo build of the harness against /repo)",
                   "baseline_off_cmd": "cd /repo && cargo test --workspace --no-fail-fast --offline",
                   "source_commits": ["5945bcb"], "add_only": True},
         "engines": [{"name": "coq-model+correspondence", "path": "/verif/check.py", "serves_properties": sorted(P),
                      "kind_free_text": "Coq 8.16 development (coq/), extracted OCaml model driver (ocaml/), Rust harness blsdiff (harness/) linking /repo with hooks"}],
         "checks": checks,
         "notes": "See DESIGN.md. known_findings.json lists genuine defects (fixed entries suppress nothing).",
         "not_applicable": [{"property_id": p, "reason": "check under construction in this session; not yet claimed"} for p in allp if p not in P]}
    json.dump(m, open(os.path.join(ROOT, "MANIFEST.json"), "w"), indent=1)
    print("manifest:", len(checks), "checks")
if __name__ == "__main__":
    main()
