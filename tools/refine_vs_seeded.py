#!/usr/bin/env python3
"""For every seeded change: apply it to /repo, regenerate coq/Gen with rs2v, rebuild coq/Refine/*.vo and record
which refinement files break (the translator tie on its own, without running any generated case)."""
import json, os, re, subprocess, sys, glob
sys.path.insert(0, "/verif")
import check
REPO = "/repo"
out = json.load(open('/verif/seeded/refine_matrix.json')) if os.path.exists('/verif/seeded/refine_matrix.json') else {}
files = ["Consts", "HelpersR", "SigCore", "SigSchemes", "PoK", "SignCrypt", "TimeLock", "ElGamal", "WSig", "WPoK", "WEnc", "WCodec", "WEnum"]
assert not subprocess.run(["git", "-C", REPO, "status", "--porcelain"], capture_output=True).stdout.strip()
for d in sorted(glob.glob("/verif/seeded/C*-m*")):
    sid = os.path.basename(d)
    if sid in out and '--all' not in sys.argv:
        continue
    subprocess.run(["git", "-C", REPO, "apply", os.path.join(d, "patch.diff")], check=True)
    try:
        ok, log, st = check.regen()
        for f in files:
            v = os.path.join(check.COQ, 'Refine', f + '.vo')
            if os.path.exists(v):
                os.remove(v)
        broken = {}
        targets = ["Refine/%s.vo" % f for f in files]
        p = subprocess.run(["make", "-k", "-j16"] + targets, cwd=check.COQ, capture_output=True, text=True)
        log = p.stdout + p.stderr
        # every file whose compilation reported an error, with the lemma the error falls in
        for m in re.finditer(r'File "\./(Refine/(\w+)\.v|Gen/(\w+)\.v)", line (\d+)', log):
            path = m.group(1)
            f = m.group(2) or ("Gen/" + m.group(3))
            lemma = None
            fp = os.path.join(check.COQ, path)
            if os.path.exists(fp):
                for l in reversed(open(fp).read().splitlines()[:int(m.group(4))]):
                    mm = re.match(r"\s*(?:Lemma|Theorem|Definition)\s+(\w+)", l)
                    if mm:
                        lemma = mm.group(1); break
            broken.setdefault(f, {"at": path + ":" + m.group(4), "lemma": lemma})
        # files that did not get built because something they import failed
        for f in files:
            if f not in broken and not os.path.exists(os.path.join(check.COQ, "Refine", f + ".vo")):
                broken[f] = {"at": "not built: an imported refinement file failed", "lemma": None}
        out[sid] = {"not_translated": st.get("not_translated"), "broken_refine_files": broken}
        print(sid, "->", {k: v["lemma"] for k, v in broken.items()} or "refinement intact", st.get("not_translated") or "", flush=True)
    finally:
        subprocess.run(["git", "-C", REPO, "checkout", "--", "."], check=True)
check.regen()
subprocess.run("coq_makefile -f _CoqProject -o Makefile", shell=True, cwd=check.COQ)
check.build_coq([])
json.dump(out, open("/verif/seeded/refine_matrix.json", "w"), indent=1)
