#!/usr/bin/env python3
"""For every seeded change: apply it to /repo, regenerate coq/Gen with rs2v, rebuild coq/Refine/*.vo and record
which refinement files break (the translator tie on its own, without running any generated case)."""
import json, os, re, subprocess, sys, glob
sys.path.insert(0, "/verif")
import check
REPO = "/repo"
out = {}
files = ["Consts", "HelpersR", "SigCore", "SigSchemes", "PoK", "SignCrypt", "TimeLock", "ElGamal", "WSig", "WPoK", "WEnc"]
assert not subprocess.run(["git", "-C", REPO, "status", "--porcelain"], capture_output=True).stdout.strip()
for d in sorted(glob.glob("/verif/seeded/C*-m*")):
    sid = os.path.basename(d)
    subprocess.run(["git", "-C", REPO, "apply", os.path.join(d, "patch.diff")], check=True)
    try:
        ok, log, st = check.regen()
        broken = {}
        for f in files:
            rok, rlog = check.build_coq(["Refine/%s.vo" % f])
            if not rok:
                m = re.search(r'File "([^"]+)", line (\d+)', rlog)
                lemma = None
                if m:
                    p = os.path.join(check.COQ, m.group(1))
                    if os.path.exists(p):
                        for l in reversed(open(p).read().splitlines()[:int(m.group(2))]):
                            mm = re.match(r"\s*(?:Lemma|Theorem|Definition)\s+(\w+)", l)
                            if mm:
                                lemma = mm.group(1); break
                broken[f] = {"at": (m.group(1) + ":" + m.group(2)) if m else "?", "lemma": lemma}
        out[sid] = {"not_translated": st.get("not_translated"), "broken_refine_files": broken}
        print(sid, "->", {k: v["lemma"] for k, v in broken.items()} or "refinement intact", st.get("not_translated") or "", flush=True)
    finally:
        subprocess.run(["git", "-C", REPO, "checkout", "--", "."], check=True)
check.regen()
check.build_coq([])
json.dump(out, open("/verif/seeded/refine_matrix.json", "w"), indent=1)
