#!/bin/sh
# One-time offline build of the verification framework (MANIFEST.setup_cmd).
set -e
cd "$(dirname "$0")"
export CARGO_NET_OFFLINE=true
exec python3 check.py --setup
