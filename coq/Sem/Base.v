(* The fragment of Rust semantics the model is written in:
   bytes, results, the outcome monad (value / panic / non-termination), build mode. *)
From Coq Require Export String Ascii.
From Coq Require Export List NArith ZArith Bool Lia.
Export ListNotations.
Open Scope N_scope.

Definition byte := N.
Definition bytes := list N.

(* every byte of a wire string is < 256; needed only where bytes are recombined arithmetically *)
Definition wfb (l : bytes) : Prop := Forall (fun b => b < 256) l.
Definition wfbb (l : bytes) : bool := forallb (fun b => b <? 256) l.

Lemma wfbb_spec l : wfbb l = true <-> wfb l.
Proof.
  unfold wfbb, wfb. rewrite forallb_forall, Forall_forall.
  split; intros H x Hx; specialize (H x Hx); [apply N.ltb_lt|apply N.ltb_lt]; exact H.
Qed.

Definition bytes_of_string (s : String.string) : bytes :=
  List.map (fun c => Ascii.N_of_ascii c) (String.list_ascii_of_string s).
(* b"..." literals *)
Definition bs (s : String.string) : bytes := bytes_of_string s.
Arguments bs _%string.

(* BlsError, by kind (message texts are not modelled) *)
Inductive err : Set :=
| SigningError | InvalidInputs | InvalidSignature | InvalidProof
| InvalidSignatureScheme | InvalidDecryptionShare | VsssError | DeserializationError.

Inductive res (A : Type) : Type := Ok (a : A) | Err (e : err).
Arguments Ok {A} a.
Arguments Err {A} e.

Definition is_ok {A} (r : res A) : bool := match r with Ok _ => true | Err _ => false end.

(* Outcome of running a piece of Rust: a value, a panic (unwrap/index/overflow/
   debug assertion), or non-termination of a retry loop. *)
Inductive M (A : Type) : Type := Val (a : A) | Panic | Loop.
Arguments Val {A} a.
Arguments Panic {A}.
Arguments Loop {A}.

Definition bind {A B} (m : M A) (k : A -> M B) : M B :=
  match m with Val a => k a | Panic => Panic | Loop => Loop end.

Notation "x <- m ;; k" := (bind m (fun x => k))
  (at level 61, m at next level, right associativity).
Notation "' pat <- m ;; k" := (bind m (fun x => match x with pat => k end))
  (at level 61, pat pattern, m at next level, right associativity).

(* the `?` operator inside a function returning BlsResult *)
Definition bind_res {A B} (m : M (res A)) (k : A -> M (res B)) : M (res B) :=
  bind m (fun r => match r with Ok a => k a | Err e => Val (Err e) end).
Notation "x <-? m ;; k" := (bind_res m (fun x => k))
  (at level 61, m at next level, right associativity).
Notation "' pat <-? m ;; k" := (bind_res m (fun x => match x with pat => k end))
  (at level 61, pat pattern, m at next level, right associativity).

Definition ret_ok {A} (a : A) : M (res A) := Val (Ok a).
Definition ret_err {A} (e : err) : M (res A) := Val (Err e).

(* debug_assert!: panics only in a build with debug assertions *)
Definition dassert {A} (dbg : bool) (c : bool) (k : M A) : M A :=
  if dbg && negb c then Panic else k.

Definition is_val {A} (m : M A) : bool := match m with Val _ => true | _ => false end.

Lemma bind_val {A B} (a : A) (k : A -> M B) : bind (Val a) k = k a.
Proof. reflexivity. Qed.

Lemma dassert_true {A} dbg (k : M A) : dassert dbg true k = k.
Proof. unfold dassert. rewrite andb_false_r. reflexivity. Qed.

Lemma dassert_release {A} c (k : M A) : dassert false c k = k.
Proof. reflexivity. Qed.

(* fold with early exit, used for loops that can return/panic inside *)
Fixpoint foldM {A S} (f : S -> A -> M S) (l : list A) (s : S) : M S :=
  match l with
  | [] => Val s
  | x :: xs => s' <- f s x ;; foldM f xs s'
  end.

Fixpoint mapM {A B} (f : A -> M B) (l : list A) : M (list B) :=
  match l with
  | [] => Val []
  | x :: xs => y <- f x ;; ys <- mapM f xs ;; Val (y :: ys)
  end.

(* map with `?` inside *)
Fixpoint mapR {A B} (f : A -> res B) (l : list A) : res (list B) :=
  match l with
  | [] => Ok []
  | x :: xs => match f x with
               | Err e => Err e
               | Ok y => match mapR f xs with Err e => Err e | Ok ys => Ok (y :: ys) end
               end
  end.

Definition repeatN (b : N) (n : nat) : bytes := List.repeat b n.

Fixpoint seqN (start : N) (len : nat) : list N :=
  match len with O => [] | S k => start :: seqN (start + 1) k end.
