(* Abstract field: operations as a record (so the model runs on any instance),
   laws as a separate proposition (so theorems state exactly what they assume). *)
From Coq Require Import Ring Field Setoid Bool.

Record FieldOps : Type := mkFieldOps {
  car  : Type;
  f0   : car;
  f1   : car;
  fadd : car -> car -> car;
  fmul : car -> car -> car;
  fsub : car -> car -> car;
  fopp : car -> car;
  finv : car -> car;
  feqb : car -> car -> bool
}.

Definition fdiv (K : FieldOps) (a b : car K) : car K := fmul K a (finv K b).

Record FieldLaws (K : FieldOps) : Prop := mkFieldLaws {
  fl_field : field_theory (f0 K) (f1 K) (fadd K) (fmul K) (fsub K) (fopp K)
                          (fdiv K) (finv K) (@eq (car K));
  fl_eqb   : forall a b : car K, feqb K a b = true <-> a = b
}.

Section FieldFacts.
  Context (K : FieldOps) (laws : FieldLaws K).

  Notation F := (car K).
  Notation "0" := (f0 K).
  Notation "1" := (f1 K).
  Infix "+" := (fadd K).
  Infix "*" := (fmul K).
  Infix "-" := (fsub K).
  Notation "- x" := (fopp K x).
  Notation "/ x" := (finv K x).

  Lemma K_field : field_theory 0 1 (fadd K) (fmul K) (fsub K) (fopp K) (fdiv K) (finv K) (@eq F).
  Proof. exact (fl_field K laws). Qed.

  Add Field Kf : K_field.

  Lemma feqb_true a b : feqb K a b = true <-> a = b.
  Proof. exact (fl_eqb K laws a b). Qed.

  Lemma feqb_refl a : feqb K a a = true.
  Proof. apply feqb_true; reflexivity. Qed.

  Lemma feqb_false a b : feqb K a b = false <-> a <> b.
  Proof.
    split.
    - intros H E. apply feqb_true in E. congruence.
    - intros H. destruct (feqb K a b) eqn:E; [apply feqb_true in E; contradiction | reflexivity].
  Qed.

  Lemma feq_dec (a b : F) : {a = b} + {a <> b}.
  Proof.
    destruct (feqb K a b) eqn:E.
    - left; apply feqb_true; exact E.
    - right; apply feqb_false; exact E.
  Qed.

  Lemma f1_neq_0 : 1 <> 0.
  Proof. exact (F_1_neq_0 K_field). Qed.

  Lemma finv_l a : a <> 0 -> / a * a = 1.
  Proof. exact (Finv_l K_field a). Qed.

  Lemma fmul_0_l a : 0 * a = 0.  Proof. ring. Qed.
  Lemma fmul_0_r a : a * 0 = 0.  Proof. ring. Qed.
  Lemma fadd_0_l a : 0 + a = a.  Proof. ring. Qed.
  Lemma fadd_0_r a : a + 0 = a.  Proof. ring. Qed.
  Lemma fmul_1_l a : 1 * a = a.  Proof. ring. Qed.
  Lemma fmul_1_r a : a * 1 = a.  Proof. ring. Qed.

  (* no zero divisors *)
  Lemma fmul_integral a b : a * b = 0 -> a = 0 \/ b = 0.
  Proof.
    intros H. destruct (feq_dec a 0) as [Ha|Ha]; [left; exact Ha|right].
    assert (E : b = / a * (a * b)) by (field; exact Ha).
    rewrite E, H. ring.
  Qed.

  Lemma fmul_neq_0 a b : a <> 0 -> b <> 0 -> a * b <> 0.
  Proof. intros Ha Hb H. destruct (fmul_integral a b H); contradiction. Qed.

  Lemma fmul_cancel_l a b c : a <> 0 -> a * b = a * c -> b = c.
  Proof.
    intros Ha H.
    assert (E : a * (b - c) = 0) by (transitivity (a * b - a * c); [ring | rewrite H; ring]).
    destruct (fmul_integral _ _ E) as [E1|E1]; [contradiction|].
    transitivity ((b - c) + c); [ring | rewrite E1; ring].
  Qed.

  Lemma fmul_cancel_r a b c : a <> 0 -> b * a = c * a -> b = c.
  Proof.
    intros Ha H. apply (fmul_cancel_l a); [exact Ha|].
    transitivity (b * a); [ring|]. rewrite H. ring.
  Qed.

  Lemma fsub_eq_0 a b : a - b = 0 <-> a = b.
  Proof.
    split; intros H.
    - transitivity ((a - b) + b); [ring | rewrite H; ring].
    - rewrite H; ring.
  Qed.

  Lemma fopp_eq_0 a : - a = 0 <-> a = 0.
  Proof.
    split; intros H.
    - transitivity (- - a); [ring | rewrite H; ring].
    - rewrite H; ring.
  Qed.

  Lemma fadd_cancel_r a b c : a + c = b + c -> a = b.
  Proof. intros H. transitivity ((a + c) - c); [ring | rewrite H; ring]. Qed.

  Lemma finv_neq_0 a : a <> 0 -> / a <> 0.
  Proof.
    intros Ha H. apply f1_neq_0. rewrite <- (finv_l a Ha), H. ring.
  Qed.
End FieldFacts.
