(* The pairing groups in discrete-log form.
   Every prime-order cyclic group is (Z_r,+) after fixing a generator and every
   non-degenerate bilinear map on such groups is multiplication in Z_r: a point is
   represented by its discrete logarithm w.r.t. the fixed generator of its group. *)
From BV Require Import Alg.Field.
From Coq Require Import List Ring Field.
Import ListNotations.

Inductive grp : Set := Gsig | Gpk | Gt.

Section Dlog.
  Context (K : FieldOps).
  Notation F := (car K).

  Record pt (g : grp) : Type := mkpt { dl : F }.
  Arguments mkpt {g} _.
  Arguments dl {g} _.

  Definition pid {g} : pt g := mkpt (f0 K).
  Definition pgen {g} : pt g := mkpt (f1 K).
  Definition padd {g} (a b : pt g) : pt g := mkpt (fadd K (dl a) (dl b)).
  Definition psub {g} (a b : pt g) : pt g := mkpt (fsub K (dl a) (dl b)).
  Definition pneg {g} (a : pt g) : pt g := mkpt (fopp K (dl a)).
  Definition pmul {g} (a : pt g) (s : F) : pt g := mkpt (fmul K (dl a) s).
  Definition is_id {g} (a : pt g) : bool := feqb K (dl a) (f0 K).
  Definition peqb {g} (a b : pt g) : bool := feqb K (dl a) (dl b).
  Definition is_zero_s (s : F) : bool := feqb K s (f0 K).

  Definition psum {g} (l : list (pt g)) : pt g := fold_left padd l pid.

  Fixpoint pairing_dl (l : list (pt Gsig * pt Gpk)) : F :=
    match l with
    | [] => f0 K
    | (a, b) :: r => fadd K (fmul K (dl a) (dl b)) (pairing_dl r)
    end.
  Definition pairing (l : list (pt Gsig * pt Gpk)) : pt Gt := mkpt (pairing_dl l).
End Dlog.

Arguments mkpt {K g} _.
Arguments dl {K g} _.
Arguments pid {K g}.
Arguments pgen {K g}.
Arguments padd {K g} _ _.
Arguments psub {K g} _ _.
Arguments pneg {K g} _.
Arguments pmul {K g} _ _.
Arguments is_id {K g} _.
Arguments peqb {K g} _ _.
Arguments psum {K g} _.
Arguments pairing {K} _.
Arguments pairing_dl {K} _.
Arguments is_zero_s {K} _.

Section DlogFacts.
  Context (K : FieldOps) (laws : FieldLaws K).
  Add Field Kf2 : (K_field K laws).

  Lemma pt_eq {g} (a b : pt K g) : dl a = dl b -> a = b.
  Proof. destruct a, b; simpl; intros ->; reflexivity. Qed.

  Lemma is_id_true {g} (a : pt K g) : is_id a = true <-> a = pid.
  Proof.
    unfold is_id. rewrite (feqb_true K laws). split.
    - intros H. apply pt_eq. exact H.
    - intros ->. reflexivity.
  Qed.

  Lemma is_id_dl {g} (a : pt K g) : is_id a = true <-> dl a = f0 K.
  Proof. unfold is_id. apply (feqb_true K laws). Qed.

  Lemma is_id_false {g} (a : pt K g) : is_id a = false <-> dl a <> f0 K.
  Proof. unfold is_id. apply (feqb_false K laws). Qed.

  Lemma is_zero_s_true s : @is_zero_s K s = true <-> s = f0 K.
  Proof. apply (feqb_true K laws). Qed.
  Lemma is_zero_s_false s : @is_zero_s K s = false <-> s <> f0 K.
  Proof. apply (feqb_false K laws). Qed.

  Lemma pairing_dl_app l1 l2 :
    @pairing_dl K (l1 ++ l2) = fadd K (pairing_dl l1) (pairing_dl l2).
  Proof.
    induction l1 as [|[a b] l1 IH]; simpl.
    - ring.
    - rewrite IH. ring.
  Qed.

  Lemma fold_padd_dl {g} (l : list (pt K g)) (acc : pt K g) :
    dl (fold_left padd l acc) = fadd K (dl acc) (dl (psum l)).
  Proof.
    unfold psum. revert acc. induction l as [|x l IH]; intros acc; simpl.
    - ring.
    - rewrite IH. rewrite (IH (padd pid x)). simpl. ring.
  Qed.

  Lemma psum_cons {g} (x : pt K g) l : dl (psum (x :: l)) = fadd K (dl x) (dl (psum l)).
  Proof. unfold psum at 1. simpl. rewrite fold_padd_dl. simpl. ring. Qed.

  Lemma psum_nil {g} : dl (@psum K g []) = f0 K.
  Proof. reflexivity. Qed.
End DlogFacts.
