(* src/traits/{sig_proof,sign_crypt,time_crypt,elgamal}.rs *)
From BV Require Import Alg.Field Alg.Dlog Sem.Base Model.Oracles Model.Helpers Model.Varint Model.Core.

Definition SALT_POK : bytes := bs "BLS_POK__BLS12381_XOF:HKDF-SHA2-256_".
Definition SALT_SIGNCRYPT : bytes := bs "SIGNCRYPT_BLS12381_XOF:HKDF-SHA2-256_".
Definition SALT_TIMELOCK : bytes := bs "TIMELOCK_BLS12381_XOF:HKDF-SHA2-256_".
Definition SALT_ELGAMAL : bytes := bs "ELGAMAL_BLS12381_XOF:HKDF-SHA2-256_".

(* u64::to_le_bytes *)
Fixpoint le_bytes (n : nat) (x : N) : bytes :=
  match n with O => [] | S k => (x mod 256) :: le_bytes k (x / 256) end.
Definition le64 (t : N) : bytes := le_bytes 8 t.

Definition all_zero (l : bytes) : bool := forallb (fun b => b =? 0) l.

(* retries of `while x.is_zero() { x = Scalar::random(get_crypto_rng()) }` *)
Definition RETRY_FUEL : nat := 64.   (* = Refine.Prelude.WHILE_FUEL: the bound that stands for non-termination *)

Section Protocols.
  Context {K : FieldOps} (O : Oracles K) (C : Impl) (dbg : bool).
  Notation F := (car K).
  Notation sigpt := (pt K Gsig).
  Notation pkpt := (pt K Gpk).
  Notation H := (hash_to_point O).

  (* The entropy source: the i-th call of get_crypto_rng() in a process returns a generator
     seeded with `ent i`.  A world is the number of draws made so far. *)
  Variable ent : nat -> bytes.

  (* let mut x = Scalar::random(get_crypto_rng()); while x.is_zero() { x = Scalar::random(get_crypto_rng()) } *)
  Fixpoint draw_nonzero_scalar (fuel : nat) (w : nat) : M (F * nat) :=
    match fuel with
    | 0%nat => Loop
    | S f => let x := rng_scalar O (ent w) 0 in
             if is_zero_s x then draw_nonzero_scalar f (S w) else Val (x, S w)
    end.

  (* ================= sig_proof.rs ================= *)
  Definition generate_commitment (msg dst : bytes) (w : nat) : M (res (sigpt * F) * nat) :=
    '(x, w') <- draw_nonzero_scalar RETRY_FUEL w ;;
    let a := H msg dst in
    Val (Ok (pmul a x, x), w').

  Definition compute_y (u : sigpt) (t : N) : M F :=
    hash_to_scalar O (enc O u ++ le64 t) SALT_POK.

  (* now_ms: SystemTime::now().duration_since(UNIX_EPOCH).unwrap().as_millis() as u64 *)
  Definition generate_timestamp_based_y (u : sigpt) (now_ns : N) : M (F * N) :=
    let t := (now_ns / 1000000) mod 2 ^ 64 in
    y <- compute_y u t ;; Val (y, t).

  Definition generate_proof (commitment : sigpt) (x y : F) (sig : sigpt) : res (sigpt * sigpt) :=
    if is_id commitment then Err InvalidInputs
    else if is_id sig then Err InvalidInputs
    else if is_zero_s x then Err InvalidInputs
    else if is_zero_s y then Err InvalidInputs
    else Ok (commitment, pneg (pmul sig (fadd K x y))).

  Definition generate_timestamp_proof (msg dst : bytes) (sig : sigpt) (now_ns : N) (w : nat)
    : M (res (sigpt * sigpt * N) * nat) :=
    if is_id sig then Val (Err InvalidInputs, w)
    else
      '(x, w') <- draw_nonzero_scalar RETRY_FUEL w ;;
      let a := H msg dst in
      dassert dbg (negb (is_id a)) (
      let u := pmul a x in
      dassert dbg (negb (is_id u)) (
      '(y, t) <- generate_timestamp_based_y u now_ns ;;
      dassert dbg (negb (is_zero_s y)) (
      let v := pmul sig (fadd K x y) in
      dassert dbg (negb (is_id v)) (
      Val (Ok (u, pneg v, t), w'))))).

  Definition pok_verify (commitment proof : sigpt) (pk : pkpt) (y : F) (msg dst : bytes)
    : M (res unit) :=
    if is_id commitment then ret_err InvalidInputs
    else if is_id proof then ret_err InvalidInputs
    else if is_id pk then ret_err InvalidInputs
    else if is_zero_s y then ret_err InvalidInputs
    else
      let a := H msg dst in
      dassert dbg (negb (is_id a)) (
      if is_id (pairing [(proof, pgen); (padd commitment (pmul a y), pk)])
      then ret_ok tt else ret_err InvalidProof).

  (* elapsed = now.duration_since(UNIX_EPOCH + t ms): Err when `since` is later than now *)
  Definition elapsed_ms (now_ns t : N) : option N :=
    let since_ns := t * 1000000 in
    if since_ns <=? now_ns then Some (((now_ns - since_ns) / 1000000) mod 2 ^ 64) else None.

  Definition verify_timestamp_proof (commitment proof : sigpt) (pk : pkpt) (t : N)
             (timeout_ms : option N) (msg dst : bytes) (now_ns : N) : M (res unit) :=
    let expired :=
      match timeout_ms with
      | None => false
      | Some tmo => match elapsed_ms now_ns t with
                   | Some e => tmo <? e
                   | None => true
                   end
      end in
    if expired then ret_err InvalidProof
    else
      y <- compute_y commitment t ;;
      dassert dbg (negb (is_zero_s y)) (pok_verify commitment proof pk y msg dst).

  (* ================= sign_crypt.rs ================= *)
  Definition sc_compute_v (uar : pkpt) (r : bytes) : M bytes :=
    let v := xof O (enc O uar) (length r) in
    dassert dbg (Nat.ltb (length v) 32 || negb (all_zero v)) (byte_xor dbg r v).

  Definition sc_compute_w (u : pkpt) (v dst : bytes) : sigpt :=
    H (enc O u ++ v) dst.

  Definition sc_seal (pk : pkpt) (message dst : bytes) (seed : bytes) : M (pkpt * bytes * sigpt) :=
    r <- hash_to_scalar O (rng_bytes32 O seed) SALT_SIGNCRYPT ;;
    dassert dbg (negb (is_zero_s r)) (
    let u := pmul (@pgen K Gpk) r in
    dassert dbg (negb (is_id u)) (
    let overhead_bytes := frame message in
    v <- sc_compute_v (pmul pk r) overhead_bytes ;;
    let w := pmul (sc_compute_w u v dst) r in
    dassert dbg (negb (is_id w)) (Val (u, v, w)))).

  Definition sc_valid (u : pkpt) (v : bytes) (w : sigpt) (dst : bytes) : M bool :=
    let w_tick := sc_compute_w u v dst in
    dassert dbg (negb (is_id w_tick)) (
    let g := pneg (@pgen K Gpk) in
    let pair_result := pairing [(w, g); (w_tick, u)] in
    Val (is_id pair_result && negb (is_id u) && negb (is_id w))).

  (* CtOption<Vec<u8>> as option *)
  Definition sc_decrypt (v : bytes) (ua : pkpt) (valid : bool) : M (option bytes) :=
    plaintext <- sc_compute_v ua v ;;
    uf <- unframe false plaintext ;;
    match uf with
    | UfMsg m => Val (if valid then Some m else None)
    | _ => Val None
    end.

  Definition sc_unseal (u : pkpt) (v : bytes) (w : sigpt) (sk : F) (dst : bytes) : M (option bytes) :=
    valid <- sc_valid u v w dst ;;
    let ua := pmul u (if valid then sk else f0 K) in
    sc_decrypt v ua valid.

  Definition sc_unseal_with_shares (u : pkpt) (v : bytes) (w : sigpt) (shares : list share)
             (dst : bytes) : M (option bytes) :=
    if Nat.ltb (length shares) 2 then Val None
    else
      r <- core_combine_public_key_shares O shares ;;
      match r with
      | Err _ => Val None          (* shares that do not combine open nothing *)
      | Ok ua => valid <- sc_valid u v w dst ;; sc_decrypt v ua valid
      end.

  Definition sc_create_decryption_share (sh : share) (u : pkpt) : M (res share) :=
    match share_as_field_element O sh with
    | Err e => ret_err e
    | Ok sk =>
      if is_zero_s sk then ret_err InvalidInputs
      else if is_id u then ret_err InvalidInputs
      else
        let sig := pmul u sk in
        (* the trait function stores the public-key-group point in a SignatureShare container
           (not called by the wrapper API, which uses public_key_share_with_generator) *)
        dassert dbg (negb (is_id sig)) (Val (share_with (SIG_LEN C) (sid sh) (enc O sig)))
    end.

  Definition sc_verify_share (sh pk u : pkpt) (v : bytes) (w : sigpt) (dst : bytes) : M bool :=
    let hash := pneg (sc_compute_w u v dst) in
    dassert dbg (negb (is_id hash)) (
    Val (negb (is_id sh) && negb (is_id pk) && negb (is_id w)
         && is_id (pairing [(hash, sh); (w, pk)]))).

  (* ================= time_crypt.rs ================= *)
  Definition tl_compute_v (k_tick : pt K Gt) (alpha_or_v : bytes) : M bytes :=
    let output := sha O (enc O k_tick) in
    result <- byte_xor dbg alpha_or_v output ;;
    if Nat.eqb (length result) 32 then Val result else Panic.

  Definition tl_compute_w (alpha msg : bytes) : M bytes :=
    let w := xof O alpha (length msg) in
    dassert dbg (Nat.ltb (length w) 32 || negb (all_zero w)) (byte_xor dbg msg w).

  Definition tl_seal (pk : pkpt) (message id dst : bytes) (seed : bytes)
    : M (res (pkpt * bytes * bytes)) :=
    if is_id pk then ret_err InvalidInputs
    else
      alpha <- hash_to_scalar O (rng_bytes32 O seed) SALT_TIMELOCK ;;
      dassert dbg (negb (is_zero_s alpha)) (
      let msg_dst := sha O message in
      let r_input := repr O alpha ++ msg_dst in
      r <- hash_to_scalar O r_input SALT_TIMELOCK ;;
      dassert dbg (negb (is_zero_s r)) (
      let k_rhs := pmul pk r in
      dassert dbg (negb (is_id k_rhs)) (
      let k_lhs := H id dst in
      dassert dbg (negb (is_id k_lhs)) (
      let k := pairing [(k_lhs, k_rhs)] in
      dassert dbg (negb (is_id k)) (
      let u := pmul (@pgen K Gpk) r in
      dassert dbg (negb (is_id u)) (
      v <- tl_compute_v k (repr O alpha) ;;
      let overhead_bytes := frame message in
      w <- tl_compute_w (repr O alpha) overhead_bytes ;;
      ret_ok (u, v, w))))))).

  Definition tl_unseal (u : pkpt) (v w : bytes) (decryption_key : sigpt) (is_valid : bool)
    : M (option bytes) :=
    let valid_sk := negb (is_id decryption_key) && negb (is_id u) in
    let k := pairing [(decryption_key, u)] in
    alpha <- tl_compute_v k v ;;
    plaintext <- tl_compute_w alpha w ;;
    uf <- unframe true plaintext ;;
    match uf with
    | UfRange => Val None
    | _ =>
      let message := match uf with UfMsg m => m | _ => [] end in
      let msg_dst := sha O message in
      let r_input := alpha ++ msg_dst in
      r <- hash_to_scalar O r_input SALT_TIMELOCK ;;
      dassert dbg (negb (is_zero_s r)) (
      let ok := is_id (psub (pmul (@pgen K Gpk) r) u) && is_valid && valid_sk in
      Val (if ok then Some message else None))
    end.

  (* ================= elgamal.rs ================= *)
  Definition message_generator : pkpt := mkpt (eta_pk O (enc O (@pgen K Gpk)) (ENC_DST C)).

  (* `rng` is the generator handed in by the caller: (seed, number of scalars already taken) *)
  Definition eg_seal_scalar (pk : pkpt) (message : F) (generator : option pkpt)
             (blinder : option F) (seed : bytes) (k : nat) : M (res (pkpt * pkpt)) :=
    let generator := match generator with Some g => g | None => message_generator end in
    if is_id generator || is_id pk then ret_err InvalidInputs
    else
      let blinder := match blinder with Some b => b | None => rng_scalar O seed k end in
      dassert dbg (negb (is_zero_s blinder)) (
      let ek := pmul generator message in
      dassert dbg (negb (is_id ek)) (
      let c1 := pmul (@pgen K Gpk) blinder in
      dassert dbg (negb (is_id c1)) (
      let c2 := padd (pmul pk blinder) ek in
      dassert dbg (negb (is_id c2)) (ret_ok (c1, c2))))).

  Definition eg_seal_point (pk message : pkpt) (blinder : option F) (seed : bytes) (k : nat)
    : M (res (pkpt * pkpt)) :=
    if is_id pk then ret_err InvalidInputs
    else
      let blinder := match blinder with Some b => b | None => rng_scalar O seed k end in
      dassert dbg (negb (is_zero_s blinder)) (
      let c1 := pmul (@pgen K Gpk) blinder in
      dassert dbg (negb (is_id c1)) (
      let c2 := padd (pmul pk blinder) message in
      dassert dbg (negb (is_id c2)) (ret_ok (c1, c2)))).

  Definition eg_transcript (pk generator c1 c2 r1 r2 : pkpt) : F :=
    fs O (bs "ElGamalProof")
       [ (bs "dst", SALT_ELGAMAL);
         (bs "base point", enc O (@pgen K Gpk));
         (bs "pk", enc O pk);
         (bs "generator", enc O generator);
         (bs "c1", enc O c1);
         (bs "c2", enc O c2);
         (bs "r1", enc O r1);
         (bs "r2", enc O r2) ]
       (bs "challenge").

  Definition eg_seal_scalar_with_proof (pk : pkpt) (message : F) (generator : option pkpt)
             (blinder : option F) (seed : bytes) : M (res (pkpt * pkpt * F * F * F)) :=
    if is_id pk then ret_err InvalidInputs
    else
      let generator := match generator with Some g => g | None => message_generator end in
      dassert dbg (negb (is_id generator)) (
      let '(b, k) := match blinder with Some b => (b, 0%nat) | None => (rng_scalar O seed 0, 1%nat) end in
      dassert dbg (negb (is_zero_s b)) (
      let r := rng_scalar O seed k in
      dassert dbg (negb (is_zero_s r)) (
      '(c1, c2) <-? eg_seal_scalar pk message (Some generator) (Some b) seed (S k) ;;
      dassert dbg (negb (is_id c1)) (
      dassert dbg (negb (is_id c2)) (
      '(r1, r2) <-? eg_seal_scalar pk b (Some generator) (Some r) seed (S k) ;;
      dassert dbg (negb (is_id r1)) (
      dassert dbg (negb (is_id r2)) (
      let challenge := eg_transcript pk generator c1 c2 r1 r2 in
      dassert dbg (negb (is_zero_s challenge)) (
      let message_proof := fadd K b (fmul K challenge message) in
      dassert dbg (negb (is_zero_s message_proof)) (
      let blinder_proof := fadd K r (fmul K challenge b) in
      dassert dbg (negb (is_zero_s blinder_proof)) (
      ret_ok (c1, c2, message_proof, blinder_proof, challenge))))))))))).

  Definition eg_decrypt (sk : F) (c1 c2 : pkpt) : pkpt := psub c2 (pmul c1 sk).

  Definition eg_verify_proof (pk : pkpt) (generator : option pkpt) (c1 c2 : pkpt)
             (message_proof blinder_proof challenge : F) : res unit :=
    let generator := match generator with Some g => g | None => message_generator end in
    if is_id pk || is_id generator || is_id c1 || is_id c2 then Err InvalidInputs
    else if is_zero_s message_proof || is_zero_s blinder_proof || is_zero_s challenge
    then Err InvalidInputs
    else
      let neg_challenge := fopp K challenge in
      let r1 := padd (pmul c1 neg_challenge) (pmul (@pgen K Gpk) blinder_proof) in
      let r2 := padd (padd (pmul c2 neg_challenge) (pmul generator message_proof))
                     (pmul pk blinder_proof) in
      let challenge_verifier := eg_transcript pk generator c1 c2 r1 r2 in
      if negb (feqb K challenge challenge_verifier) then Err InvalidInputs else Ok tt.

  Definition eg_verify_and_decrypt (sk : F) (generator : option pkpt) (c1 c2 : pkpt)
             (message_proof blinder_proof challenge : F) : res pkpt :=
    if is_zero_s sk then Err InvalidInputs
    else
      let pk := pmul (@pgen K Gpk) sk in
      match eg_verify_proof pk generator c1 c2 message_proof blinder_proof challenge with
      | Err e => Err e
      | Ok _ => Ok (eg_decrypt sk c1 c2)
      end.
End Protocols.
