(* src/traits/{sig_core,sig_basic,sig_aug,sig_pop,sig_multi,pk_multi}.rs and the
   vsss-rs share containers / combination they call. *)
From BV Require Import Alg.Field Alg.Dlog Sem.Base Model.Oracles Model.Helpers.

(* The per-implementation constants (src/impls/g1.rs, g2.rs) *)
Record Impl : Type := mkImpl {
  DST_NUL : bytes;      (* BlsSignatureBasic::DST *)
  DST_AUG : bytes;      (* BlsSignatureMessageAugmentation::DST *)
  DST_POPSIG : bytes;   (* BlsSignaturePop::SIG_DST *)
  DST_POP : bytes;      (* BlsSignaturePop::POP_DST *)
  ENC_DST : bytes;      (* BlsElGamal::ENC_DST *)
  SIG_LEN : nat;        (* compressed signature-group point *)
  PK_LEN : nat          (* compressed public-key-group point *)
}.

Definition G1Impl : Impl := {|
  DST_NUL    := bs "BLS_SIG_BLS12381G1_XMD:SHA-256_SSWU_RO_NUL_";
  DST_AUG    := bs "BLS_SIG_BLS12381G1_XMD:SHA-256_SSWU_RO_AUG_";
  DST_POPSIG := bs "BLS_SIG_BLS12381G1_XMD:SHA-256_SSWU_RO_POP_";
  DST_POP    := bs "BLS_POP_BLS12381G1_XMD:SHA-256_SSWU_RO_POP_";
  ENC_DST    := bs "BLS_ELGAMAL_BLS12381G2_XMD:SHA-256_SSWU_RO_NUL_";
  SIG_LEN := 48; PK_LEN := 96 |}.

Definition G2Impl : Impl := {|
  DST_NUL    := bs "BLS_SIG_BLS12381G2_XMD:SHA-256_SSWU_RO_NUL_";
  DST_AUG    := bs "BLS_SIG_BLS12381G2_XMD:SHA-256_SSWU_RO_AUG_";
  DST_POPSIG := bs "BLS_SIG_BLS12381G2_XMD:SHA-256_SSWU_RO_POP_";
  DST_POP    := bs "BLS_POP_BLS12381G2_XMD:SHA-256_SSWU_RO_POP_";
  ENC_DST    := bs "BLS_ELGAMAL_BLS12381G1_XMD:SHA-256_SSWU_RO_NUL_";
  SIG_LEN := 96; PK_LEN := 48 |}.

(* A vsss-rs share container [u8; L]: identifier byte, then the value bytes *)
Record share : Type := mkshare { sid : N; sval : bytes }.

Section Core.
  Context {K : FieldOps} (O : Oracles K) (C : Impl) (dbg : bool).
  Notation F := (car K).
  Notation sigpt := (pt K Gsig).
  Notation pkpt := (pt K Gpk).

  Definition hash_to_point (m dst : bytes) : sigpt := mkpt (eta O m dst).

  (* ---- BlsSignatureCore ---- *)
  Definition public_key (sk : F) : pkpt := pmul pgen sk.

  (* Share::as_field_element / as_group_element; vsss errors become BlsError::VsssError *)
  Definition share_as_field_element (s : share) : res F :=
    match unrepr O (sval s) with Some x => Ok x | None => Err VsssError end.
  Definition share_as_pk (s : share) : res pkpt :=
    match dec_pk O (sval s) with Some x => Ok (mkpt x) | None => Err VsssError end.
  Definition share_as_sig (s : share) : res sigpt :=
    match dec_sig O (sval s) with Some x => Ok (mkpt x) | None => Err VsssError end.

  (* empty_share_with_capacity; identifier_mut; value_mut(buffer): needs buffer.len() >= L-1 *)
  Definition share_with (cap : nat) (id : N) (value : bytes) : res share :=
    if Nat.ltb (length value) cap then Err VsssError
    else Ok (mkshare id (firstn cap value)).

  Definition public_key_share_with_generator (sks : share) (generator : pkpt) : res share :=
    match share_as_field_element sks with
    | Err e => Err e
    | Ok sk => let pk := pmul generator sk in
               share_with (PK_LEN C) (sid sks) (enc O pk)
    end.

  Definition public_key_share (sks : share) : res share :=
    public_key_share_with_generator sks pgen.

  Definition aggregate_signatures (sigs : list sigpt) : sigpt := fold_left padd sigs pid.
  Definition aggregate_public_keys (pks : list pkpt) : pkpt := fold_left padd pks pid.

  Definition core_sign (sk : F) (msg dst : bytes) : res sigpt :=
    if is_zero_s sk then Err SigningError
    else Ok (pmul (hash_to_point msg dst) sk).

  Definition core_partial_sign (sks : share) (msg dst : bytes) : res share :=
    match share_as_field_element sks with
    | Err e => Err e
    | Ok sk =>
      match core_sign sk msg dst with
      | Err e => Err e
      | Ok sig => share_with (SIG_LEN C) (sid sks) (enc O sig)
      end
    end.

  Definition core_verify (pk : pkpt) (sig : sigpt) (msg dst : bytes) : res unit :=
    if is_id sig then Err InvalidInputs
    else if is_id pk then Err InvalidInputs
    else
      let a := hash_to_point msg dst in
      let generator := pneg (@pgen K Gpk) in
      if is_id (pairing [(a, pk); (sig, generator)]) then Ok tt else Err InvalidSignature.

  Definition core_signature_share_verify (pks sig : share) (msg dst : bytes) : res unit :=
    if negb (sid pks =? sid sig) then Err InvalidInputs
    else match share_as_pk pks with
         | Err e => Err e
         | Ok pk => match share_as_sig sig with
                    | Err e => Err e
                    | Ok s => core_verify pk s msg dst
                    end
         end.

  (* for (i, (pk, msg)) in pks.enumerate() { identity check; a = hash; debug_assert; push } *)
  Fixpoint agg_pairs (pks : list (pkpt * bytes)) (dst : bytes)
           (pairs : list (sigpt * pkpt)) : M (res (list (sigpt * pkpt))) :=
    match pks with
    | [] => ret_ok pairs
    | (pk, msg) :: rest =>
      if is_id pk then ret_err InvalidInputs
      else
        let a := hash_to_point msg dst in
        dassert dbg (negb (is_id a))
          (agg_pairs rest dst (pairs ++ [(a, pk)]))
    end.

  Definition core_aggregate_verify (pks : list (pkpt * bytes)) (sig : sigpt) (dst : bytes)
    : M (res unit) :=
    if is_id sig then ret_err InvalidInputs
    else
      pairs <-? agg_pairs pks dst [] ;;
      let pairs := pairs ++ [(sig, pneg pgen)] in
      if is_id (pairing pairs) then ret_ok tt else ret_err InvalidSignature.

  (* vsss-rs combine: ShareSetCombiner::combine + dup_checker + interpolate, on dlogs.
     One function serves field elements and points of either group, a point being its dlog. *)
  Fixpoint prod_others (xs : list F) (i : nat) (xi : F) (j : nat) : F * F :=
    match xs with
    | [] => (f1 K, f1 K)
    | xj :: rest =>
      let '(num, den) := prod_others rest i xi (S j) in
      if Nat.eqb i j then (num, den)
      else (fmul K num xj, fmul K den (fsub K xj xi))
    end.

  (* basis_i = prod_{j<>i} x_j * (prod_{j<>i} (x_j - x_i))^-1; `expect` panics on a zero denominator *)
  Definition lagrange_basis (xs : list F) (i : nat) (xi : F) : M F :=
    let '(num, den) := prod_others xs i xi 0 in
    if is_zero_s den then Panic else Val (fmul K num (finv K den)).

  Fixpoint interpolate_from (xs : list F) (sh : list (F * F)) (i : nat) (acc : F) : M F :=
    match sh with
    | [] => Val acc
    | (xi, yi) :: rest =>
      b <- lagrange_basis xs i xi ;;
      interpolate_from xs rest (S i) (fadd K acc (fmul K yi b))
    end.

  Definition interpolate (sh : list (F * F)) : M F :=
    interpolate_from (map fst sh) sh 0 (f0 K).

  Fixpoint has_dup_x (xs : list F) : bool :=
    match xs with
    | [] => false
    | x :: rest => existsb (fun y => feqb K x y) rest || has_dup_x rest
    end.

  Fixpoint combine_collect (dec : bytes -> option F) (shares : list share) : res (list (F * F)) :=
    match shares with
    | [] => Ok []
    | s :: rest =>
      if sid s =? 0 then Err VsssError
      else match dec (sval s) with
           | None => Err VsssError
           | Some y =>
             match combine_collect dec rest with
             | Err e => Err e
             | Ok l => Ok ((of_u64 O (sid s), y) :: l)
             end
           end
    end.

  Definition combine_shares_with (dec : bytes -> option F) (shares : list share) : M (res F) :=
    if Nat.ltb (length shares) 2 then ret_err VsssError
    else match combine_collect dec shares with
         | Err e => ret_err e
         | Ok vals =>
           if has_dup_x (map fst vals) then ret_err VsssError
           else s <- interpolate vals ;; ret_ok s
         end.

  Definition core_combine_signature_shares (shares : list share) : M (res sigpt) :=
    r <- combine_shares_with (dec_sig O) shares ;;
    Val (match r with Ok x => Ok (mkpt x) | Err e => Err e end).
  Definition core_combine_public_key_shares (shares : list share) : M (res pkpt) :=
    r <- combine_shares_with (dec_pk O) shares ;;
    Val (match r with Ok x => Ok (mkpt x) | Err e => Err e end).
  Definition combine_secret_shares (shares : list share) : M (res F) :=
    combine_shares_with (unrepr O) shares.

  (* ---- BlsSignatureBasic ---- *)
  Definition basic_sign (sk : F) (msg : bytes) := core_sign sk msg (DST_NUL C).
  Definition basic_verify pk sig (msg : bytes) := core_verify pk sig msg (DST_NUL C).
  Definition basic_partial_sign sks (msg : bytes) := core_partial_sign sks msg (DST_NUL C).
  Definition basic_partial_verify pks sig (msg : bytes) :=
    core_signature_share_verify pks sig msg (DST_NUL C).

  Definition bytes_eqb (a b : bytes) : bool :=
    Nat.eqb (length a) (length b) && forallb (fun p => fst p =? snd p) (combine a b).

  (* HashMap::insert returning Some(old) on a repeated message *)
  Fixpoint dup_scan (seen : list bytes) (l : list (pkpt * bytes)) : bool :=
    match l with
    | [] => false
    | (_, m) :: rest => existsb (bytes_eqb m) seen || dup_scan (m :: seen) rest
    end.

  Definition basic_aggregate_verify (pks : list (pkpt * bytes)) (sig : sigpt) : M (res unit) :=
    if dup_scan [] pks then ret_err InvalidInputs
    else core_aggregate_verify pks sig (DST_NUL C).

  (* ---- BlsSignatureMessageAugmentation ---- *)
  Definition pk_bytes (pk : pkpt) : bytes := enc O pk.
  Definition aug_sign (sk : F) (msg : bytes) :=
    core_sign sk (pk_bytes (public_key sk) ++ msg) (DST_AUG C).
  Definition aug_verify pk sig (msg : bytes) :=
    core_verify pk sig (pk_bytes pk ++ msg) (DST_AUG C).
  Definition aug_aggregate_verify (pks : list (pkpt * bytes)) (sig : sigpt) : M (res unit) :=
    core_aggregate_verify (map (fun pm => (fst pm, pk_bytes (fst pm) ++ snd pm)) pks) sig (DST_AUG C).

  (* ---- BlsSignaturePop ---- *)
  Definition pop_sign (sk : F) (msg : bytes) := core_sign sk msg (DST_POPSIG C).
  Definition pop_verify_sig pk sig (msg : bytes) := core_verify pk sig msg (DST_POPSIG C).
  Definition pop_partial_sign sks (msg : bytes) := core_partial_sign sks msg (DST_POPSIG C).
  Definition pop_partial_verify pks sig (msg : bytes) :=
    core_signature_share_verify pks sig msg (DST_POPSIG C).
  Definition pop_multi_sig_verify (pks : list pkpt) sig (msg : bytes) :=
    core_verify (aggregate_public_keys pks) sig msg (DST_POPSIG C).
  Definition pop_aggregate_verify (pks : list (pkpt * bytes)) (sig : sigpt) :=
    core_aggregate_verify pks sig (DST_POPSIG C).
  Definition pop_prove (sk : F) : res sigpt :=
    core_sign sk (enc O (public_key sk)) (DST_POP C).
  Definition pop_verify (pk : pkpt) (sig : sigpt) : res unit :=
    core_verify pk sig (enc O pk) (DST_POP C).

  (* ---- BlsMultiSignature / BlsMultiKey ---- *)
  Definition multi_from_signatures (sigs : list sigpt) : sigpt := fold_left padd sigs pid.
  Definition multi_from_public_keys (pks : list pkpt) : pkpt := fold_left padd pks pid.
End Core.
