(* Everything blsful obtains from its dependencies, as an explicit record of
   functions.  Theorems take the laws they need as hypotheses (OracleLaws);
   no global injectivity of a hash is ever assumed. *)
From BV Require Import Alg.Field Alg.Dlog Sem.Base.

Record Oracles (K : FieldOps) : Type := mkOracles {
  (* hash-to-curve into the signature group / the public-key group: dlog of the result *)
  eta      : bytes -> bytes -> car K;        (* message, tag *)
  eta_pk   : bytes -> bytes -> car K;
  (* HKDF-SHA-256 pieces and the 48-byte wide reduction used by scalar_from_hkdf_bytes *)
  hkdf_extract : bytes -> bytes -> bytes;    (* salt, ikm -> prk *)
  hkdf_expand  : bytes -> bytes -> nat -> bytes;  (* prk, info, len *)
  from_okm : bytes -> car K;
  (* canonical compressed encodings of points given by dlog, and the checked decoders *)
  enc_sig  : car K -> bytes;
  enc_pk   : car K -> bytes;
  enc_gt   : car K -> bytes;
  dec_sig  : bytes -> option (car K);
  dec_pk   : bytes -> option (car K);
  (* scalar to_repr (little endian, 32 bytes) / from_repr / u64 embedding.
     from_repr of the curve crates is NOT canonical: values >= r are reduced mod r (and rejected
     only if that gives zero); so only unrepr (repr a) = Some a is assumed, never the converse. *)
  repr     : car K -> bytes;
  unrepr   : bytes -> option (car K);
  of_u64   : N -> car K;
  (* serde (non human-readable) form of a scalar: 32 bytes big-endian, canonical on decode *)
  sdec     : bytes -> option (car K);
  (* SHAKE128 (input, output length), SHA-256 *)
  xof      : bytes -> nat -> bytes;
  sha      : bytes -> bytes;
  (* merlin transcript: protocol label, ordered (label, message) list, challenge label;
     64 challenge bytes reduced by from_bytes_wide *)
  fs       : bytes -> list (bytes * bytes) -> bytes -> car K;
  (* ChaCha20Rng stream of a 32-byte seed: first 32 bytes, and the k-th Scalar::random *)
  rng_bytes32 : bytes -> bytes;
  rng_scalar  : bytes -> nat -> car K
}.

Arguments eta {K} _ _ _.
Arguments eta_pk {K} _ _ _.
Arguments hkdf_extract {K} _ _ _.
Arguments hkdf_expand {K} _ _ _ _.
Arguments from_okm {K} _ _.
Arguments enc_sig {K} _ _.
Arguments enc_pk {K} _ _.
Arguments enc_gt {K} _ _.
Arguments dec_sig {K} _ _.
Arguments dec_pk {K} _ _.
Arguments repr {K} _ _.
Arguments unrepr {K} _ _.
Arguments of_u64 {K} _ _.
Arguments sdec {K} _ _.
Arguments xof {K} _ _ _.
Arguments sha {K} _ _.
Arguments fs {K} _ _ _ _.
Arguments rng_bytes32 {K} _ _.
Arguments rng_scalar {K} _ _ _.

(* encoders/decoders by group tag *)
Definition enc {K} (O : Oracles K) {g : grp} (p : pt K g) : bytes :=
  match g with
  | Gsig => enc_sig O (dl p)
  | Gpk => enc_pk O (dl p)
  | Gt => enc_gt O (dl p)
  end.

Definition dec_sig_pt {K} (O : Oracles K) (b : bytes) : option (pt K Gsig) :=
  option_map mkpt (dec_sig O b).
Definition dec_pk_pt {K} (O : Oracles K) (b : bytes) : option (pt K Gpk) :=
  option_map mkpt (dec_pk O b).

(* What the theorems assume of the oracles (each theorem lists what it uses). *)
Record OracleLaws (K : FieldOps) (O : Oracles K) (sig_len pk_len : nat) : Prop := mkOracleLaws {
  ol_enc_sig_len : forall a, length (enc_sig O a) = sig_len;
  ol_enc_pk_len  : forall a, length (enc_pk O a) = pk_len;
  ol_dec_enc_sig : forall a, dec_sig O (enc_sig O a) = Some a;
  ol_dec_enc_pk  : forall a, dec_pk O (enc_pk O a) = Some a;
  ol_enc_dec_sig : forall b a, dec_sig O b = Some a -> enc_sig O a = b;
  ol_enc_dec_pk  : forall b a, dec_pk O b = Some a -> enc_pk O a = b;
  ol_enc_sig_wf  : forall a, wfb (enc_sig O a);
  ol_enc_pk_wf   : forall a, wfb (enc_pk O a);
  ol_repr_len    : forall a, length (repr O a) = 32%nat;
  ol_repr_wf     : forall a, wfb (repr O a);
  ol_unrepr_repr : forall a, unrepr O (repr O a) = Some a;
  ol_repr_zero   : repr O (f0 K) = repeatN 0 32;
  ol_sdec_ser    : forall a, sdec O (rev (repr O a)) = Some a;
  ol_xof_len     : forall s n, length (xof O s n) = n;
  ol_xof_prefix  : forall s n m, (n <= m)%nat -> firstn n (xof O s m) = xof O s n;
  ol_sha_len     : forall s, length (sha O s) = 32%nat
}.

Lemma enc_sig_inj K O sl pl (L : OracleLaws K O sl pl) a b : enc_sig O a = enc_sig O b -> a = b.
Proof.
  intros H. pose proof (ol_dec_enc_sig K O sl pl L a) as Ha.
  rewrite H, (ol_dec_enc_sig K O sl pl L b) in Ha. congruence.
Qed.

Lemma enc_pk_inj K O sl pl (L : OracleLaws K O sl pl) a b : enc_pk O a = enc_pk O b -> a = b.
Proof.
  intros H. pose proof (ol_dec_enc_pk K O sl pl L a) as Ha.
  rewrite H, (ol_dec_enc_pk K O sl pl L b) in Ha. congruence.
Qed.

Lemma repr_inj K O sl pl (L : OracleLaws K O sl pl) a b : repr O a = repr O b -> a = b.
Proof.
  intros H. pose proof (ol_unrepr_repr K O sl pl L a) as Ha.
  rewrite H, (ol_unrepr_repr K O sl pl L b) in Ha. congruence.
Qed.
