(* uint-zigzag 0.2.0 `Uint` (LEB128 over u128, at most 19 bytes) as blsful uses it,
   and the length-prefixed, zero-padded framing of signcryption / time-lock payloads. *)
From BV Require Import Sem.Base.

Definition MAX_BYTES : nat := 19.
Definition U128 : N := 2 ^ 128.
Definition USIZE : N := 2 ^ 64.

(* Uint::to_vec *)
Fixpoint varint_enc_fuel (fuel : nat) (x : N) : bytes :=
  match fuel with
  | O => []
  | S f => if x <? 128 then [x] else N.lor (N.land x 127) 128 :: varint_enc_fuel f (N.shiftr x 7)
  end.
Definition varint_enc (x : N) : bytes := varint_enc_fuel MAX_BYTES x.

(* Uint::peek: index of the first byte < 0x80 among the first 19, plus one *)
Fixpoint peek_fuel (fuel : nat) (v : bytes) (i : nat) : option nat :=
  match fuel with
  | O => None
  | S f => match v with
           | [] => None
           | b :: v' => if b <? 128 then Some (S i) else peek_fuel f v' (S i)
           end
  end.
Definition peek (v : bytes) : option nat := peek_fuel MAX_BYTES v 0.

(* Uint::try_from(&[u8]): x |= (b & 0x7f) << s, on u128 (bits shifted past 127 are lost) *)
Fixpoint varint_dec_fuel (fuel : nat) (v : bytes) (x s : N) : option N :=
  match fuel with
  | O => None
  | S f => match v with
           | [] => None
           | b :: v' =>
             if b <? 128 then Some (N.lor x (N.shiftl b s mod U128))
             else varint_dec_fuel f v' (N.lor x (N.shiftl (N.land b 127) s mod U128)) (s + 7)
           end
  end.
Definition varint_dec (v : bytes) : option N := varint_dec_fuel MAX_BYTES v 0 0.

(* seal: Uint::from(message.len()).to_vec() ++ message, zero-padded to at least 32 bytes *)
Definition frame (msg : bytes) : bytes :=
  let b := varint_enc (N.of_nat (length msg)) ++ msg in
  b ++ repeatN 0 (32 - length b).

(* decrypt / unseal:  peek, try_from(&pt[..overhead]).unwrap().0 as usize, bounds check, slice.
   Returns None where the Rust code takes its "invalid" branch; `unwrap` panics if try_from fails. *)
Inductive unframed : Type :=
| UfMsg (m : bytes)      (* length prefix parsed and in range *)
| UfRange                (* prefix parsed, length exceeds the buffer *)
| UfNoPrefix.            (* peek returned None *)

Fixpoint bytes_eqb_v (a b : bytes) : bool :=
  match a, b with
  | [], [] => true
  | x :: a', y :: b' => (x =? y) && bytes_eqb_v a' b'
  | _, _ => false
  end.

(* `canon`: time-lock decryption additionally requires the canonical encoding of the length
   (Uint::from(len).to_vec() == plaintext[..overhead]); signcryption does not. *)
Definition unframe (canon : bool) (pt : bytes) : M unframed :=
  match peek pt with
  | None => Val UfNoPrefix
  | Some overhead =>
    match varint_dec (firstn overhead pt) with
    | None => Panic
    | Some x =>
      let len := x mod USIZE in
      if (len <=? N.of_nat (length pt - overhead))
         && (negb canon || bytes_eqb_v (varint_enc len) (firstn overhead pt))
      then Val (UfMsg (firstn (N.to_nat len) (skipn overhead pt)))
      else Val UfRange
    end
  end.
