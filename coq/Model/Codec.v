(* Wire formats: the compact binary serde form (serde_bare) that the derive macros produce for
   blsful's data types, and the hand-written byte conversions (`From<&T> for Vec<u8>`,
   `TryFrom<&[u8]>`).  A type's layout is a `shape`; values are trees of leaves. *)
From BV Require Import Alg.Field Alg.Dlog Sem.Base Model.Oracles Model.Helpers Model.Varint
     Model.Core Model.Protocols Model.Api.

(* serde_bare Uint: LEB128 over u64, at most 10 bytes, the 10th at most 1 *)
Definition bare_uint_enc (x : N) : bytes := varint_enc_fuel 10 x.

Fixpoint bare_uint_dec_from (fuel : nat) (i : nat) (v : bytes) (x s : N) : option (N * bytes) :=
  match fuel with
  | 0%nat => None
  | S f =>
    match v with
    | [] => None
    | b :: v' =>
      if Nat.eqb i 9 && (1 <? b) then None
      else if b <? 128 then Some (N.lor x (N.shiftl b s mod 2 ^ 64), v')
      else bare_uint_dec_from f (S i) v' (N.lor x (N.shiftl (N.land b 127) s mod 2 ^ 64)) (s + 7)
    end
  end.
Definition bare_uint_dec (v : bytes) : option (N * bytes) := bare_uint_dec_from 10 0 v 0 0.

Inductive shape : Type :=
| SU8                                  (* one byte *)
| SU64                                 (* u64 little endian *)
| SFixed (n : nat)                     (* [u8; n] / tuple of n bytes: points, scalars, share containers *)
| SBytes                               (* Vec<u8>: uint length, then the bytes *)
| SPair (a b : shape)                  (* struct fields / tuple in order *)
| SEnum (n : N) (a : shape).           (* enum with n variants of the same payload shape: uint index *)

Inductive val : Type :=
| VNum (x : N)
| VBytes (b : bytes)
| VPair (a b : val)
| VEnum (tag : N) (a : val).

Fixpoint enc_shape (s : shape) (v : val) : bytes :=
  match s, v with
  | SU8, VNum x => [x]
  | SU64, VNum x => le_bytes 8 x
  | SFixed _, VBytes b => b
  | SBytes, VBytes b => bare_uint_enc (N.of_nat (length b)) ++ b
  | SPair sa sb, VPair a b => enc_shape sa a ++ enc_shape sb b
  | SEnum _ sa, VEnum tag a => bare_uint_enc tag ++ enc_shape sa a
  | _, _ => []
  end.

Fixpoint le_val (l : bytes) : N :=
  match l with [] => 0 | b :: l' => b + 256 * le_val l' end.

Fixpoint dec_shape (s : shape) (b : bytes) : option (val * bytes) :=
  match s with
  | SU8 => match b with [] => None | x :: r => Some (VNum x, r) end
  | SU64 => if Nat.ltb (length b) 8 then None else Some (VNum (le_val (firstn 8 b)), skipn 8 b)
  | SFixed n => if Nat.ltb (length b) n then None else Some (VBytes (firstn n b), skipn n b)
  | SBytes =>
    match bare_uint_dec b with
    | None => None
    | Some (len, r) =>
      if N.of_nat (length r) <? len then None
      else Some (VBytes (firstn (N.to_nat len) r), skipn (N.to_nat len) r)
    end
  | SPair sa sb =>
    match dec_shape sa b with
    | None => None
    | Some (a, r) => match dec_shape sb r with
                     | None => None
                     | Some (c, r') => Some (VPair a c, r')
                     end
    end
  | SEnum n sa =>
    match bare_uint_dec b with
    | None => None
    | Some (tag, r) =>
      if n <=? tag then None
      else match dec_shape sa r with
           | None => None
           | Some (a, r') => Some (VEnum tag a, r')
           end
    end
  end.

(* values a shape can carry *)
Fixpoint wf_val (s : shape) (v : val) : Prop :=
  match s, v with
  | SU8, VNum x => x < 256
  | SU64, VNum x => x < 2 ^ 64
  | SFixed n, VBytes b => length b = n /\ wfb b
  | SBytes, VBytes b => N.of_nat (length b) < 2 ^ 64 /\ wfb b
  | SPair sa sb, VPair a b => wf_val sa a /\ wf_val sb b
  | SEnum n sa, VEnum tag a => tag < n /\ n <= 128 /\ wf_val sa a
  | _, _ => False
  end.

(* ------------------------------------------------------------------------------------------ *)
(* Layouts of blsful's types, by implementation constants *)
Section Layouts.
  Context (C : Impl).
  Definition sh_sig := SFixed (SIG_LEN C).
  Definition sh_pk := SFixed (PK_LEN C).
  Definition sh_scalar := SFixed 32.
  Definition sh_signature := SEnum 3 sh_sig.            (* Signature, AggregateSignature, MultiSignature, ProofCommitment *)
  Definition sh_pok := SEnum 3 (SPair sh_sig sh_sig).   (* ProofOfKnowledge { u, v } *)
  Definition sh_pok_ts := SPair sh_pok SU64.            (* ProofOfKnowledgeTimestamp { proof, timestamp } *)
  Definition sh_sk_share := SFixed 33.
  Definition sh_pk_share := SFixed (S (PK_LEN C)).      (* PublicKeyShare, SignDecryptionShare, ElGamalDecryptionShare *)
  Definition sh_sig_share := SPair SU8 (SFixed (S (SIG_LEN C)))   (* (SignatureSchemes, share) *).
  Definition sh_sc_ct := SPair sh_pk (SPair SBytes (SPair sh_sig SU8)).   (* u, v, w, scheme *)
  Definition sh_tl_ct := SPair sh_pk (SPair (SFixed 32) (SPair SBytes SU8)).
  Definition sh_eg_ct := SPair sh_pk sh_pk.
  Definition sh_eg_proof := SPair sh_eg_ct (SPair sh_scalar (SPair sh_scalar sh_scalar)).
  Definition sh_sk_enum := SPair SU8 sh_scalar.
End Layouts.

(* SignatureSchemes::from(u8): 0 -> Basic, 1 -> MessageAugmentation, everything else -> ProofOfPossession *)
Definition scheme_of_u8 (x : N) : scheme := if x =? 0 then Basic else if x =? 1 then Aug else Pop.
Definition u8_of_scheme (s : scheme) : N := match s with Basic => 0 | Aug => 1 | Pop => 2 end.
Definition scheme_of_tag (t : N) : scheme := scheme_of_u8 t.

(* Bls12381 <-> u8: G1 = 1, G2 = 2 *)
Definition u8_of_curve (c : curve) : N := match c with CurveG1 => 1 | CurveG2 => 2 end.
Definition curve_of_u8 (x : N) : option curve :=
  if x =? 1 then Some CurveG1 else if x =? 2 then Some CurveG2 else None.

Section TypeCodecs.
  Context {K : FieldOps} (O : Oracles K) (C : Impl).
  Notation F := (car K).
  Notation sigpt := (pt K Gsig).
  Notation pkpt := (pt K Gpk).

  Definition ser_scalar (a : F) : bytes := rev (repr O a).

  (* ---- hand-written byte conversions ---- *)
  (* PublicKey / MultiPublicKey: exact length, checked decode *)
  Definition pk_to_bytes (p : pkpt) : bytes := enc O p.
  Definition pk_try_from (b : bytes) : res pkpt :=
    if negb (Nat.eqb (length b) (PK_LEN C)) then Err InvalidInputs
    else match dec_pk O b with Some a => Ok (mkpt a) | None => Err InvalidInputs end.
  (* ProofOfPossession *)
  Definition pop_to_bytes (p : sigpt) : bytes := enc O p.
  Definition pop_try_from (b : bytes) : res sigpt :=
    if negb (Nat.eqb (length b) (SIG_LEN C)) then Err InvalidInputs
    else match dec_sig O b with Some a => Ok (mkpt a) | None => Err InvalidInputs end.
  (* SecretKey / ProofCommitmentSecret / ProofCommitmentChallenge: 32 big-endian bytes, never zero *)
  Definition sk_to_bytes (s : F) : bytes := scalar_to_be_bytes O s.
  Definition sk_try_from (b : bytes) : res F :=
    if negb (Nat.eqb (length b) 32) then Err InvalidInputs
    else match scalar_from_be_bytes O b with Some s => Ok s | None => Err InvalidInputs end.
  (* SecretKeyEnum: tag byte (Bls12381 as u8) then the key *)
  Definition sk_enum_to_bytes (c : curve) (s : F) : bytes := u8_of_curve c :: sk_to_bytes s.
  Definition sk_enum_try_from (b : bytes) : res (curve * F) :=
    match b with
    | [] => Err InvalidInputs
    | tag :: rest =>
      match curve_of_u8 tag with
      | None => Err DeserializationError
      | Some c => match sk_try_from rest with Ok s => Ok (c, s) | Err e => Err e end
      end
    end.
  Definition sk_enum_from_be_bytes (b : bytes) : option (curve * F) :=
    match b with
    | [] => None
    | tag :: rest =>
      match curve_of_u8 tag with
      | None => None
      | Some c => if negb (Nat.eqb (length rest) 32) then None
                  else match scalar_from_be_bytes O rest with Some s => Some (c, s) | None => None end
      end
    end.

  Definition sk_enum_from_le_bytes (b : bytes) : option (curve * F) :=
    match b with
    | [] => None
    | tag :: rest =>
      match curve_of_u8 tag with
      | None => None
      | Some c => if negb (Nat.eqb (length rest) 32) then None
                  else match scalar_from_le_bytes O rest with Some s => Some (c, s) | None => None end
      end
    end.
  Definition sk_enum_to_le_bytes (c : curve) (s : F) : bytes := u8_of_curve c :: scalar_to_le_bytes O s.

  (* ---- serde_bare forms ---- *)
  Definition v_sig (p : sigpt) : val := VBytes (enc O p).
  Definition v_pk (p : pkpt) : val := VBytes (enc O p).
  Definition v_scalar (a : F) : val := VBytes (ser_scalar a).

  Definition get_sig (v : val) : option sigpt :=
    match v with VBytes b => option_map mkpt (dec_sig O b) | _ => None end.
  Definition get_pk (v : val) : option pkpt :=
    match v with VBytes b => option_map mkpt (dec_pk O b) | _ => None end.
  Definition get_scalar (v : val) : option F :=
    match v with VBytes b => sdec O b | _ => None end.

  (* Signature / AggregateSignature / MultiSignature / ProofCommitment *)
  Definition tagged_to_val (t : @tagged K) : val := VEnum (u8_of_scheme (tg_scheme t)) (v_sig (tg_pt t)).
  Definition tagged_of_val (v : val) : option (@tagged K) :=
    match v with
    | VEnum tag a => match get_sig a with Some p => Some (mktagged (scheme_of_tag tag) p) | None => None end
    | _ => None
    end.
  Definition tagged_to_bytes (t : @tagged K) : bytes := enc_shape (sh_signature C) (tagged_to_val t).
  Definition tagged_from_bare (b : bytes) : option (@tagged K) :=
    match dec_shape (sh_signature C) b with Some (v, _) => tagged_of_val v | None => None end.
  Definition signature_try_from (b : bytes) : res (@tagged K) :=
    match tagged_from_bare b with Some t => Ok t | None => Err InvalidInputs end.
  Definition multisig_try_from (b : bytes) : res (@tagged K) :=
    match tagged_from_bare b with Some t => Ok t | None => Err InvalidSignature end.
  Definition commitment_try_from (b : bytes) : res (@tagged K) :=
    if negb (Nat.eqb (length b) (S (SIG_LEN C))) then Err InvalidInputs else signature_try_from b.

  (* ProofOfKnowledge / ProofOfKnowledgeTimestamp *)
  Definition pok_to_val (p : @pok K) : val :=
    VEnum (u8_of_scheme (pok_scheme p)) (VPair (v_sig (pok_u p)) (v_sig (pok_v p))).
  Definition pok_of_val (v : val) : option (@pok K) :=
    match v with
    | VEnum tag (VPair a b) =>
      match get_sig a, get_sig b with
      | Some u, Some w => Some (mkpok (scheme_of_tag tag) u w)
      | _, _ => None
      end
    | _ => None
    end.
  Definition pok_to_bytes (p : @pok K) : bytes := enc_shape (sh_pok C) (pok_to_val p).
  Definition pok_try_from (b : bytes) : res (@pok K) :=
    match dec_shape (sh_pok C) b with
    | Some (v, _) => match pok_of_val v with Some p => Ok p | None => Err DeserializationError end
    | None => Err DeserializationError
    end.
  Definition pokts_to_bytes (p : @pok_ts K) : bytes :=
    enc_shape (sh_pok_ts C) (VPair (pok_to_val (pts_proof p)) (VNum (pts_timestamp p))).
  Definition pokts_try_from (b : bytes) : res (@pok_ts K) :=
    match dec_shape (sh_pok_ts C) b with
    | Some (VPair v (VNum t), _) =>
      match pok_of_val v with Some p => Ok (mkpokts p t) | None => Err DeserializationError end
    | _ => Err DeserializationError
    end.

  (* share containers: identifier byte then the value bytes, fixed size *)
  Definition share_to_bytes (s : share) : bytes := sid s :: sval s.
  Definition share_try_from (cap : nat) (e : err) (b : bytes) : res share :=
    match dec_shape (SFixed (S cap)) b with
    | Some (VBytes (id :: v), _) => Ok (mkshare id v)
    | _ => Err e
    end.
  Definition sk_share_try_from := share_try_from 32 InvalidInputs.
  Definition pk_share_try_from := share_try_from (PK_LEN C) InvalidInputs.
  Definition eg_share_try_from := share_try_from (PK_LEN C) DeserializationError.
  Definition inner_share_try_from (cap : nat) (b : bytes) : res share :=
    if negb (Nat.eqb (length b) (S cap)) then Err DeserializationError
    else share_try_from cap DeserializationError b.
  (* SignatureShare: (SignatureSchemes as u8, share) *)
  Definition sig_share_to_bytes (t : tagged_share) : bytes :=
    u8_of_scheme (ts_scheme t) :: share_to_bytes (ts_share t).
  Definition sig_share_try_from (b : bytes) : res tagged_share :=
    match dec_shape (sh_sig_share C) b with
    | Some (VPair (VNum s) (VBytes (id :: v)), _) => Ok (mktshare (scheme_of_u8 s) (mkshare id v))
    | _ => Err InvalidInputs
    end.

  (* SignCryptCiphertext / SignCryptDecryptionKey *)
  Definition scct_to_bytes (ct : @sc_ct K) : bytes :=
    enc_shape (sh_sc_ct C)
      (VPair (v_pk (sc_u ct)) (VPair (VBytes (sc_v ct)) (VPair (v_sig (sc_w ct)) (VNum (u8_of_scheme (sc_scheme ct)))))).
  Definition scct_try_from (b : bytes) : res (@sc_ct K) :=
    match dec_shape (sh_sc_ct C) b with
    | Some (VPair u (VPair (VBytes v) (VPair w (VNum s))), _) =>
      match get_pk u, get_sig w with
      | Some pu, Some pw => Ok (mkscct pu v pw (scheme_of_u8 s))
      | _, _ => Err DeserializationError
      end
    | _ => Err DeserializationError
    end.
  Definition pk_bare_try_from (b : bytes) : res pkpt :=       (* SignCryptDecryptionKey, ElGamalDecryptionKey *)
    match dec_shape (sh_pk C) b with
    | Some (v, _) => match get_pk v with Some p => Ok p | None => Err DeserializationError end
    | None => Err DeserializationError
    end.

  (* TimeCryptCiphertext *)
  Definition tlct_to_bytes (ct : @tl_ct K) : bytes :=
    enc_shape (sh_tl_ct C)
      (VPair (v_pk (tl_u ct)) (VPair (VBytes (tl_v ct)) (VPair (VBytes (tl_w ct)) (VNum (u8_of_scheme (tl_scheme ct)))))).
  Definition tlct_try_from (b : bytes) : res (@tl_ct K) :=
    match dec_shape (sh_tl_ct C) b with
    | Some (VPair u (VPair (VBytes v) (VPair (VBytes w) (VNum s))), _) =>
      match get_pk u with
      | Some pu => Ok (mktlct pu v w (scheme_of_u8 s))
      | None => Err DeserializationError
      end
    | _ => Err DeserializationError
    end.

  (* ElGamalCiphertext / ElGamalProof *)
  Definition egct_to_val (ct : @eg_ct K) : val := VPair (v_pk (eg_c1 ct)) (v_pk (eg_c2 ct)).
  Definition egct_of_val (v : val) : option (@eg_ct K) :=
    match v with
    | VPair a b => match get_pk a, get_pk b with
                   | Some c1, Some c2 => Some (mkegct c1 c2)
                   | _, _ => None
                   end
    | _ => None
    end.
  Definition egct_to_bytes (ct : @eg_ct K) : bytes := enc_shape (sh_eg_ct C) (egct_to_val ct).
  Definition egct_try_from (b : bytes) : res (@eg_ct K) :=
    match dec_shape (sh_eg_ct C) b with
    | Some (v, _) => match egct_of_val v with Some ct => Ok ct | None => Err DeserializationError end
    | None => Err DeserializationError
    end.
  Definition egp_to_bytes (p : @eg_proof K) : bytes :=
    enc_shape (sh_eg_proof C)
      (VPair (egct_to_val (egp_ct p)) (VPair (v_scalar (egp_mp p)) (VPair (v_scalar (egp_bp p)) (v_scalar (egp_ch p))))).
  Definition egp_try_from (b : bytes) : res (@eg_proof K) :=
    match dec_shape (sh_eg_proof C) b with
    | Some (VPair c (VPair m (VPair bl ch)), _) =>
      match egct_of_val c, get_scalar m, get_scalar bl, get_scalar ch with
      | Some ct, Some a, Some b', Some d => Ok (mkegproof ct a b' d)
      | _, _, _, _ => Err DeserializationError
      end
    | _ => Err DeserializationError
    end.
End TypeCodecs.
