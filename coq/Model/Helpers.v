(* src/helpers.rs: byte_xor, the branch-free zero test, scalar_from_hkdf_bytes,
   big/little-endian scalar codecs. *)
From BV Require Import Alg.Field Alg.Dlog Sem.Base Model.Oracles.

Definition KEYGEN_SALT : bytes := bs "BLS-SIG-KEYGEN-SALT-".
Definition HKDF_INFO : bytes := [0; 48].
Definition SECRET_KEY_BYTES : nat := 32.

(* pub fn byte_xor(arr1, arr2): debug_assert_eq!(len, len); zip; xor *)
Fixpoint xor_zip (a b : bytes) : bytes :=
  match a, b with
  | x :: a', y :: b' => N.lxor x y :: xor_zip a' b'
  | _, _ => []
  end.

Definition byte_xor (dbg : bool) (a b : bytes) : M bytes :=
  dassert dbg (Nat.eqb (length a) (length b)) (Val (xor_zip a b)).

(* impl IsZero for [u8]:   t: i8 = OR of bytes;  Choice::from((((t | t.wrapping_neg()) >> 7) + 1) as u8)
   modelled on the 8-bit two's-complement pattern of t. *)
Definition or_bytes (l : bytes) : N := fold_left N.lor l 0.
Definition i8_wrapping_neg (t : N) : N := (256 - t) mod 256.
Definition i8_sar7 (t : N) : N := if N.testbit t 7 then 255 else 0.
Definition i8_add1 (t : N) : N := (t + 1) mod 256.

Definition is_zero_bytes (l : bytes) : bool :=
  let t := N.land (or_bytes l) 255 in
  let c := i8_add1 (i8_sar7 (N.lor t (i8_wrapping_neg t))) in
  c =? 1.

Section Helpers.
  Context {K : FieldOps} (O : Oracles K).
  Notation F := (car K).

  (* scalar_from_hkdf_bytes(Some(salt), ikm):
       prk = HKDF-Extract(salt, ikm || 0x00);  loop { okm = Expand(prk, [0,48], 48); s = from_okm(okm) } until s != 0
     The loop re-expands the same prk and info, so it either ends at once or never. *)
  Definition hkdf_scalar_raw (salt ikm : bytes) : F :=
    from_okm O (hkdf_expand O (hkdf_extract O salt (ikm ++ [0])) HKDF_INFO 48).

  Definition scalar_from_hkdf_bytes (salt ikm : bytes) : M F :=
    let s := hkdf_scalar_raw salt ikm in
    if is_zero_s s then Loop else Val s.

  (* HashToScalar::hash_to_scalar(m, dst) = scalar_from_hkdf_bytes(Some(dst), m) *)
  Definition hash_to_scalar (m dst : bytes) : M F := scalar_from_hkdf_bytes dst m.

  Definition scalar_to_le_bytes (s : F) : bytes := repr O s.
  Definition scalar_to_be_bytes (s : F) : bytes := rev (repr O s).

  (* input has length 32 by type ([u8; 32]) *)
  Definition scalar_from_le_bytes (input : bytes) : option F :=
    if is_zero_bytes input then None else unrepr O input.
  Definition scalar_from_be_bytes (input : bytes) : option F :=
    if is_zero_bytes input then None else unrepr O (rev input).
End Helpers.
