(* The public wrapper types of src/*.rs: scheme-tagged values and the dispatch on them. *)
From BV Require Import Alg.Field Alg.Dlog Sem.Base Model.Oracles Model.Helpers Model.Varint
     Model.Core Model.Protocols.

(* SignatureSchemes: Basic = 0, MessageAugmentation = 1, ProofOfPossession = 2 *)
Inductive scheme : Set := Basic | Aug | Pop.

Definition scheme_eqb (a b : scheme) : bool :=
  match a, b with Basic, Basic | Aug, Aug | Pop, Pop => true | _, _ => false end.

(* Bls12381: G1 / G2 *)
Inductive curve : Set := CurveG1 | CurveG2.

Section Api.
  Context {K : FieldOps} (O : Oracles K) (C : Impl) (dbg : bool).
  Notation F := (car K).
  Notation sigpt := (pt K Gsig).
  Notation pkpt := (pt K Gpk).

  (* the `match scheme { Basic => Basic::DST, MessageAugmentation => Aug::DST, Pop => Pop::SIG_DST }` blocks *)
  Definition dst_of (s : scheme) : bytes :=
    match s with Basic => DST_NUL C | Aug => DST_AUG C | Pop => DST_POPSIG C end.

  (* Signature / AggregateSignature / MultiSignature / ProofCommitment: variant + point *)
  Record tagged : Type := mktagged { tg_scheme : scheme; tg_pt : sigpt }.
  (* SignatureShare: variant + share container *)
  Record tagged_share : Type := mktshare { ts_scheme : scheme; ts_share : share }.
  (* ProofOfKnowledge { u, v } / ProofOfKnowledgeTimestamp *)
  Record pok : Type := mkpok { pok_scheme : scheme; pok_u : sigpt; pok_v : sigpt }.
  Record pok_ts : Type := mkpokts { pts_proof : pok; pts_timestamp : N }.
  Record sc_ct : Type := mkscct { sc_u : pkpt; sc_v : bytes; sc_w : sigpt; sc_scheme : scheme }.
  Record tl_ct : Type := mktlct { tl_u : pkpt; tl_v : bytes; tl_w : bytes; tl_scheme : scheme }.
  Record eg_ct : Type := mkegct { eg_c1 : pkpt; eg_c2 : pkpt }.
  Record eg_proof : Type :=
    mkegproof { egp_ct : eg_ct; egp_mp : F; egp_bp : F; egp_ch : F }.

  (* ---------- SecretKey ---------- *)
  Definition sk_public_key (sk : F) : pkpt := public_key sk.

  Definition sk_sign (sk : F) (s : scheme) (msg : bytes) : res tagged :=
    match s with
    | Basic => match basic_sign O C sk msg with Ok p => Ok (mktagged Basic p) | Err e => Err e end
    | Aug => match aug_sign O C sk msg with Ok p => Ok (mktagged Aug p) | Err e => Err e end
    | Pop => match pop_sign O C sk msg with Ok p => Ok (mktagged Pop p) | Err e => Err e end
    end.

  Definition sk_proof_of_possession (sk : F) : res sigpt := pop_prove O C sk.

  (* ---------- Signature ---------- *)
  Definition sig_verify (sg : tagged) (pk : pkpt) (msg : bytes) : res unit :=
    match tg_scheme sg with
    | Basic => basic_verify O C pk (tg_pt sg) msg
    | Aug => aug_verify O C pk (tg_pt sg) msg
    | Pop => pop_verify_sig O C pk (tg_pt sg) msg
    end.

  Definition same_scheme (a b : tagged) : bool := scheme_eqb (tg_scheme a) (tg_scheme b).
  Definition share_same_scheme (a b : tagged_share) : bool := scheme_eqb (ts_scheme a) (ts_scheme b).

  (* Signature::from_shares *)
  Definition sig_from_shares (shares : list tagged_share) : M (res tagged) :=
    let all_same := match shares with
                    | [] => true
                    | s0 :: rest => forallb (fun s => share_same_scheme s s0) rest
                    end in
    if negb all_same then ret_err InvalidSignatureScheme
    else
      sig <-? core_combine_signature_shares O (map ts_share shares) ;;
      match shares with
      | [] => Panic   (* shares[0] *)
      | s0 :: _ => ret_ok (mktagged (ts_scheme s0) sig)
      end.

  (* AggregateSignature::try_from(&[Signature]) *)
  Fixpoint agg_loop (s0 : tagged) (rest : list tagged) (g : sigpt) : res sigpt :=
    match rest with
    | [] => Ok g
    | s :: rest' =>
      if negb (same_scheme s s0) then Err InvalidSignatureScheme
      else agg_loop s0 rest' (padd g (tg_pt s))
    end.

  Definition aggregate_from_signatures (sigs : list tagged) : res tagged :=
    if Nat.ltb (length sigs) 2 then Err InvalidSignature
    else match sigs with
         | [] => Err InvalidSignature
         | s0 :: rest =>
           match agg_loop s0 rest pid with
           | Err e => Err e
           | Ok g => Ok (mktagged (tg_scheme s0) (padd g (tg_pt s0)))
           end
         end.

  Definition aggregate_verify (a : tagged) (data : list (pkpt * bytes)) : M (res unit) :=
    match tg_scheme a with
    | Basic => basic_aggregate_verify O C dbg data (tg_pt a)
    | Aug => aug_aggregate_verify O C dbg data (tg_pt a)
    | Pop => pop_aggregate_verify O C dbg data (tg_pt a)
    end.

  (* MultiSignature::try_from(&[Signature]) *)
  Fixpoint multi_loop (s0 : tagged) (rest : list tagged) (g : sigpt) : res sigpt :=
    match rest with
    | [] => Ok g
    | s :: rest' =>
      if negb (same_scheme s s0) then Err InvalidSignatureScheme
      else match tg_scheme s with
           | Aug => Err InvalidSignatureScheme
           | _ => multi_loop s0 rest' (padd g (tg_pt s))
           end
    end.

  Definition multi_from_sigs (sigs : list tagged) : res tagged :=
    if Nat.ltb (length sigs) 2 then Err InvalidSignature
    else match sigs with
         | [] => Err InvalidSignature
         | s0 :: rest =>
           match multi_loop s0 rest pid with
           | Err e => Err e
           | Ok g => Ok (mktagged (tg_scheme s0) (padd g (tg_pt s0)))
           end
         end.

  Definition multi_verify (m : tagged) (mpk : pkpt) (msg : bytes) : res unit :=
    match tg_scheme m with
    | Basic => basic_verify O C mpk (tg_pt m) msg
    | Aug => aug_verify O C mpk (tg_pt m) msg
    | Pop => pop_verify_sig O C mpk (tg_pt m) msg
    end.

  Definition multi_pk_from_public_keys (keys : list pkpt) : pkpt := multi_from_public_keys keys.

  (* ---------- ProofOfPossession ---------- *)
  Definition pop_wrapper_verify (p : sigpt) (pk : pkpt) : res unit := pop_verify O C pk p.

  (* ---------- shares ---------- *)
  Definition sks_public_key (sks : share) : res share := public_key_share O C sks.

  Definition sks_sign (sks : share) (s : scheme) (msg : bytes) : res tagged_share :=
    match s with
    | Basic => match basic_partial_sign O C sks msg with
               | Ok x => Ok (mktshare Basic x) | Err e => Err e end
    | Aug => Err SigningError
    | Pop => match pop_partial_sign O C sks msg with
             | Ok x => Ok (mktshare Pop x) | Err e => Err e end
    end.

  (* PublicKeyShare::verify *)
  Definition pks_verify (pks : share) (sg : tagged_share) (msg : bytes) : res unit :=
    match share_as_pk O pks with
    | Err e => Err e
    | Ok pk =>
      match share_as_sig O (ts_share sg) with
      | Err e => Err e
      | Ok s =>
        match ts_scheme sg with
        | Basic => basic_verify O C pk s msg
        | Aug => aug_verify O C pk s msg
        | Pop => pop_verify_sig O C pk s msg
        end
      end
    end.

  Definition pk_from_shares (shares : list share) : M (res pkpt) :=
    core_combine_public_key_shares O shares.

  Definition sk_combine (shares : list share) : M (res F) := combine_secret_shares O shares.

  (* SecretKey::split_with_rng -> vsss_rs::shamir::split_secret *)
  Fixpoint next_nonzero (fuel : nat) (seed : bytes) (i : nat) : M (F * nat) :=
    match fuel with
    | 0%nat => Loop
    | S f => let c := rng_scalar O seed i in
             if is_zero_s c then next_nonzero f seed (S i) else Val (c, S i)
    end.

  Fixpoint fill_coeffs (n : nat) (seed : bytes) (i : nat) : M (list F) :=
    match n with
    | 0%nat => Val []
    | S n' => '(c, i') <- next_nonzero RETRY_FUEL seed i ;;
              rest <- fill_coeffs n' seed i' ;; Val (c :: rest)
    end.

  (* Polynomial::evaluate: Horner from the top coefficient *)
  Definition poly_eval (coeffs : list F) (x : F) : F :=
    fold_right (fun c acc => fadd K (fmul K acc x) c) (f0 K) coeffs.

  Fixpoint create_shares (coeffs : list F) (x : N) (n : nat) : res (list share) :=
    match n with
    | 0%nat => Ok []
    | S n' =>
      if 256 <=? x then Err VsssError   (* u8::from_field_element fails *)
      else
        let y := poly_eval coeffs (of_u64 O x) in
        match create_shares coeffs (x + 1) n' with
        | Err e => Err e
        | Ok l => Ok (mkshare x (repr O y) :: l)
        end
    end.

  (* vsss_rs::shamir::split_secret(threshold, limit, secret, rng), the generator having given k scalars *)
  Definition vsss_split_secret (sk : F) (threshold limit : nat) (seed : bytes) (k : nat)
    : M (res (list share)) :=
    if Nat.ltb limit threshold then ret_err VsssError
    else if Nat.ltb threshold 2 then ret_err VsssError
    else
      cs <- fill_coeffs (threshold - 1) seed k ;;
      Val (create_shares (sk :: cs) 1 limit).

  Definition sk_split (sk : F) (threshold limit : nat) (seed : bytes) : M (res (list share)) :=
    if Nat.ltb 255 limit then ret_err VsssError          (* blsful: one-byte identifiers *)
    else vsss_split_secret sk threshold limit seed 0.

  (* ---------- proofs of knowledge ---------- *)
  Variable ent : nat -> bytes.

  Definition pc_generate (msg : bytes) (signature : tagged) (w : nat)
    : M (res (tagged * F) * nat) :=
    '(r, w') <- generate_commitment O ent msg (dst_of (tg_scheme signature)) w ;;
    Val (match r with
         | Ok (u, x) => Ok (mktagged (tg_scheme signature) u, x)
         | Err e => Err e
         end, w').

  Definition pc_finalize (c : tagged) (x y : F) (sig : tagged) : res pok :=
    if scheme_eqb (tg_scheme c) (tg_scheme sig) then
      match generate_proof (tg_pt c) x y (tg_pt sig) with
      | Ok (u, v) => Ok (mkpok (tg_scheme c) u v)
      | Err e => Err e
      end
    else Err InvalidProof.

  Definition pok_wrapper_verify (p : pok) (pk : pkpt) (msg : bytes) (y : F) : M (res unit) :=
    pok_verify O dbg (pok_u p) (pok_v p) pk y msg (dst_of (pok_scheme p)).

  Definition pokts_generate (msg : bytes) (signature : tagged) (now_ns : N) (w : nat)
    : M (res pok_ts * nat) :=
    '(r, w') <- generate_timestamp_proof O dbg ent msg (dst_of (tg_scheme signature))
                  (tg_pt signature) now_ns w ;;
    Val (match r with
         | Ok (u, v, t) => Ok (mkpokts (mkpok (tg_scheme signature) u v) t)
         | Err e => Err e
         end, w').

  Definition pokts_verify (p : pok_ts) (pk : pkpt) (msg : bytes) (timeout_ms : option N)
             (now_ns : N) : M (res unit) :=
    verify_timestamp_proof O dbg (pok_u (pts_proof p)) (pok_v (pts_proof p)) pk
                           (pts_timestamp p) timeout_ms msg
                           (dst_of (pok_scheme (pts_proof p))) now_ns.

  (* ---------- PublicKey: encryption entry points (one get_crypto_rng() each) ---------- *)
  Definition pk_sign_crypt (pk : pkpt) (s : scheme) (msg : bytes) (w : nat) : M (sc_ct * nat) :=
    '(u, v, wp) <- sc_seal O dbg pk msg (dst_of s) (ent w) ;;
    Val (mkscct u v wp s, S w).

  Definition pk_encrypt_time_lock (pk : pkpt) (s : scheme) (msg id : bytes) (w : nat)
    : M (res tl_ct * nat) :=
    if is_id pk then Val (Err InvalidInputs, w)
    else
      (* message augmentation: the identifier is hashed with the public-key prefix *)
      let id' := match s with Aug => pk_bytes O pk ++ id | _ => id end in
      r <- tl_seal O dbg pk msg id' (dst_of s) (ent w) ;;
      Val (match r with
           | Ok (u, v, wp) => Ok (mktlct u v wp s)
           | Err e => Err e
           end, S w).

  Definition pk_encrypt_key_el_gamal (pk : pkpt) (sk : F) (w : nat) : M (res eg_ct * nat) :=
    r <- eg_seal_scalar O C dbg pk sk None None (ent w) 0 ;;
    Val (match r with Ok (c1, c2) => Ok (mkegct c1 c2) | Err e => Err e end, S w).

  Definition pk_encrypt_key_el_gamal_with_proof (pk : pkpt) (sk : F) (w : nat)
    : M (res eg_proof * nat) :=
    r <- eg_seal_scalar_with_proof O C dbg pk sk None None (ent w) ;;
    Val (match r with
         | Ok (c1, c2, mp, bp, ch) => Ok (mkegproof (mkegct c1 c2) mp bp ch)
         | Err e => Err e
         end, S w).

  (* ---------- SignCryptCiphertext ---------- *)
  Definition scct_create_decryption_share (ct : sc_ct) (sks : share) : res share :=
    public_key_share_with_generator O C sks (sc_u ct).

  Definition scct_decrypt_with_shares (ct : sc_ct) (shares : list share) : M (option bytes) :=
    sc_unseal_with_shares O dbg (sc_u ct) (sc_v ct) (sc_w ct) shares (dst_of (sc_scheme ct)).

  Definition scct_decrypt (ct : sc_ct) (sk : F) : M (option bytes) :=
    sc_unseal O dbg (sc_u ct) (sc_v ct) (sc_w ct) sk (dst_of (sc_scheme ct)).

  Definition scct_is_valid (ct : sc_ct) : M bool :=
    match sc_scheme ct with
    | Basic => sc_valid O dbg (sc_u ct) (sc_v ct) (sc_w ct) (DST_NUL C)
    | Aug => sc_valid O dbg (sc_u ct) (sc_v ct) (sc_w ct) (DST_AUG C)
    | Pop => sc_valid O dbg (sc_u ct) (sc_v ct) (sc_w ct) (DST_POPSIG C)
    end.

  Definition sk_sign_decryption_key (sk : F) (ct : sc_ct) : pkpt := pmul (sc_u ct) sk.

  Definition scdk_decrypt (dk : pkpt) (ct : sc_ct) : M (option bytes) :=
    choice <- sc_valid O dbg (sc_u ct) (sc_v ct) (sc_w ct) (dst_of (sc_scheme ct)) ;;
    sc_decrypt O dbg (sc_v ct) dk choice.

  Definition scdk_from_shares (shares : list share) : M (res pkpt) :=
    core_combine_public_key_shares O shares.

  (* SignDecryptionShare::verify *)
  Definition sds_verify (sh pks : share) (ct : sc_ct) : M (res unit) :=
    match share_as_pk O sh with
    | Err e => ret_err e
    | Ok s =>
      match share_as_pk O pks with
      | Err e => ret_err e
      | Ok pk =>
        ok <- sc_verify_share O dbg s pk (sc_u ct) (sc_v ct) (sc_w ct) (dst_of (sc_scheme ct)) ;;
        if ok then ret_ok tt else ret_err InvalidDecryptionShare
      end
    end.

  (* ---------- TimeCryptCiphertext ---------- *)
  Definition tlct_decrypt (ct : tl_ct) (sig : tagged) : M (option bytes) :=
    let '(s, valid) :=
      if scheme_eqb (tg_scheme sig) (tl_scheme ct) then (tg_pt sig, true) else (pid, false) in
    tl_unseal O dbg (tl_u ct) (tl_v ct) (tl_w ct) s valid.

  (* ---------- ElGamal ---------- *)
  Definition egct_decrypt (ct : eg_ct) (sk : F) : pkpt := eg_decrypt sk (eg_c1 ct) (eg_c2 ct).
  Definition egct_add (a b : eg_ct) : eg_ct :=
    mkegct (padd (eg_c1 a) (eg_c1 b)) (padd (eg_c2 a) (eg_c2 b)).
  Definition egdk_decrypt (dk : pkpt) (ct : eg_ct) : pkpt := psub (eg_c2 ct) dk.
  Definition egdk_from_shares (shares : list share) : M (res pkpt) :=
    core_combine_public_key_shares O shares.
  Definition egp_verify (p : eg_proof) (pk : pkpt) : res unit :=
    eg_verify_proof O C pk None (eg_c1 (egp_ct p)) (eg_c2 (egp_ct p)) (egp_mp p) (egp_bp p) (egp_ch p).
  Definition egp_verify_and_decrypt (p : eg_proof) (sk : F) : res pkpt :=
    eg_verify_and_decrypt O C sk None (eg_c1 (egp_ct p)) (eg_c2 (egp_ct p))
                          (egp_mp p) (egp_bp p) (egp_ch p).

  (* ---------- random keys / challenges ---------- *)
  (* SecretKey::new / random(rng), ProofCommitmentChallenge::new:
     hash_to_scalar(rng.gen::<[u8;32]>(), KEYGEN_SALT) *)
  Definition sk_new (w : nat) : M (F * nat) :=
    s <- hash_to_scalar O (rng_bytes32 O (ent w)) KEYGEN_SALT ;; Val (s, S w).
  Definition sk_from_hash (data : bytes) : M F := hash_to_scalar O data KEYGEN_SALT.
  Definition challenge_new (w : nat) : M (F * nat) := sk_new w.
  Definition sk_split_entropy (sk : F) (threshold limit : nat) (w : nat)
    : M (res (list share) * nat) :=
    r <- sk_split sk threshold limit (ent w) ;; Val (r, S w).
End Api.
