(* EmbedLaw for the executable field (integers modulo the BLS12-381 group order r, Extract/Exec.v):
   the one-byte share identifiers 1..255 embed as distinct non-zero scalars.  Finite check by computation,
   lifted to the quantified statement.  (That r is prime - FieldLaws for this instance - is not proved.) *)
From Coq Require Import List NArith ZArith Lia Bool.
From BV Require Import Sem.Base Extract.Exec.
Import ListNotations.

Definition ids : list N := seqN 1 255.

Lemma seqN_spec : forall len start x, In x (seqN start len) <-> (start <= x < start + N.of_nat len)%N.
Proof.
  induction len as [|len IH]; intros start x; cbn [seqN In].
  - split; [tauto|lia].
  - rewrite IH. split; [intros [H|H]; lia|]. intros H.
    destruct (N.eq_dec start x); [left; assumption|right; lia].
Qed.

Lemma in_ids i : (0 < i < 256)%N <-> In i ids.
Proof. unfold ids. rewrite seqN_spec. cbn. lia. Qed.

Definition nonzero_check : bool := forallb (fun i => negb (Z.eqb (zr_of_u64 i) 0)) ids.
Definition inj_check : bool :=
  forallb (fun i => forallb (fun j => negb (Z.eqb (zr_of_u64 i) (zr_of_u64 j)) || N.eqb i j) ids) ids.

Theorem exec_embed_nonzero : forall i, (0 < i < 256)%N -> zr_of_u64 i <> 0%Z.
Proof.
  assert (H : nonzero_check = true) by (vm_compute; reflexivity).
  intros i Hi E. apply in_ids in Hi. unfold nonzero_check in H. rewrite forallb_forall in H.
  specialize (H i Hi). rewrite E in H. discriminate.
Qed.

Theorem exec_embed_injective : forall i j, (0 < i < 256)%N -> (0 < j < 256)%N ->
  zr_of_u64 i = zr_of_u64 j -> i = j.
Proof.
  assert (H : inj_check = true) by (vm_compute; reflexivity).
  intros i j Hi Hj E. apply in_ids in Hi. apply in_ids in Hj.
  unfold inj_check in H. rewrite forallb_forall in H. specialize (H i Hi).
  rewrite forallb_forall in H. specialize (H j Hj).
  rewrite E, Z.eqb_refl in H. cbn in H. apply N.eqb_eq. exact H.
Qed.

Print Assumptions exec_embed_nonzero.
Print Assumptions exec_embed_injective.
