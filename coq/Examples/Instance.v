(* Non-vacuity: a concrete field (integers mod 7) satisfying FieldLaws, and concrete oracles
   satisfying OracleLaws and EmbedLaw's shape, so that the hypotheses of the property theorems are
   satisfiable; plus closed evaluations of the model on this instance. *)
From Coq Require Import Ring Field.
From BV Require Import Alg.Field Alg.Dlog Sem.Base Model.Oracles Model.Helpers Model.Varint
     Model.Core Model.Protocols Model.Api Theory.CoreFacts Theory.Schemes.

(* ---------- GF(7) ---------- *)
Inductive f7 : Set := a0 | a1 | a2 | a3 | a4 | a5 | a6.

Definition f7_of_nat (n : nat) : f7 :=
  match Nat.modulo n 7 with
  | 0 => a0 | 1 => a1 | 2 => a2 | 3 => a3 | 4 => a4 | 5 => a5 | _ => a6
  end%nat.
Definition nat_of_f7 (x : f7) : nat :=
  match x with a0 => 0 | a1 => 1 | a2 => 2 | a3 => 3 | a4 => 4 | a5 => 5 | a6 => 6 end%nat.

Definition f7_add x y := f7_of_nat (nat_of_f7 x + nat_of_f7 y).
Definition f7_mul x y := f7_of_nat (nat_of_f7 x * nat_of_f7 y).
Definition f7_opp x := f7_of_nat (7 - nat_of_f7 x).
Definition f7_sub x y := f7_add x (f7_opp y).
Definition f7_inv x := match x with a0 => a0 | a1 => a1 | a2 => a4 | a3 => a5 | a4 => a2 | a5 => a3 | a6 => a6 end.
Definition f7_eqb x y := Nat.eqb (nat_of_f7 x) (nat_of_f7 y).

Definition K7 : FieldOps := {|
  car := f7; f0 := a0; f1 := a1; fadd := f7_add; fmul := f7_mul; fsub := f7_sub;
  fopp := f7_opp; finv := f7_inv; feqb := f7_eqb |}.

Lemma K7_laws : FieldLaws K7.
Proof.
  constructor.
  - constructor.
    + constructor; cbn; try reflexivity.
      * intros x; destruct x; reflexivity.
      * intros x y; destruct x, y; reflexivity.
      * intros x y z; destruct x, y, z; reflexivity.
      * intros x; destruct x; reflexivity.
      * intros x y; destruct x, y; reflexivity.
      * intros x y z; destruct x, y, z; reflexivity.
      * intros x y z; destruct x, y, z; reflexivity.
      * intros x; destruct x; reflexivity.
    + cbn. discriminate.
    + reflexivity.
    + intros x H; destruct x; cbn in *; try reflexivity. contradiction.
  - intros x y; destruct x, y; cbn; split; intros H; try reflexivity; try discriminate.
Qed.

(* ---------- toy oracles over GF(7): injective fixed-length encodings, a non-vanishing hash ---------- *)
Definition code (x : f7) : N := N.of_nat (nat_of_f7 x).
Definition decode1 (b : N) : option f7 :=
  if (b <? 7)%N then Some (f7_of_nat (N.to_nat b)) else None.

Definition t_enc (len : nat) (x : f7) : bytes := code x :: repeatN 0 (len - 1).
Definition t_dec (len : nat) (b : bytes) : option f7 :=
  match b with
  | c :: r => if Nat.eqb (length b) len && forallb (fun z => (z =? 0)%N) r then decode1 c else None
  | [] => None
  end.

Definition sumb (l : bytes) : nat := fold_right (fun b acc => (N.to_nat b + acc)%nat) 0%nat l.
(* a hash that is never zero: 1 + (sum mod 6) in {1..6} *)
Definition t_eta (m d : bytes) : f7 := f7_of_nat (1 + Nat.modulo (sumb m + 3 * sumb d) 6).

Definition O7 : Oracles K7 := mkOracles K7
  (* eta, eta_pk *) (t_eta : bytes -> bytes -> car K7) (t_eta : bytes -> bytes -> car K7)
  (* hkdf_extract *) (fun s i => s ++ i)
  (* hkdf_expand *) (fun p i n => firstn n (p ++ i ++ repeatN 1 n))
  (* from_okm *) (fun b => f7_of_nat (1 + Nat.modulo (sumb b) 6) : car K7)
  (* enc_sig enc_pk enc_gt *) (t_enc 3 : car K7 -> bytes) (t_enc 5 : car K7 -> bytes) (t_enc 7 : car K7 -> bytes)
  (* dec_sig dec_pk *) (t_dec 3 : bytes -> option (car K7)) (t_dec 5 : bytes -> option (car K7))
  (* repr unrepr *) (t_enc 32 : car K7 -> bytes) (t_dec 32 : bytes -> option (car K7))
  (* of_u64 *) (fun x => f7_of_nat (N.to_nat x) : car K7)
  (* sdec *) (fun b => t_dec 32 (rev b) : option (car K7))
  (* xof *) (fun s n => firstn n (s ++ repeatN 9 n))
  (* sha *) (fun s => firstn 32 (s ++ repeatN 5 32))
  (* fs *) (fun p items c => f7_of_nat (1 + Nat.modulo (sumb p + sumb c + length items) 6) : car K7)
  (* rng_bytes32 *) (fun s => firstn 32 (s ++ repeatN 2 32))
  (* rng_scalar *) (fun s k => f7_of_nat (1 + Nat.modulo (sumb s + k) 6) : car K7).

Definition C7 : Impl := {| DST_NUL := bs "NUL"; DST_AUG := bs "AUG"; DST_POPSIG := bs "POPSIG"; DST_POP := bs "POP";
                           ENC_DST := bs "ENC"; SIG_LEN := 3; PK_LEN := 5 |}.

Lemma t_dec_enc len x : (1 <= len)%nat -> t_dec len (t_enc len x) = Some x.
Proof.
  intros H. unfold t_dec, t_enc. cbn [length]. unfold repeatN. rewrite repeat_length.
  replace (S (len - 1)) with len by lia. rewrite Nat.eqb_refl. cbn [andb].
  replace (forallb (fun z => (z =? 0)%N) (repeat 0%N (len - 1))) with true.
  - destruct x; reflexivity.
  - symmetry. apply forallb_forall. intros z Hz. apply repeat_spec in Hz. subst. reflexivity.
Qed.

Lemma forallb_zero_repeat (r : bytes) :
  forallb (fun z => (z =? 0)%N) r = true -> r = repeatN 0 (length r).
Proof.
  induction r as [|z r IH]; cbn; [reflexivity|]. intros H. apply andb_true_iff in H. destruct H as [Hz Hr].
  apply N.eqb_eq in Hz. subst. unfold repeatN in *. cbn. f_equal. apply IH. exact Hr.
Qed.

Lemma t_enc_dec len b x : t_dec len b = Some x -> t_enc len x = b.
Proof.
  unfold t_dec, t_enc. destruct b as [|c r]; [discriminate|].
  destruct (Nat.eqb (length (c :: r)) len) eqn:El; [|discriminate]. cbn [andb].
  destruct (forallb _ r) eqn:Ef; [|discriminate]. apply Nat.eqb_eq in El. cbn [length] in El.
  unfold decode1. destruct (c <? 7)%N eqn:Ec; [|discriminate]. intros H; inversion H; subst.
  apply N.ltb_lt in Ec. f_equal.
  - assert (Hc : (N.to_nat c < 7)%nat) by lia.
    destruct (N.to_nat c) as [|[|[|[|[|[|[|n]]]]]]] eqn:En; try lia;
      apply (f_equal N.of_nat) in En; rewrite N2Nat.id in En; subst c; reflexivity.
  - replace (S (length r) - 1)%nat with (length r) by lia. symmetry. apply forallb_zero_repeat. exact Ef.
Qed.

Lemma t_enc_wf len x : wfb (t_enc len x).
Proof.
  unfold t_enc, wfb. constructor; [destruct x; cbn; lia|].
  apply Forall_forall. intros z Hz. apply repeat_spec in Hz. subst. lia.
Qed.

Lemma t_enc_len len x : (1 <= len)%nat -> length (t_enc len x) = len.
Proof. intros H. unfold t_enc, repeatN. cbn. rewrite repeat_length. lia. Qed.

Lemma firstn_len_app n (s : bytes) c : length (firstn n (s ++ repeatN c n)) = n.
Proof. rewrite firstn_length, app_length. unfold repeatN. rewrite repeat_length. lia. Qed.

Lemma firstn_repeat_local {A} (c : A) k m : firstn k (repeat c m) = repeat c (Nat.min k m).
Proof.
  revert m. induction k as [|k IH]; intros [|m]; cbn; try reflexivity. rewrite IH. reflexivity.
Qed.

(* the oracle laws assumed by the theorems are satisfiable *)
Theorem O7_laws : OracleLaws K7 O7 (SIG_LEN C7) (PK_LEN C7).
Proof.
  constructor; cbn [O7 enc_sig enc_pk dec_sig dec_pk repr unrepr sdec xof sha SIG_LEN PK_LEN C7].
  - intros a; apply t_enc_len; lia.
  - intros a; apply t_enc_len; lia.
  - intros a; apply t_dec_enc; lia.
  - intros a; apply t_dec_enc; lia.
  - intros b a; apply t_enc_dec.
  - intros b a; apply t_enc_dec.
  - intros a; apply t_enc_wf.
  - intros a; apply t_enc_wf.
  - intros a; apply t_enc_len; lia.
  - intros a; apply t_enc_wf.
  - intros a; apply t_dec_enc; lia.
  - reflexivity.
  - intros a. rewrite rev_involutive. apply t_dec_enc; lia.
  - intros s n. apply firstn_len_app.
  - intros s n m H. rewrite firstn_firstn. replace (Nat.min n m) with n by lia.
    unfold repeatN. rewrite !firstn_app. f_equal.
    destruct (Nat.le_gt_cases n (length s)) as [L|L].
    + replace (n - length s)%nat with 0%nat by lia. reflexivity.
    + rewrite !firstn_repeat_local. f_equal. lia.
  - intros s. apply firstn_len_app.
Qed.

(* ---------- closed evaluations on the instance: the theorems' conclusions, computed ---------- *)
Example sign_verify_runs :
  match sk_sign O7 C7 (a3 : car K7) Aug [1; 2; 3]%N with
  | Ok sg => sig_verify O7 C7 sg (@public_key K7 (a3 : car K7)) [1; 2; 3]%N = Ok tt
  | Err _ => False
  end.
Proof. vm_compute. reflexivity. Qed.

Example other_message_rejected_here :
  match sk_sign O7 C7 (a3 : car K7) Basic [1; 2; 3]%N with
  | Ok sg => sig_verify O7 C7 sg (@public_key K7 (a3 : car K7)) [1; 2; 4]%N = Err InvalidSignature
  | Err _ => False
  end.
Proof. vm_compute. reflexivity. Qed.

Example identity_key_rejected_here :
  sig_verify O7 C7 (mktagged Pop (@mkpt K7 Gsig (a4 : car K7))) (@mkpt K7 Gpk (a0 : car K7)) [7]%N = Err InvalidInputs.
Proof. vm_compute. reflexivity. Qed.

(* the hypotheses of C01_sign_verify_complete hold here: key non-zero, hash non-zero *)
Example C01_hypotheses_satisfiable :
  (a3 : car K7) <> f0 K7 /\ Hs K7 O7 C7 Aug (@public_key K7 (a3 : car K7)) [1; 2; 3]%N <> f0 K7.
Proof. split; vm_compute; discriminate. Qed.

Example signcryption_round_trip_here :
  match pk_sign_crypt O7 C7 true (fun _ => [4; 4; 4]%N) (@public_key K7 (a2 : car K7)) Pop [10; 20; 30]%N 0 with
  | Val (ct, w) => scct_is_valid O7 C7 true ct = Val true
                   /\ scct_decrypt O7 C7 true ct (a2 : car K7) = Val (Some [10; 20; 30]%N) /\ w = 1%nat
  | _ => False
  end.
Proof. vm_compute. repeat split. Qed.

Example time_lock_round_trip_here :
  match pk_encrypt_time_lock O7 C7 true (fun _ => [5; 1]%N) (@public_key K7 (a5 : car K7)) Aug [9; 9]%N [1]%N 0,
        sk_sign O7 C7 (a5 : car K7) Aug [1]%N with
  | Val (Ok ct, _), Ok sg => tlct_decrypt O7 true ct sg = Val (Some [9; 9]%N)
  | _, _ => False
  end.
Proof. vm_compute. reflexivity. Qed.

Print Assumptions K7_laws.
Print Assumptions O7_laws.
