(* Extraction of the executable model for the correspondence check.
   Directives: those of ExtrOcamlBasic only (bool, option, unit, list, prod, sumbool,
   sumor mapped to OCaml's own types); Z, N, positive, nat stay the extracted inductives. *)
From Coq Require Extraction ExtrOcamlBasic.
From BV Require Import Alg.Field Alg.Dlog Sem.Base Model.Oracles Model.Helpers Model.Varint
     Model.Core Model.Protocols Model.Api Model.Codec Extract.Exec.
Extraction Language OCaml.
Extraction "model.ml"
  Zr zr_repr zr_unrepr zr_sdec zr_of_u64 r_mod
  G1Impl G2Impl
  byte_xor is_zero_bytes scalar_from_hkdf_bytes hash_to_scalar
  scalar_to_le_bytes scalar_to_be_bytes scalar_from_le_bytes scalar_from_be_bytes
  varint_enc peek varint_dec frame unframe
  public_key public_key_share public_key_share_with_generator core_sign core_verify
  core_partial_sign core_signature_share_verify core_aggregate_verify
  core_combine_signature_shares core_combine_public_key_shares combine_secret_shares
  basic_sign basic_verify basic_aggregate_verify aug_sign aug_verify aug_aggregate_verify
  pop_sign pop_verify_sig pop_multi_sig_verify pop_aggregate_verify pop_prove pop_verify
  basic_partial_verify pop_partial_verify aggregate_signatures multi_from_signatures
  generate_commitment compute_y generate_proof generate_timestamp_proof pok_verify
  verify_timestamp_proof
  sc_seal sc_valid sc_unseal sc_unseal_with_shares sc_decrypt sc_create_decryption_share
  sc_verify_share tl_seal tl_unseal message_generator eg_seal_scalar eg_seal_point
  eg_seal_scalar_with_proof eg_decrypt eg_verify_proof eg_verify_and_decrypt
  sk_sign sig_verify sig_from_shares aggregate_from_signatures aggregate_verify
  multi_from_sigs multi_verify multi_pk_from_public_keys pop_wrapper_verify
  sk_proof_of_possession sks_public_key sks_sign pks_verify pk_from_shares sk_combine sk_split
  pc_generate pc_finalize pok_wrapper_verify pokts_generate pokts_verify
  pk_sign_crypt pk_encrypt_time_lock pk_encrypt_key_el_gamal pk_encrypt_key_el_gamal_with_proof
  scct_create_decryption_share scct_decrypt_with_shares scct_decrypt scct_is_valid
  sk_sign_decryption_key scdk_decrypt scdk_from_shares sds_verify tlct_decrypt
  egct_decrypt egct_add egdk_decrypt egdk_from_shares egp_verify egp_verify_and_decrypt
  sk_new sk_from_hash sk_split_entropy
  pk_to_bytes pk_try_from pop_to_bytes pop_try_from sk_to_bytes sk_try_from
  sk_enum_to_bytes sk_enum_try_from sk_enum_from_be_bytes sk_enum_from_le_bytes sk_enum_to_le_bytes
  tagged_to_bytes signature_try_from multisig_try_from commitment_try_from
  pok_to_bytes pok_try_from pokts_to_bytes pokts_try_from
  share_to_bytes sk_share_try_from pk_share_try_from eg_share_try_from inner_share_try_from
  sig_share_to_bytes sig_share_try_from scct_to_bytes scct_try_from pk_bare_try_from
  tlct_to_bytes tlct_try_from egct_to_bytes egct_try_from egp_to_bytes egp_try_from
  scheme_of_u8 u8_of_scheme curve_of_u8 u8_of_curve.
