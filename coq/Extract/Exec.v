(* Executable field instance (integers modulo the BLS12-381 group order r) and the
   natively computed oracles (scalar repr / from_repr / u64 embedding).  Execution only:
   no theorem depends on this file, and primality of r is not proved here. *)
From BV Require Import Alg.Field Sem.Base Model.Oracles Model.Protocols.
Open Scope Z_scope.

Definition r_mod : Z := 0x73eda753299d7d483339d80809a1d80553bda402fffe5bfeffffffff00000001.

Fixpoint pow_mod_pos (a : Z) (e : positive) (m : Z) : Z :=
  match e with
  | xH => a mod m
  | xO e' => let t := pow_mod_pos a e' m in (t * t) mod m
  | xI e' => let t := pow_mod_pos a e' m in (((t * t) mod m) * a) mod m
  end.

(* extended Euclid: invariant a = x0 * A and b = x1 * A (mod m) for the input A *)
Fixpoint egcd (fuel : nat) (a b x0 x1 : Z) : Z :=
  match fuel with
  | O => 0
  | S f => if b =? 0 then x0
           else let q := a / b in egcd f b (a - q * b) x1 (x0 - q * x1)
  end.

Definition zr_inv (a : Z) : Z :=
  if a =? 0 then 0 else (egcd 800 r_mod (a mod r_mod) 0 1) mod r_mod.

Definition Zr : FieldOps := {|
  car := Z;
  f0 := 0;
  f1 := 1;
  fadd := fun a b => (a + b) mod r_mod;
  fmul := fun a b => (a * b) mod r_mod;
  fsub := fun a b => (a - b) mod r_mod;
  fopp := fun a => (- a) mod r_mod;
  finv := zr_inv;
  feqb := Z.eqb
|}.

Fixpoint le_value (l : bytes) : N :=
  match l with [] => 0%N | b :: l' => (b + 256 * le_value l')%N end.

Definition zr_repr (a : Z) : bytes := le_bytes 32 (Z.to_N a).
(* PrimeField::from_repr of both curve crates: canonical little-endian if < r; otherwise the value
   is reduced mod r (the bytes are reversed and fed to from_okm) and rejected only when that is zero *)
Definition zr_unrepr (b : bytes) : option Z :=
  if negb (Nat.eqb (length b) 32) then None
  else let v := Z.of_N (le_value b) in
       if v <? r_mod then Some v
       else let s := v mod r_mod in
            if s =? 0 then None else Some s.
(* Scalar's own serde form: 32 bytes big-endian, rejected unless < r *)
Definition zr_sdec (b : bytes) : option Z :=
  if negb (Nat.eqb (length b) 32) then None
  else let v := Z.of_N (le_value (rev b)) in if v <? r_mod then Some v else None.
Definition zr_of_u64 (x : N) : Z := Z.of_N x mod r_mod.
