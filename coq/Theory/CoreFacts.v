(* Characterisation of core_sign / core_verify / aggregate verification in the dlog model. *)
From Coq Require Import Ring Field Permutation.
From BV Require Import Alg.Field Alg.Dlog Sem.Base Model.Oracles Model.Helpers Model.Core.

Section CoreFacts.
  Context (K : FieldOps) (laws : FieldLaws K) (O : Oracles K).
  Add Field Kf3 : (K_field K laws).
  Notation F := (car K).
  Notation "0" := (f0 K).
  Notation "1" := (f1 K).
  Infix "+" := (fadd K).
  Infix "*" := (fmul K).
  Infix "-" := (fsub K).
  Notation "- x" := (fopp K x).

  Lemma is_id_mk {g} (a : F) : @is_id K g (mkpt a) = feqb K a 0.
  Proof. reflexivity. Qed.

  (* ---------- core_sign ---------- *)
  Lemma core_sign_zero msg dst : core_sign O 0 msg dst = Err SigningError.
  Proof. unfold core_sign. rewrite (proj2 (is_zero_s_true K laws 0) eq_refl). reflexivity. Qed.

  Lemma core_sign_nonzero sk msg dst :
    sk <> 0 -> core_sign O sk msg dst = Ok (mkpt (eta O msg dst * sk)).
  Proof.
    intros H. unfold core_sign. rewrite (proj2 (is_zero_s_false K laws sk) H). reflexivity.
  Qed.

  Lemma core_sign_ok_iff sk msg dst s :
    core_sign O sk msg dst = Ok s <-> sk <> 0 /\ s = mkpt (eta O msg dst * sk).
  Proof.
    unfold core_sign. destruct (is_zero_s sk) eqn:E.
    - apply (is_zero_s_true K laws) in E. split; [discriminate | intros [H _]; contradiction].
    - apply (is_zero_s_false K laws) in E. split.
      + intros H; inversion H; subst; split; [exact E|reflexivity].
      + intros [_ ->]. reflexivity.
  Qed.

  (* ---------- core_verify ---------- *)
  (* the checked equation e(H(m), pk) * e(sig, -g) = 1, in dlog form *)
  Lemma verify_pairing_dl (a : F) (pk sig : F) :
    @pairing_dl K [(mkpt a, mkpt pk); (mkpt sig, pneg pgen)] = a * pk - sig.
  Proof. simpl. ring. Qed.

  Theorem core_verify_exact (pk : pt K Gpk) (sig : pt K Gsig) msg dst :
    core_verify O pk sig msg dst = Ok tt
    <-> dl sig <> 0 /\ dl pk <> 0 /\ dl sig = dl pk * eta O msg dst.
  Proof.
    destruct pk as [pk], sig as [sg]. unfold core_verify, hash_to_point. cbn [dl].
    rewrite !is_id_mk.
    destruct (feqb K sg 0) eqn:Es.
    { apply (feqb_true K laws) in Es. split; [discriminate | intros [H _]; contradiction]. }
    apply (feqb_false K laws) in Es.
    destruct (feqb K pk 0) eqn:Ep.
    { apply (feqb_true K laws) in Ep. split; [discriminate | intros (_ & H & _); contradiction]. }
    apply (feqb_false K laws) in Ep.
    unfold pairing, is_id. cbn [dl]. rewrite verify_pairing_dl.
    destruct (feqb K (eta O msg dst * pk - sg) 0) eqn:E.
    - apply (feqb_true K laws) in E. apply -> (fsub_eq_0 K laws) in E.
      split; [intros _ | reflexivity]. repeat split; try assumption. rewrite <- E. ring.
    - apply (feqb_false K laws) in E. split; [discriminate|].
      intros (_ & _ & H). exfalso. apply E. apply (fsub_eq_0 K laws). rewrite H. ring.
  Qed.

  (* any result of core_verify is Ok tt or an error; never anything else *)
  Lemma core_verify_err_kinds pk sig msg dst :
    core_verify O pk sig msg dst = Ok tt
    \/ core_verify O pk sig msg dst = Err InvalidInputs
    \/ core_verify O pk sig msg dst = Err InvalidSignature.
  Proof.
    unfold core_verify.
    destruct (is_id sig); [right; left; reflexivity|].
    destruct (is_id pk); [right; left; reflexivity|].
    destruct (is_id _); [left | right; right]; reflexivity.
  Qed.

  Lemma core_verify_identity_sig pk msg dst : core_verify O pk pid msg dst = Err InvalidInputs.
  Proof. unfold core_verify. rewrite (proj2 (is_id_true K laws pid) eq_refl). reflexivity. Qed.

  Lemma core_verify_identity_pk sig msg dst : core_verify O pid sig msg dst <> Ok tt.
  Proof.
    intros H. apply core_verify_exact in H. destruct H as (_ & H & _). apply H. reflexivity.
  Qed.

  (* completeness: what core_sign produces verifies under the matching key *)
  Theorem core_sign_verify sk msg dst s :
    eta O msg dst <> 0 ->
    core_sign O sk msg dst = Ok s ->
    core_verify O (public_key sk) s msg dst = Ok tt.
  Proof.
    intros HH Hs. apply core_sign_ok_iff in Hs. destruct Hs as [Hsk ->].
    apply core_verify_exact. cbn [dl public_key pmul pgen]. repeat split.
    - apply (fmul_neq_0 K laws); assumption.
    - rewrite (fmul_1_l K laws). exact Hsk.
    - ring.
  Qed.

  (* when the hash point is the identity the honest signature is the identity and is rejected *)
  Lemma core_sign_verify_degenerate sk msg dst s :
    eta O msg dst = 0 ->
    core_sign O sk msg dst = Ok s ->
    core_verify O (public_key sk) s msg dst = Err InvalidInputs.
  Proof.
    intros HH Hs. apply core_sign_ok_iff in Hs. destruct Hs as [Hsk ->].
    unfold core_verify. rewrite is_id_mk, HH.
    replace (0 * sk) with 0 by ring. rewrite (feqb_refl K laws). reflexivity.
  Qed.

  (* uniqueness: at most one group element verifies for (pk, msg, dst) *)
  Theorem core_verify_unique pk s1 s2 msg dst :
    core_verify O pk s1 msg dst = Ok tt -> core_verify O pk s2 msg dst = Ok tt -> s1 = s2.
  Proof.
    intros H1 H2. apply core_verify_exact in H1, H2.
    destruct H1 as (_ & _ & E1), H2 as (_ & _ & E2). apply pt_eq. congruence.
  Qed.

  (* the accepted element is the honest signature *)
  Theorem core_verify_is_signature sk s msg dst :
    core_verify O (public_key sk) s msg dst = Ok tt -> core_sign O sk msg dst = Ok s.
  Proof.
    intros H. apply core_verify_exact in H. destruct H as (Hs & Hp & E).
    cbn [dl public_key pmul pgen] in Hp, E.
    apply core_sign_ok_iff. split.
    - intros ->. apply Hp. ring.
    - apply pt_eq. cbn [dl]. rewrite E. ring.
  Qed.

  (* every other group element is rejected (absolute: no oracle assumption) *)
  Theorem core_verify_rejects_other sk s s' msg dst :
    core_sign O sk msg dst = Ok s -> s' <> s ->
    core_verify O (public_key sk) s' msg dst <> Ok tt.
  Proof.
    intros Hs Hne Hv. apply core_verify_is_signature in Hv. congruence.
  Qed.

  (* another key accepts the same signature only if it is the same key *)
  Theorem core_verify_other_key sk pk' s msg dst :
    eta O msg dst <> 0 ->
    core_sign O sk msg dst = Ok s ->
    core_verify O pk' s msg dst = Ok tt -> pk' = public_key sk.
  Proof.
    intros HH Hs Hv. apply core_sign_ok_iff in Hs. destruct Hs as [Hsk ->].
    apply core_verify_exact in Hv. destruct Hv as (_ & _ & E). cbn [dl] in E.
    apply pt_eq. cbn [dl public_key pmul pgen].
    apply (fmul_cancel_r K laws (eta O msg dst)); [exact HH|].
    rewrite <- E. ring.
  Qed.

  (* another (message, tag) is accepted only at a collision of the hash oracle *)
  Theorem core_verify_other_message sk s msg dst msg' dst' :
    core_sign O sk msg dst = Ok s ->
    core_verify O (public_key sk) s msg' dst' = Ok tt ->
    eta O msg' dst' = eta O msg dst.
  Proof.
    intros Hs Hv. apply core_sign_ok_iff in Hs. destruct Hs as [Hsk ->].
    apply core_verify_exact in Hv. destruct Hv as (_ & _ & E). cbn [dl public_key pmul pgen] in E.
    apply (fmul_cancel_l K laws sk); [exact Hsk|].
    transitivity (eta O msg dst * sk); [|ring]. rewrite E. ring.
  Qed.

  (* valid related tuples stay valid: sums of keys with sums of signatures *)
  Theorem core_verify_additive pk1 pk2 s1 s2 msg dst :
    core_verify O pk1 s1 msg dst = Ok tt -> core_verify O pk2 s2 msg dst = Ok tt ->
    dl (padd pk1 pk2) <> 0 -> dl (padd s1 s2) <> 0 ->
    core_verify O (padd pk1 pk2) (padd s1 s2) msg dst = Ok tt.
  Proof.
    intros H1 H2 Hp Hs. apply core_verify_exact in H1, H2. apply core_verify_exact.
    destruct H1 as (_ & _ & E1), H2 as (_ & _ & E2).
    repeat split; try assumption. cbn [dl padd]. rewrite E1, E2. ring.
  Qed.

  (* why the identity guards matter: without them the equation alone accepts *)
  Lemma without_guard_identity_accepts msg dst :
    @pairing_dl K [(hash_to_point O msg dst, pid); (pid, pneg pgen)] = 0.
  Proof. simpl. ring. Qed.

  (* ---------- sums ---------- *)
  Lemma aggregate_public_keys_dl (pks : list (pt K Gpk)) :
    dl (aggregate_public_keys pks) = dl (psum pks).
  Proof. unfold aggregate_public_keys. rewrite (fold_padd_dl K laws). simpl. ring. Qed.

  (* ---------- aggregate verification ---------- *)
  Fixpoint agg_rhs (pks : list (pt K Gpk * bytes)) (dst : bytes) : F :=
    match pks with
    | [] => 0
    | (pk, m) :: r => dl pk * eta O m dst + agg_rhs r dst
    end.

  Definition no_id_pk (pks : list (pt K Gpk * bytes)) : Prop :=
    Forall (fun pm => dl (fst pm) <> 0) pks.
  Definition hashes_nonzero (pks : list (pt K Gpk * bytes)) dst : Prop :=
    Forall (fun pm => eta O (snd pm) dst <> 0) pks.

  Lemma agg_pairs_spec dbg pks dst acc :
    (dbg = true -> hashes_nonzero pks dst) ->
    (no_id_pk pks ->
       exists l, agg_pairs O dbg pks dst acc = Val (Ok (acc ++ l))
                 /\ pairing_dl l = agg_rhs pks dst)
    /\ (~ no_id_pk pks -> agg_pairs O dbg pks dst acc = Val (Err InvalidInputs)).
  Proof.
    revert acc. induction pks as [|[pk m] r IH]; intros acc Hh.
    - split.
      + intros _. exists []. rewrite app_nil_r. split; reflexivity.
      + intros H. exfalso. apply H. constructor.
    - cbn [agg_pairs].
      assert (Hh' : dbg = true -> hashes_nonzero r dst).
      { intros E. specialize (Hh E). inversion Hh; assumption. }
      destruct (is_id pk) eqn:Ep.
      + apply (is_id_dl K laws) in Ep. split.
        * intros H. inversion H as [|? ? H1 H2]; subst. cbn in H1. contradiction.
        * intros _. reflexivity.
      + apply (is_id_false K laws) in Ep.
        assert (Hd : forall X (k : M X), dassert dbg (negb (is_id (hash_to_point O m dst))) k = k).
        { intros X k. destruct dbg; [|reflexivity].
          specialize (Hh eq_refl). inversion Hh as [|? ? H1 H2]; subst. cbn in H1.
          unfold dassert, hash_to_point. rewrite is_id_mk.
          rewrite (proj2 (feqb_false K laws _ _) H1). reflexivity. }
        rewrite Hd. destruct (IH (acc ++ [(hash_to_point O m dst, pk)]) Hh') as [IH1 IH2]. split.
        * intros H. inversion H as [|? ? H1 H2]; subst.
          destruct (IH1 H2) as (l & El & Pl).
          exists ((hash_to_point O m dst, pk) :: l). split.
          -- rewrite El. rewrite <- app_assoc. reflexivity.
          -- cbn [pairing_dl agg_rhs hash_to_point dl]. rewrite Pl. ring.
        * intros H. apply IH2. intros H2. apply H. constructor; [exact Ep | exact H2].
  Qed.

  Theorem core_aggregate_verify_exact dbg pks sig dst :
    (dbg = true -> hashes_nonzero pks dst) ->
    (core_aggregate_verify O dbg pks sig dst = Val (Ok tt)
     <-> dl sig <> 0 /\ no_id_pk pks /\ dl sig = agg_rhs pks dst).
  Proof.
    intros Hh. unfold core_aggregate_verify.
    destruct (is_id sig) eqn:Es.
    { apply (is_id_dl K laws) in Es. split; [discriminate | intros [H _]; contradiction]. }
    apply (is_id_false K laws) in Es.
    destruct (agg_pairs_spec dbg pks dst [] Hh) as [A1 A2].
    assert (D : no_id_pk pks \/ ~ no_id_pk pks).
    { unfold no_id_pk. clear - laws. induction pks as [|[pk m] r IH].
      - left; constructor.
      - destruct (feq_dec K laws (dl pk) 0) as [E|E].
        + right. intros H. inversion H; subst. cbn in *. contradiction.
        + destruct IH as [IH|IH]; [left; constructor; assumption|right].
          intros H. inversion H; subst. contradiction. }
    destruct D as [D|D].
    - destruct (A1 D) as (l & El & Pl). rewrite El. cbn [bind_res bind app].
      unfold pairing, is_id. cbn [dl]. rewrite (pairing_dl_app K laws). rewrite Pl.
      destruct sig as [sg]. cbn [dl pairing_dl pneg pgen] in *.
      destruct (feqb K _ 0) eqn:E.
      + apply (feqb_true K laws) in E. split; [intros _|reflexivity].
        repeat split; try assumption.
        apply (fadd_cancel_r K laws _ _ (- sg)). transitivity 0; [ring|]. symmetry.
        transitivity (agg_rhs pks dst + (sg * - (1) + 0)); [ring | exact E].
      + apply (feqb_false K laws) in E. split; [discriminate|].
        intros (_ & _ & H). exfalso. apply E. rewrite H. ring.
    - rewrite (A2 D). cbn. split; [discriminate|]. intros (_ & H & _). contradiction.
  Qed.

  (* permutation invariance of the decision *)
  Lemma agg_rhs_perm pks pks' dst : Permutation pks pks' -> agg_rhs pks dst = agg_rhs pks' dst.
  Proof.
    induction 1 as [|[pk m] l l' HP IH|[p1 m1] [p2 m2] l|l1 l2 l3 H1 IH1 H2 IH2]; cbn [agg_rhs].
    - reflexivity.
    - rewrite IH. reflexivity.
    - ring.
    - congruence.
  Qed.

  Lemma no_id_pk_perm pks pks' : Permutation pks pks' -> no_id_pk pks -> no_id_pk pks'.
  Proof. unfold no_id_pk. intros HP H. eapply Permutation_Forall; eassumption. Qed.

  Lemma hashes_nonzero_perm pks pks' dst :
    Permutation pks pks' -> hashes_nonzero pks dst -> hashes_nonzero pks' dst.
  Proof. unfold hashes_nonzero. intros HP H. eapply Permutation_Forall; eassumption. Qed.

  Theorem core_aggregate_verify_perm dbg pks pks' sig dst :
    (dbg = true -> hashes_nonzero pks dst) ->
    Permutation pks pks' ->
    core_aggregate_verify O dbg pks sig dst = Val (Ok tt) ->
    core_aggregate_verify O dbg pks' sig dst = Val (Ok tt).
  Proof.
    intros Hh HP H.
    assert (Hh' : dbg = true -> hashes_nonzero pks' dst).
    { intros E. eapply hashes_nonzero_perm; [exact HP | exact (Hh E)]. }
    apply (core_aggregate_verify_exact dbg pks sig dst Hh) in H.
    apply (core_aggregate_verify_exact dbg pks' sig dst Hh').
    destruct H as (H1 & H2 & H3). repeat split.
    - exact H1.
    - eapply no_id_pk_perm; eassumption.
    - rewrite H3. apply agg_rhs_perm. exact HP.
  Qed.
End CoreFacts.
